package main

import (
	"errors"
	"fmt"
	"math"
	"math/big"
	"sync/atomic"

	"gonum.org/v1/gonum/mat"
	"gonum.org/v1/gonum/optimize/convex/lp"
	"gonum.org/v1/gonum/verifx/vrt"
)

// Tolerances of the LP clauses (from the property's design section).
const (
	lpFeasTol = 1e-9 // |Ax-b|inf <= lpFeasTol*(1+|x|inf), x >= -lpFeasTol
	lpOptTol  = 1e-8 // |c'x - opt| <= lpOptTol*(1+|opt|)
	// lpTol is the convergence tolerance handed to Simplex: the value gonum
	// uses itself (Phase I, and its own tests). The documented example uses
	// 0, which is exercised too.
	lpTol = 1e-10
	// lpFuel bounds the number of element reads Simplex may make of a
	// 4x7 (9 for converted programs) matrix. The largest count observed on
	// the unchanged tree is a few hundred.
	lpFuel = 200000
)

// fuelMatrix is a plain mat.Matrix (no Raw access) that counts element reads
// and panics when the budget is exhausted, so that a pivoting loop that never
// ends becomes an observable event instead of a dead process.
type fuelMatrix struct {
	r, c  int
	d     []float64
	reads *atomic.Int64
}

type fuelExhausted struct{}

func (f *fuelMatrix) Dims() (int, int) { return f.r, f.c }
func (f *fuelMatrix) At(i, j int) float64 {
	if f.reads.Add(1) > lpFuel {
		panic(fuelExhausted{})
	}
	return f.d[i*f.c+j]
}
func (f *fuelMatrix) T() mat.Matrix { return mat.Transpose{Matrix: f} }

type lpCase struct {
	gen   string
	c     []int
	a     [][]int
	b     []int
	tol   float64
	dense bool
	basic []int
}

func (p *lpCase) describe() string {
	return fmt.Sprintf("lp.Simplex gen=%s m=%d n=%d tol=%g dense=%v initialBasic=%v c=%v A=%v b=%v", p.gen, len(p.a), len(p.c), p.tol, p.dense, p.basic, p.c, p.a, p.b)
}

func smallInt(r *vrt.Rand, pz float64) int {
	if r.Chance(pz) {
		return 0
	}
	return r.Range(-5, 5)
}

func clamp5(v int) int {
	if v > 5 {
		return 5
	}
	if v < -5 {
		return -5
	}
	return v
}

// genStandardLP draws a standard-form program with integer data in [-5,5],
// biased to degenerate vertices, redundant rows, infeasible and unbounded
// programs, square systems and b = 0.
func genStandardLP(r *vrt.Rand) *lpCase {
	m := 1 + r.Intn(4)
	n := m + r.Intn(7-m+1)
	gen := "random"
	if r.Chance(0.2) {
		n = m
		gen = "square"
	}
	pz := r.PickFloat(0, 0.2, 0.5)
	a := make([][]int, m)
	for i := range a {
		a[i] = make([]int, n)
		for j := range a[i] {
			a[i][j] = smallInt(r, pz)
		}
	}
	c := make([]int, n)
	switch r.Intn(4) {
	case 0:
		for j := range c {
			c[j] = r.Range(0, 5)
		}
	case 1: // all zero: every feasible point is optimal
	default:
		for j := range c {
			c[j] = smallInt(r, 0.15)
		}
	}
	b := make([]int, m)
	switch u := r.Intn(10); {
	case u < 5:
		// feasible by construction, with zero components (degenerate vertices)
		gen += "+feasible"
		x := make([]int, n)
		nz := 1 + r.Intn(n)
		if r.Chance(0.5) && m > 1 {
			nz = 1 + r.Intn(m) // fewer positive components than rows: degenerate
			gen += "-degenerate"
		}
		for _, j := range r.Perm(n)[:nz] {
			x[j] = r.Range(1, 3)
		}
		for i := range b {
			s := 0
			for j := range x {
				s += a[i][j] * x[j]
			}
			b[i] = s
		}
		// keep |b| small where possible by scaling down x contributions
		for i := range b {
			if b[i] > 5 || b[i] < -5 {
				gen += "-bigb"
				break
			}
		}
	case u < 6:
		gen += "+b=0"
	default:
		gen += "+randomb"
		for i := range b {
			b[i] = smallInt(r, 0.2)
		}
	}
	if m > 1 && r.Chance(0.12) {
		// redundant row: a combination of the others (consistent or not)
		gen += "+redundant"
		i := r.Intn(m)
		k := (i + 1 + r.Intn(m-1)) % m
		f := r.PickInt(1, -1, 2)
		for j := range a[i] {
			a[i][j] = f * a[k][j]
		}
		b[i] = f * b[k]
		if r.Chance(0.3) {
			b[i] += r.PickInt(1, -1)
			gen += "-inconsistent"
		}
	}
	if r.Chance(0.04) {
		gen += "+zerorow"
		i := r.Intn(m)
		for j := range a[i] {
			a[i][j] = 0
		}
		if r.Chance(0.5) {
			b[i] = 0
		}
	}
	if r.Chance(0.04) {
		gen += "+zerocol"
		j := r.Intn(n)
		for i := range a {
			a[i][j] = 0
		}
	}
	if n > m && r.Chance(0.15) {
		gen += "+dupcol"
		j := r.Intn(n)
		k := (j + 1 + r.Intn(n-1)) % n
		for i := range a {
			a[i][j] = a[i][k]
		}
	}
	p := &lpCase{gen: gen, c: c, a: a, b: b, tol: lpTol, dense: r.Bool()}
	if r.Chance(0.2) {
		p.tol = 0
		p.dense = false
	}
	return p
}

func flatten(a [][]int, n int) []float64 {
	d := make([]float64, 0, len(a)*n)
	for _, row := range a {
		for _, v := range row {
			d = append(d, float64(v))
		}
	}
	return d
}

func toF(v []int) []float64 {
	f := make([]float64, len(v))
	for i, x := range v {
		f[i] = float64(x)
	}
	return f
}

func ratF(r interface{ Float64() (float64, bool) }) float64 {
	f, _ := r.Float64()
	return f
}

type lpOut struct {
	f     float64
	x     []float64
	err   error
	panic *vrt.PanicInfo
	fuel  bool
	reads int64
}

func callSimplex(h *harness, desc string, c []float64, am mat.Matrix, b []float64, tol float64, basic []int) lpOut {
	var o lpOut
	h.guarded(desc, func() {
		o.panic = vrt.TryFast(func() {
			o.f, o.x, o.err = lp.Simplex(c, am, b, tol, basic)
		})
	})
	if o.panic != nil {
		if _, ok := o.panic.Value.(fuelExhausted); ok {
			o.fuel = true
		}
	}
	return o
}

func errName(err error) string {
	switch {
	case err == nil:
		return "nil"
	case errors.Is(err, lp.ErrInfeasible):
		return "ErrInfeasible"
	case errors.Is(err, lp.ErrUnbounded):
		return "ErrUnbounded"
	case errors.Is(err, lp.ErrSingular):
		return "ErrSingular"
	case errors.Is(err, lp.ErrBland):
		return "ErrBland"
	case errors.Is(err, lp.ErrLinSolve):
		return "ErrLinSolve"
	case errors.Is(err, lp.ErrZeroRow):
		return "ErrZeroRow"
	case errors.Is(err, lp.ErrZeroColumn):
		return "ErrZeroColumn"
	}
	return "other-error"
}

// shapeClass is the path-class part of LP signatures.
func shapeClass(m, n int) string {
	if m == n {
		return "square"
	}
	return "m<n"
}

// pinnedLPs are literal programs found by the random workload on the pinned
// tree; they are replayed in every run so that the corresponding signatures
// do not depend on the seed.
func pinnedLPs() []*lpCase {
	return []*lpCase{
		// bounded, optimum 18/5, classified unbounded with tol=0
		{gen: "pinned", c: []int{4, 0, 0, 3, 3}, a: [][]int{{2, -2, 2, 2, 5}, {0, 1, -1, 2, -1}, {0, 0, 0, -2, 4}}, b: []int{0, 2, 4}, tol: 0},
		{gen: "pinned", c: []int{4, 0, 0, 3, 3}, a: [][]int{{2, -2, 2, 2, 5}, {0, 1, -1, 2, -1}, {0, 0, 0, -2, 4}}, b: []int{0, 2, 4}, tol: lpTol},
		// square, unique solution (1,2,0,1) with a zero component
		{gen: "pinned", c: []int{3, 4, 5, 0}, a: [][]int{{4, -1, 5, 5}, {5, -3, 1, 5}, {0, -5, -4, -4}, {-3, 1, 0, 5}}, b: []int{7, 4, -14, 4}, tol: lpTol, dense: true},
		// pivots forever with tol=0
		{gen: "pinned", c: []int{2, 2, 3, 3, 3, 4}, a: [][]int{{1, -5, -1, -1, 2, 4}, {-3, -5, 4, 4, -2, 2}, {-3, 5, -4, -4, -4, 4}, {-2, -1, 4, 4, 1, -5}}, b: []int{3, 5, 0, -2}, tol: 0},
		{gen: "pinned", c: []int{2, 2, 3, 3, 3, 4}, a: [][]int{{1, -5, -1, -1, 2, 4}, {-3, -5, 4, 4, -2, 2}, {-3, 5, -4, -4, -4, 4}, {-2, -1, 4, 4, 1, -5}}, b: []int{3, 5, 0, -2}, tol: lpTol},
		// square, exact solution (0,3,2,0); the LU solve returns -1.06e-13 for the first component
		{gen: "pinned", c: []int{0, 0, 0, 0}, a: [][]int{{1, 2, -2, -5}, {0, 1, -5, 1}, {1, 1, -1, -4}, {2, -5, 0, 2}}, b: []int{2, -7, 1, -15}, tol: 0},
		{gen: "pinned", c: []int{0, 0, 0, 0}, a: [][]int{{1, 2, -2, -5}, {0, 1, -5, 1}, {1, 1, -1, -4}, {2, -5, 0, 2}}, b: []int{2, -7, 1, -15}, tol: lpTol, dense: true},
		// Beale's cycling example (rows scaled to integers): the largest-coefficient
		// rule without an anti-cycling device returns to its starting basis after six pivots.
		{gen: "pinned-beale", c: []int{0, 0, 0, -3, 80, -2, 24}, a: [][]int{{4, 0, 0, 1, -32, -4, 36}, {0, 2, 0, 1, -24, -1, 6}, {0, 0, 1, 0, 0, 1, 0}}, b: []int{0, 0, 1}, tol: lpTol},
		{gen: "pinned-beale", c: []int{0, 0, 0, -3, 80, -2, 24}, a: [][]int{{4, 0, 0, 1, -32, -4, 36}, {0, 2, 0, 1, -24, -1, 6}, {0, 0, 1, 0, 0, 1, 0}}, b: []int{0, 0, 1}, tol: lpTol, basic: []int{0, 1, 2}},
		{gen: "pinned-beale", c: []int{0, 0, 0, -3, 80, -2, 24}, a: [][]int{{4, 0, 0, 1, -32, -4, 36}, {0, 2, 0, 1, -24, -1, 6}, {0, 0, 1, 0, 0, 1, 0}}, b: []int{0, 0, 1}, tol: 0, basic: []int{0, 1, 2}},
	}
}

func runLP(c *vrt.Ctx) {
	h := newHarness(c)
	pinned := pinnedLPs()
	n := c.Pick(4000, 60000) + len(pinned)
	var maxReads atomic.Int64
	classes := make([]atomic.Int64, 4)
	var nDegen, nInit atomic.Int64
	vrt.Parallel(n, func(i int) {
		r := c.RNG("lp", i)
		var p *lpCase
		if i < len(pinned) {
			p = pinned[i]
		} else {
			p = genStandardLP(r)
		}
		ref := solveStandardExact(p.c, p.a, p.b)
		classes[ref.class].Add(1)
		if ref.optDegen {
			nDegen.Add(1)
		}
		m, nn := len(p.a), len(p.c)
		if ref.class != lpSingular && !ref.zeroCol && !ref.zeroRow && m < nn && len(ref.feasBases) > 0 && i >= len(pinned) && r.Chance(0.25) {
			p.basic = ref.feasBases[r.Intn(len(ref.feasBases))]
			nInit.Add(1)
		}
		var reads atomic.Int64
		var am mat.Matrix
		if p.dense {
			am = mat.NewDense(m, nn, flatten(p.a, nn))
		} else {
			am = &fuelMatrix{r: m, c: nn, d: flatten(p.a, nn), reads: &reads}
		}
		cf, bf := toF(p.c), toF(p.b)
		o := callSimplex(h, p.describe(), cf, am, bf, p.tol, p.basic)
		if rd := reads.Load(); rd > maxReads.Load() {
			maxReads.Store(rd)
		}
		judgeLP(c, p, ref, o, cf, bf)
		key := fmt.Sprintf("lp.Simplex|%s|%s|tol0=%v|dense=%v|basic=%v|degen=%v|gen=%s", shapeClass(m, nn), lpClassNames[ref.class], p.tol == 0, p.dense, p.basic != nil, ref.optDegen, p.gen)
		c.Eval(key, !(ref.zeroRow || ref.zeroCol))
		if i < 3 {
			c.Sample(map[string]any{"case": p.describe(), "exact_class": lpClassNames[ref.class], "gonum_err": errName(o.err), "gonum_f": o.f})
		}
	})
	c.Note("lp_exact_classes", map[string]int64{"optimal": classes[0].Load(), "infeasible": classes[1].Load(), "unbounded": classes[2].Load(), "singular": classes[3].Load()})
	c.Note("lp_optimal_with_degenerate_optimal_basis", nDegen.Load())
	c.Note("lp_with_initialBasic", nInit.Load())
	c.Note("lp_max_matrix_reads", maxReads.Load())

	runConvert(c, h)
}

func judgeLP(c *vrt.Ctx, p *lpCase, ref *lpRef, o lpOut, cf, bf []float64) {
	m, n := len(p.a), len(p.c)
	shape := shapeClass(m, n)
	tolc := "tol=1e-10"
	if p.tol == 0 {
		tolc = "tol=0"
	}
	viol := func(path, clause, detail string) {
		c.Violation("lp.Simplex|"+shape+"|"+tolc+"|"+path+"|"+clause, detail+" ["+p.describe()+"]", map[string]any{"c": p.c, "A": p.a, "b": p.b, "tol": p.tol, "initialBasic": p.basic, "dense": p.dense, "err": errName(o.err), "f": o.f, "x": o.x})
	}
	if o.fuel {
		viol(lpClassNames[ref.class], "no-termination-within-fuel", fmt.Sprintf("Simplex read more than %d matrix elements of a %dx%d program without returning", lpFuel, m, n))
		return
	}
	if o.panic != nil {
		viol(lpClassNames[ref.class], "panic", "Simplex panicked on an in-domain program: "+o.panic.Msg)
		return
	}
	en := errName(o.err)
	// Inputs the documentation excludes: Simplex "will return an error".
	if ref.zeroRow {
		ok := en == "ErrZeroRow" || en == "ErrSingular" || en == "ErrInfeasible" && (ref.inconsistent || ref.zeroRowB)
		if !ok {
			viol("zero-row", "wrong-error", fmt.Sprintf("A has an all-zero row: got %s", en))
		}
		return
	}
	if ref.zeroCol {
		ok := en == "ErrZeroColumn" || en == "ErrUnbounded" && ref.zeroColNeg || en == "ErrSingular" && ref.class == lpSingular || en == "ErrInfeasible" && (ref.class == lpInfeasible || ref.inconsistent)
		if !ok {
			viol("zero-column", "wrong-error", fmt.Sprintf("A has an all-zero column: got %s", en))
		}
		return
	}
	switch ref.class {
	case lpSingular:
		if !(en == "ErrSingular" || en == "ErrInfeasible" && ref.inconsistent) {
			viol("rank-deficient", "not-classified-singular", fmt.Sprintf("rank(A)=%d < m=%d (consistent=%v): got %s, f=%v", ref.rank, m, !ref.inconsistent, en, o.f))
		}
	case lpInfeasible:
		if en != "ErrInfeasible" {
			viol("infeasible", "classified-"+en, fmt.Sprintf("no basis is feasible (exact enumeration): got %s, f=%v x=%v", en, o.f, o.x))
		}
	case lpUnbounded:
		if en != "ErrUnbounded" {
			viol("unbounded", "classified-"+en, fmt.Sprintf("a feasible basis has an improving ray (exact enumeration): got %s, f=%v x=%v", en, o.f, o.x))
		} else if !math.IsInf(o.f, -1) {
			viol("unbounded", "optF-not-minus-Inf", fmt.Sprintf("ErrUnbounded with optF=%v", o.f))
		}
	case lpOptimal:
		opt := ratF(ref.opt)
		deg := "nondegenerate optimum"
		if ref.optDegen {
			deg = "degenerate optimum"
		}
		if (en == "ErrBland" || en == "ErrLinSolve") && p.tol == 0 && lpPointOK(p, o.x, bf, cf, opt) {
			// Documented: "In rare cases, numeric errors can cause the Simplex
			// to fail. In this case, an error will be returned along with the
			// most recently found feasible solution." With tol == 0 a reduced
			// cost of rounding size is taken for an improving direction; the
			// point returned with the error is feasible and optimal.
			c.Count("lp.tol0_numeric_failure_with_optimal_point", 1)
			return
		}
		if en == "ErrInfeasible" && m == n {
			if why, ok := luRoundingExplains(p); ok {
				// RC12: the misclassification is explained by the rounding of
				// the LU solve exceeding the absolute sign tolerance. It gets a
				// path class of its own so that a known finding for it cannot
				// hide any other wrong ErrInfeasible on square programs.
				shape = "square,lu-rounding-exceeds-absolute-tolerance"
				deg += "; " + why
			}
		}
		if en != "nil" {
			viol("optimal", "classified-"+en, fmt.Sprintf("exact optimum %v ("+deg+", %d feasible bases): got %s (%v), f=%v x=%v", opt, ref.nFeasible, en, o.err, o.f, o.x))
			return
		}
		if len(o.x) != n {
			viol("optimal", "x-length", fmt.Sprintf("len(x)=%d", len(o.x)))
			return
		}
		xinf := 0.0
		for _, v := range o.x {
			xinf = math.Max(xinf, math.Abs(v))
			if !(v >= -lpFeasTol) {
				viol("optimal", "x-negative", fmt.Sprintf("x=%v", o.x))
				return
			}
		}
		for i := 0; i < m; i++ {
			s := 0.0
			for j := 0; j < n; j++ {
				s += float64(p.a[i][j]) * o.x[j]
			}
			if !(math.Abs(s-bf[i]) <= lpFeasTol*(1+xinf)) {
				viol("optimal", "Ax-ne-b", fmt.Sprintf("row %d: Ax=%v b=%v x=%v", i, s, bf[i], o.x))
				return
			}
		}
		cx := 0.0
		for j := range o.x {
			cx += cf[j] * o.x[j]
		}
		if !(math.Abs(cx-opt) <= lpOptTol*(1+math.Abs(opt))) {
			viol("optimal", "cost-not-optimal", fmt.Sprintf("c'x=%v but the exact optimum is %v; x=%v", cx, opt, o.x))
			return
		}
		if !(math.Abs(o.f-cx) <= lpOptTol*(1+math.Abs(opt))) {
			viol("optimal", "optF-ne-c'x", fmt.Sprintf("optF=%v c'x=%v", o.f, cx))
		}
	}
}

// luRoundingExplains decides, from the input alone, whether a wrong
// ErrInfeasible on the square program p is explained by rounding in the
// float64 LU solve of A x = b: some component of the exact solution is zero
// (|x_i| <= 1e-12 |x|inf) and the float64 solution has a NEGATIVE value there
// whose magnitude lies in (initPosTol, 1e3*eps*cond1(A)*max(1,|x|inf)].
func luRoundingExplains(p *lpCase) (string, bool) {
	const initPosTol = 1e-13 // gonum's absolute sign tolerance
	n := len(p.c)
	inv := ratInverse(ratMat(p.a))
	if inv == nil {
		return "", false
	}
	exact := make([]float64, n)
	xinf := 0.0
	for i := 0; i < n; i++ {
		s := new(big.Rat)
		for k := 0; k < n; k++ {
			s.Add(s, new(big.Rat).Mul(inv[i][k], big.NewRat(int64(p.b[k]), 1)))
		}
		exact[i], _ = s.Float64()
		xinf = math.Max(xinf, math.Abs(exact[i]))
	}
	ad := mat.NewDense(n, n, flatten(p.a, n))
	var xf mat.VecDense
	if err := xf.SolveVec(ad, mat.NewVecDense(n, toF(p.b))); err != nil {
		return "", false
	}
	bound := 1e3 * 0x1p-52 * mat.Cond(ad, 1) * math.Max(1, xinf)
	for i := 0; i < n; i++ {
		v := xf.AtVec(i)
		if math.Abs(exact[i]) <= 1e-12*xinf && v < 0 && -v > initPosTol && -v <= bound {
			return fmt.Sprintf("exact x[%d]=0, float64 LU solution %g, cond1(A)=%.3g", i, v, mat.Cond(ad, 1)), true
		}
	}
	return "", false
}

// lpPointOK reports whether x is feasible and optimal within the tolerances.
func lpPointOK(p *lpCase, x, bf, cf []float64, opt float64) bool {
	if len(x) != len(p.c) {
		return false
	}
	xinf := 0.0
	for _, v := range x {
		xinf = math.Max(xinf, math.Abs(v))
		if !(v >= -lpFeasTol) {
			return false
		}
	}
	for i := range p.a {
		s := 0.0
		for j := range x {
			s += float64(p.a[i][j]) * x[j]
		}
		if !(math.Abs(s-bf[i]) <= lpFeasTol*(1+xinf)) {
			return false
		}
	}
	cx := 0.0
	for j := range x {
		cx += cf[j] * x[j]
	}
	return math.Abs(cx-opt) <= lpOptTol*(1+math.Abs(opt))
}

// ---- lp.Convert ----

type genCase struct {
	c    []int
	g    [][]int
	h    []int
	a    [][]int
	b    []int
	kind string
}

func (p *genCase) describe() string {
	return fmt.Sprintf("lp.Convert+Simplex gen=%s c=%v G=%v h=%v A=%v b=%v", p.kind, p.c, p.g, p.h, p.a, p.b)
}

func genGeneralLP(r *vrt.Rand) *genCase {
	nv := 1 + r.Intn(3)
	ni := r.Intn(4)
	ne := r.Intn(3)
	for ni+ne == 0 || ni+ne > 4 || ne > nv {
		ni, ne = r.Intn(4), r.Intn(3)
	}
	p := &genCase{c: make([]int, nv), kind: "random"}
	for j := range p.c {
		p.c[j] = smallInt(r, 0.15)
	}
	row := func() []int {
		v := make([]int, nv)
		for j := range v {
			v[j] = smallInt(r, 0.25)
		}
		return v
	}
	for i := 0; i < ni; i++ {
		p.g = append(p.g, row())
		p.h = append(p.h, smallInt(r, 0.2))
	}
	for i := 0; i < ne; i++ {
		p.a = append(p.a, row())
		p.b = append(p.b, smallInt(r, 0.3))
	}
	if r.Chance(0.4) && ni >= 2 {
		// box the first variable so that bounded programs are common
		p.kind = "boxed"
		for j := range p.g[0] {
			p.g[0][j], p.g[1][j] = 0, 0
		}
		p.g[0][0], p.h[0] = 1, r.Range(0, 5)
		p.g[1][0], p.h[1] = -1, r.Range(0, 5)
	}
	return p
}

func runConvert(c *vrt.Ctx, h *harness) {
	n := c.Pick(1500, 20000)
	classes := make([]atomic.Int64, 4)
	vrt.Parallel(n, func(i int) {
		r := c.RNG("convert", i)
		p := genGeneralLP(r)
		nv, ni, ne := len(p.c), len(p.h), len(p.b)
		class, opt := solveGeneralExact(p.c, p.g, p.h, p.a, p.b)
		var gm, am mat.Matrix
		if ni > 0 {
			gm = mat.NewDense(ni, nv, flatten(p.g, nv))
		}
		if ne > 0 {
			am = mat.NewDense(ne, nv, flatten(p.a, nv))
		}
		var cNew, bNew []float64
		var aNew *mat.Dense
		h.lastCase(p.describe())
		pn := vrt.TryFast(func() { cNew, aNew, bNew = lp.Convert(toF(p.c), gm, toF(p.h), am, toF(p.b)) })
		viol := func(path, clause, detail string) {
			c.Violation("lp.Convert|"+path+"|"+clause, detail+" ["+p.describe()+"]", map[string]any{"c": p.c, "G": p.g, "h": p.h, "A": p.a, "b": p.b})
		}
		if pn != nil {
			viol("general-form", "panic", pn.Msg)
			c.Eval("lp.Convert|panic", false)
			return
		}
		// The converted program, judged exactly (is the optimum preserved?).
		m2, n2 := aNew.Dims()
		ia := make([][]int, m2)
		exact := true
		for i := range ia {
			ia[i] = make([]int, n2)
			for j := range ia[i] {
				v := aNew.At(i, j)
				ia[i][j] = int(v)
				if float64(int(v)) != v {
					exact = false
				}
			}
		}
		ic := make([]int, n2)
		for j := range ic {
			ic[j] = int(cNew[j])
			if float64(ic[j]) != cNew[j] {
				exact = false
			}
		}
		ib := make([]int, m2)
		for i := range ib {
			ib[i] = int(bNew[i])
			if float64(ib[i]) != bNew[i] {
				exact = false
			}
		}
		if !exact || len(cNew) != n2 || len(bNew) != m2 {
			viol("general-form", "non-integer-or-misshaped-output", fmt.Sprintf("cNew=%v bNew=%v aNew=%v", cNew, bNew, mat.Formatted(aNew)))
			return
		}
		ref2 := solveStandardExact(ic, ia, ib)
		classes[class].Add(1)
		key := fmt.Sprintf("lp.Convert|nv=%d|ni=%d|ne=%d|%s|%s", nv, ni, ne, lpClassNames[class], p.kind)
		c.Eval(key, true)
		if ref2.class != lpSingular && !ref2.zeroCol && !ref2.zeroRow {
			if ref2.class != class {
				viol(lpClassNames[class], "converted-program-is-"+lpClassNames[ref2.class], fmt.Sprintf("general form is %s, the standard form returned by Convert is %s (both exact)", lpClassNames[class], lpClassNames[ref2.class]))
				return
			}
			if class == lpOptimal && ref2.opt.Cmp(opt) != 0 {
				viol("optimal", "optimum-changed", fmt.Sprintf("general-form optimum %v, converted-form optimum %v (both exact)", opt, ref2.opt))
				return
			}
		}
		// gonum on the converted program.
		o := callSimplex(h, p.describe(), cNew, aNew, bNew, lpTol, nil)
		c.Eval("lp.Simplex|converted|"+lpClassNames[ref2.class], !(ref2.zeroCol || ref2.zeroRow))
		pc := &lpCase{gen: "converted:" + p.kind, c: ic, a: ia, b: ib, tol: lpTol, dense: true}
		judgeLP(c, pc, ref2, o, cNew, bNew)
		if o.err == nil && o.panic == nil && class == lpOptimal && len(o.x) == n2 {
			// recover x = xp - xn and check it against the general form
			x := make([]float64, nv)
			xinf := 0.0
			for j := range x {
				x[j] = o.x[j] - o.x[nv+j]
				xinf = math.Max(xinf, math.Abs(x[j]))
			}
			for i := 0; i < ni; i++ {
				s := 0.0
				for j := range x {
					s += float64(p.g[i][j]) * x[j]
				}
				if !(s <= float64(p.h[i])+lpFeasTol*(1+xinf)) {
					viol("optimal", "recovered-x-violates-Gx<=h", fmt.Sprintf("x=%v row %d: %v > %v", x, i, s, p.h[i]))
					return
				}
			}
			for i := 0; i < ne; i++ {
				s := 0.0
				for j := range x {
					s += float64(p.a[i][j]) * x[j]
				}
				if !(math.Abs(s-float64(p.b[i])) <= lpFeasTol*(1+xinf)) {
					viol("optimal", "recovered-x-violates-Ax=b", fmt.Sprintf("x=%v row %d: %v != %v", x, i, s, p.b[i]))
					return
				}
			}
			cx := 0.0
			for j := range x {
				cx += float64(p.c[j]) * x[j]
			}
			of := ratF(opt)
			if !(math.Abs(cx-of) <= lpOptTol*(1+math.Abs(of))) {
				viol("optimal", "recovered-x-not-optimal", fmt.Sprintf("c'x=%v, exact optimum of the general form %v", cx, of))
			}
		}
	})
	c.Note("convert_exact_classes", map[string]int64{"optimal": classes[0].Load(), "infeasible": classes[1].Load(), "unbounded": classes[2].Load()})
}
