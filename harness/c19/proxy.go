package main

import (
	"errors"
	"fmt"
	"math"
	"sync"
	"sync/atomic"

	"gonum.org/v1/gonum/optimize"
)

// ev is one task seen at the Method boundary.
type ev struct {
	seq  int64
	op   optimize.Operation
	loc  *optimize.Location
	f    float64
	x    []float64 // copy (MajorIteration only)
	gInf float64   // inf-norm of Gradient (MajorIteration only; NaN when Gradient == nil)
	hasG bool
}

// trace is the boundary observation of one Minimize run: the operations the
// Method sent and the results it was handed, with a global order.
type trace struct {
	seq atomic.Int64
	led *ledger

	mu   sync.Mutex
	ops  []ev    // sent by the method, in order
	res  []ev    // returned to the method, in order
	post []int64 // seq numbers of PostIteration results

	seqResClosed atomic.Int64 // when the proxy saw result closed
	seqOpClosed  atomic.Int64 // when the inner method closed operation
	seqStatus    atomic.Int64 // first Status() call
	statusCalls  atomic.Int64

	initDim, initTasks, initRet int
	innerStatus                 optimize.Status
	innerErr                    error
	innerPanic                  any
}

func (t *trace) next() int64 { return t.seq.Add(1) }

// proxy wraps a real Method and observes the task protocol (C09 proxy
// Method). It adds one forwarding slot per direction and otherwise keeps the
// buffering the inner method is promised.
type proxy struct {
	inner optimize.Method
	tr    *trace
}

var errMethodPanic = errors.New("c19: inner method panicked")

func (p *proxy) Uses(has optimize.Available) (optimize.Available, error) { return p.inner.Uses(has) }

func (p *proxy) Init(dim, tasks int) int {
	r := p.inner.Init(dim, tasks)
	p.tr.initDim, p.tr.initTasks, p.tr.initRet = dim, tasks, r
	return r
}

func (p *proxy) Run(operation chan<- optimize.Task, result <-chan optimize.Task, tasks []optimize.Task) {
	tr := p.tr
	n := len(tasks)
	opIn := make(chan optimize.Task, n)
	resIn := make(chan optimize.Task, n)
	resClosed := make(chan struct{})
	var wg sync.WaitGroup
	wg.Add(2)
	// Forward operations, recording them at the moment they are handed over.
	go func() {
		defer wg.Done()
		for t := range opIn {
			e := ev{seq: tr.next(), op: t.Op, loc: t.Location}
			// Only a MajorIteration's Location is read: it is always
			// processed by the driver. An evaluation sent during shutdown
			// may never be looked at, and the method is then free to reuse
			// its Location (CmaEsChol does), so reading it here would race.
			if t.Location != nil {
				if t.Op == optimize.MajorIteration {
					e.f = t.F
					if tr.led != nil {
						tr.led.major()
					}
					e.x = append([]float64(nil), t.X...)
					if t.Gradient != nil {
						e.hasG = true
						e.gInf = infNorm(t.Gradient)
					} else {
						e.gInf = math.NaN()
					}
				}
			}
			tr.mu.Lock()
			tr.ops = append(tr.ops, e)
			tr.mu.Unlock()
			operation <- t
		}
		tr.seqOpClosed.CompareAndSwap(0, tr.next())
		// The contract orders the closing of result before the closing of
		// operation; the order the inner method produced is already
		// recorded, so waiting here only keeps the real protocol intact
		// after an inner panic.
		<-resClosed
		close(operation)
	}()
	go func() {
		defer wg.Done()
		for t := range result {
			e := ev{seq: tr.next(), op: t.Op, loc: t.Location}
			tr.mu.Lock()
			tr.res = append(tr.res, e)
			if t.Op == optimize.PostIteration {
				tr.post = append(tr.post, e.seq)
			}
			tr.mu.Unlock()
			resIn <- t
		}
		tr.seqResClosed.Store(tr.next())
		close(resClosed)
		close(resIn)
	}()
	func() {
		defer func() {
			if r := recover(); r != nil {
				tr.innerPanic = r
				// Finish the protocol on behalf of the dead method.
				func() {
					defer func() { recover() }() // opIn may already be closed
					opIn <- optimize.Task{Op: optimize.MethodDone}
					close(opIn)
				}()
				for range resIn {
				}
			}
		}()
		p.inner.Run(opIn, resIn, tasks)
	}()
	wg.Wait()
}

// proxyStatuser is a proxy for methods that implement Statuser.
type proxyStatuser struct{ proxy }

func (p *proxyStatuser) Status() (optimize.Status, error) {
	tr := p.tr
	tr.statusCalls.Add(1)
	tr.seqStatus.CompareAndSwap(0, tr.next())
	if tr.innerPanic != nil {
		tr.innerStatus, tr.innerErr = optimize.Failure, errMethodPanic
		return optimize.Failure, errMethodPanic
	}
	s, err := p.inner.(optimize.Statuser).Status()
	tr.innerStatus, tr.innerErr = s, err
	return s, err
}

func wrapMethod(m optimize.Method, tr *trace) optimize.Method {
	// All methods are wrapped as Statusers so that a recovered panic of the
	// inner method can be reported through MethodDone; for inner methods
	// that are not Statusers, Status is only reached after such a panic.
	if _, ok := m.(optimize.Statuser); ok {
		return &proxyStatuser{proxy{m, tr}}
	}
	return &proxyPanicStatuser{proxy{m, tr}}
}

// proxyPanicStatuser wraps a method that is not a Statuser.
type proxyPanicStatuser struct{ proxy }

func (p *proxyPanicStatuser) Status() (optimize.Status, error) {
	tr := p.tr
	tr.statusCalls.Add(1)
	tr.seqStatus.CompareAndSwap(0, tr.next())
	tr.innerStatus, tr.innerErr = optimize.Failure, errMethodPanic
	return optimize.Failure, errMethodPanic
}

// ---- Linesearcher wrapper ----

type lsAccept struct {
	f0, g0       float64
	step         float64
	f, g         float64
	retStep      float64
	lastEvalStep float64
}

type lsWrap struct {
	inner optimize.Linesearcher
	kind  int // 1 Backtracking, 2 Bisection, 3 MoreThuente
	// parameters as configured (after defaulting, see checkLinesearch)
	dec, curv float64

	f0, g0   float64
	step     float64 // step at which the next value/derivative will be evaluated
	haveF    bool
	haveG    bool
	lastF    float64
	lastG    float64
	inits    int
	iters    int
	itersCur int
	maxIters int
	accepts  []lsAccept
	nAccept  int
	errs     map[string]int
	hist     [6][3]float64 // last (value, derivative, returned step)
	histN    int
}

func (w *lsWrap) history() string {
	s := ""
	for i := 0; i < len(w.hist) && i < w.histN; i++ {
		e := w.hist[(w.histN-1-i)%len(w.hist)]
		s += fmt.Sprintf(" (phi=%v phi'=%v -> step %v)", e[0], e[1], e[2])
	}
	return s
}

func (w *lsWrap) Init(value, derivative, step float64) optimize.Operation {
	w.f0, w.g0, w.step = value, derivative, step
	w.inits++
	w.itersCur = 0
	w.haveF, w.haveG = false, false
	return w.inner.Init(value, derivative, step)
}

func (w *lsWrap) Iterate(value, derivative float64) (optimize.Operation, float64, error) {
	w.iters++
	w.itersCur++
	if w.itersCur > w.maxIters {
		w.maxIters = w.itersCur
	}
	if !math.IsNaN(value) {
		w.lastF, w.haveF = value, true
	}
	if !math.IsNaN(derivative) {
		w.lastG, w.haveG = derivative, true
	}
	op, step, err := w.inner.Iterate(value, derivative)
	w.hist[w.histN%len(w.hist)] = [3]float64{value, derivative, step}
	w.histN++
	if err != nil {
		if w.errs == nil {
			w.errs = make(map[string]int)
		}
		w.errs[err.Error()]++
		return op, step, err
	}
	if op == optimize.MajorIteration {
		w.nAccept++
		if len(w.accepts) < 64 {
			a := lsAccept{f0: w.f0, g0: w.g0, step: w.step, f: math.NaN(), g: math.NaN(), retStep: step}
			if w.haveF {
				a.f = w.lastF
			}
			if w.haveG {
				a.g = w.lastG
			}
			w.accepts = append(w.accepts, a)
		}
		return op, step, err
	}
	if step != w.step {
		w.step = step
		w.haveF, w.haveG = false, false
	}
	return op, step, err
}

// ---- Converger logger ----

type convLog struct {
	inner    optimize.Converger
	verdicts []optimize.Status
	inits    int
}

func (c *convLog) Init(dim int) { c.inits++; c.verdicts = c.verdicts[:0]; c.inner.Init(dim) }
func (c *convLog) Converged(l *optimize.Location) optimize.Status {
	s := c.inner.Converged(l)
	c.verdicts = append(c.verdicts, s)
	return s
}

// stopAfter is a custom Converger returning st from the k-th call on.
type stopAfter struct {
	k  int
	st optimize.Status
	n  int
}

func (s *stopAfter) Init(dim int) { s.n = 0 }
func (s *stopAfter) Converged(l *optimize.Location) optimize.Status {
	s.n++
	if s.n >= s.k {
		return s.st
	}
	return optimize.NotTerminated
}

// ---- Recorder ----

var errRecorder = errors.New("c19: recorder failure")

type recorder struct {
	failAt  int  // 1-based Record call that fails (0 = never); Init fails when failAt == -1
	once    bool // only that call fails (otherwise every call from it on)
	calls   int
	failed  int // call number at which the error was returned first
	ops     []optimize.Operation
	lastOp  optimize.Operation
	initN   int
	badStat string
}

func (r *recorder) Init() error {
	r.initN++
	r.calls = 0
	if r.failAt == -1 {
		return errRecorder
	}
	return nil
}

func (r *recorder) Record(l *optimize.Location, op optimize.Operation, st *optimize.Stats) error {
	r.calls++
	r.lastOp = op
	if len(r.ops) < 1<<16 {
		// only a prefix of a very long run is kept
		r.ops = append(r.ops, op)
	}
	if r.failAt > 0 && (r.calls == r.failAt || r.calls > r.failAt && !r.once) {
		if r.failed == 0 {
			r.failed = r.calls
		}
		return errRecorder
	}
	return nil
}

// ---- Problem.Status callback ----

var errStatusCB = errors.New("c19: Problem.Status failure")

type statusCB struct {
	led *ledger
	// from the k-th call on (k > 0) the callback returns (st, err).
	k   int
	st  optimize.Status
	err error

	calls   atomic.Int64
	firedAt atomic.Int64 // call number at which a terminal answer was first given (configured)
	valveAt atomic.Int64 // call number at which the fuel valve first fired
}

var statusValve = optimize.NewStatus("c19-fuel-valve", true, errors.New("c19: fuel exhausted"))
var statusCustom = optimize.NewStatus("c19-custom", true, errors.New("c19: custom"))

func (s *statusCB) Status() (optimize.Status, error) {
	n := s.calls.Add(1)
	if s.k > 0 && int(n) >= s.k {
		s.firedAt.CompareAndSwap(0, n)
		return s.st, s.err
	}
	if s.led.exhausted.Load() {
		s.valveAt.CompareAndSwap(0, n)
		return statusValve, nil
	}
	return optimize.NotTerminated, nil
}

func opName(op optimize.Operation) string {
	switch op {
	case optimize.NoOperation:
		return "NoOperation"
	case optimize.InitIteration:
		return "InitIteration"
	case optimize.PostIteration:
		return "PostIteration"
	case optimize.MajorIteration:
		return "MajorIteration"
	case optimize.MethodDone:
		return "MethodDone"
	}
	s := ""
	if op&optimize.FuncEvaluation != 0 {
		s += "F"
	}
	if op&optimize.GradEvaluation != 0 {
		s += "G"
	}
	if op&optimize.HessEvaluation != 0 {
		s += "H"
	}
	if rest := op &^ (optimize.FuncEvaluation | optimize.GradEvaluation | optimize.HessEvaluation); rest != 0 || s == "" {
		return fmt.Sprintf("Op(%d)", uint64(op))
	}
	return "Eval" + s
}

func isEval(op optimize.Operation) bool {
	m := optimize.FuncEvaluation | optimize.GradEvaluation | optimize.HessEvaluation
	return op&m != 0 && op&^m == 0
}
