package main

import (
	"math/big"
)

// Exact reference for small linear programs: all-bases enumeration in
// big.Rat for the standard form, Fourier-Motzkin elimination for the general
// form. Nothing here calls gonum.

const (
	lpOptimal = iota
	lpInfeasible
	lpUnbounded
	lpSingular
)

var lpClassNames = [...]string{"optimal", "infeasible", "unbounded", "singular"}

type lpRef struct {
	class        int
	opt          *big.Rat
	rank         int
	inconsistent bool // rank([A b]) > rank(A)
	zeroRow      bool
	zeroRowB     bool // the first zero row has b != 0
	zeroCol      bool
	zeroColNeg   bool // some zero column has c < 0
	nFeasible    int  // feasible bases
	degenerate   bool // some feasible basis has a zero basic variable
	optDegen     bool // some optimal basis is degenerate
	multiOpt     bool // more than one optimal basis
	feasBases    [][]int
}

func ratMat(a [][]int) [][]*big.Rat {
	m := make([][]*big.Rat, len(a))
	for i := range a {
		m[i] = make([]*big.Rat, len(a[i]))
		for j, v := range a[i] {
			m[i][j] = big.NewRat(int64(v), 1)
		}
	}
	return m
}

// ratRank returns the rank of a (destroyed).
func ratRank(a [][]*big.Rat) int {
	if len(a) == 0 {
		return 0
	}
	rows, cols := len(a), len(a[0])
	r := 0
	t := new(big.Rat)
	for c := 0; c < cols && r < rows; c++ {
		p := -1
		for i := r; i < rows; i++ {
			if a[i][c].Sign() != 0 {
				p = i
				break
			}
		}
		if p < 0 {
			continue
		}
		a[r], a[p] = a[p], a[r]
		for i := r + 1; i < rows; i++ {
			if a[i][c].Sign() == 0 {
				continue
			}
			f := new(big.Rat).Quo(a[i][c], a[r][c])
			for j := c; j < cols; j++ {
				a[i][j] = new(big.Rat).Sub(a[i][j], t.Mul(f, a[r][j]))
			}
		}
		r++
	}
	return r
}

// ratInverse returns the inverse of the square matrix b, or nil if singular.
func ratInverse(b [][]*big.Rat) [][]*big.Rat {
	n := len(b)
	w := make([][]*big.Rat, n)
	for i := range w {
		w[i] = make([]*big.Rat, 2*n)
		for j := 0; j < n; j++ {
			w[i][j] = new(big.Rat).Set(b[i][j])
			w[i][n+j] = new(big.Rat)
		}
		w[i][n+i].SetInt64(1)
	}
	for c := 0; c < n; c++ {
		p := -1
		for i := c; i < n; i++ {
			if w[i][c].Sign() != 0 {
				p = i
				break
			}
		}
		if p < 0 {
			return nil
		}
		w[c], w[p] = w[p], w[c]
		inv := new(big.Rat).Inv(w[c][c])
		for j := 0; j < 2*n; j++ {
			w[c][j] = new(big.Rat).Mul(w[c][j], inv)
		}
		for i := 0; i < n; i++ {
			if i == c || w[i][c].Sign() == 0 {
				continue
			}
			f := new(big.Rat).Set(w[i][c])
			for j := 0; j < 2*n; j++ {
				w[i][j] = new(big.Rat).Sub(w[i][j], new(big.Rat).Mul(f, w[c][j]))
			}
		}
	}
	out := make([][]*big.Rat, n)
	for i := range out {
		out[i] = w[i][n:]
	}
	return out
}

// solveStandardExact classifies min c'x s.t. Ax=b, x>=0 by enumerating all
// bases.
func solveStandardExact(c []int, a [][]int, b []int) *lpRef {
	m := len(a)
	n := len(c)
	ref := &lpRef{}
	for i := 0; i < m; i++ {
		z := true
		for j := 0; j < n; j++ {
			if a[i][j] != 0 {
				z = false
				break
			}
		}
		if z {
			if !ref.zeroRow {
				ref.zeroRowB = b[i] != 0
			}
			ref.zeroRow = true
		}
	}
	for j := 0; j < n; j++ {
		z := true
		for i := 0; i < m; i++ {
			if a[i][j] != 0 {
				z = false
				break
			}
		}
		if z {
			ref.zeroCol = true
			if c[j] < 0 {
				ref.zeroColNeg = true
			}
		}
	}
	ra := ratMat(a)
	ref.rank = ratRank(ratMat(a))
	aug := make([][]int, m)
	for i := range aug {
		aug[i] = append(append([]int(nil), a[i]...), b[i])
	}
	ref.inconsistent = ratRank(ratMat(aug)) > ref.rank
	if ref.rank < m {
		ref.class = lpSingular
		return ref
	}
	rb := make([]*big.Rat, m)
	for i := range rb {
		rb[i] = big.NewRat(int64(b[i]), 1)
	}
	rc := make([]*big.Rat, n)
	for j := range rc {
		rc[j] = big.NewRat(int64(c[j]), 1)
	}
	idx := make([]int, m)
	for i := range idx {
		idx[i] = i
	}
	unbounded := false
	var best *big.Rat
	nOpt := 0
	optDegen := false
	bm := make([][]*big.Rat, m)
	for i := range bm {
		bm[i] = make([]*big.Rat, m)
	}
	inB := make([]bool, n)
	for {
		// basis idx
		for i := 0; i < m; i++ {
			for k, j := range idx {
				bm[i][k] = ra[i][j]
			}
		}
		if inv := ratInverse(bm); inv != nil {
			xb := make([]*big.Rat, m)
			feas, degen := true, false
			for i := 0; i < m; i++ {
				s := new(big.Rat)
				for k := 0; k < m; k++ {
					s.Add(s, new(big.Rat).Mul(inv[i][k], rb[k]))
				}
				xb[i] = s
				if s.Sign() < 0 {
					feas = false
					break
				}
				if s.Sign() == 0 {
					degen = true
				}
			}
			if feas {
				ref.nFeasible++
				if len(ref.feasBases) < 8 {
					ref.feasBases = append(ref.feasBases, append([]int(nil), idx...))
				}
				if degen {
					ref.degenerate = true
				}
				obj := new(big.Rat)
				for k, j := range idx {
					obj.Add(obj, new(big.Rat).Mul(rc[j], xb[k]))
				}
				switch {
				case best == nil || obj.Cmp(best) < 0:
					best, nOpt, optDegen = obj, 1, degen
				case obj.Cmp(best) == 0:
					nOpt++
					optDegen = optDegen || degen
				}
				// y = cB' B^-1
				y := make([]*big.Rat, m)
				for k := 0; k < m; k++ {
					s := new(big.Rat)
					for i := 0; i < m; i++ {
						s.Add(s, new(big.Rat).Mul(rc[idx[i]], inv[i][k]))
					}
					y[k] = s
				}
				for i := range inB {
					inB[i] = false
				}
				for _, j := range idx {
					inB[j] = true
				}
				for j := 0; j < n && !unbounded; j++ {
					if inB[j] {
						continue
					}
					r := new(big.Rat).Set(rc[j])
					for k := 0; k < m; k++ {
						r.Sub(r, new(big.Rat).Mul(y[k], ra[k][j]))
					}
					if r.Sign() >= 0 {
						continue
					}
					// d = B^-1 A_j ; ray if d <= 0
					ray := true
					for i := 0; i < m && ray; i++ {
						s := new(big.Rat)
						for k := 0; k < m; k++ {
							s.Add(s, new(big.Rat).Mul(inv[i][k], ra[k][j]))
						}
						if s.Sign() > 0 {
							ray = false
						}
					}
					if ray {
						unbounded = true
					}
				}
			}
		}
		// next combination
		i := m - 1
		for i >= 0 && idx[i] == n-m+i {
			i--
		}
		if i < 0 {
			break
		}
		idx[i]++
		for k := i + 1; k < m; k++ {
			idx[k] = idx[k-1] + 1
		}
	}
	switch {
	case ref.nFeasible == 0:
		ref.class = lpInfeasible
	case unbounded:
		ref.class = lpUnbounded
	default:
		ref.class = lpOptimal
		ref.opt = best
		ref.optDegen = optDegen
		ref.multiOpt = nOpt > 1
	}
	return ref
}

// ---- Fourier-Motzkin for the general form ----

// ineq is sum coef[i]*v[i] <= rhs.
type ineq struct {
	coef []*big.Rat
	rhs  *big.Rat
}

// solveGeneralExact classifies min c'x s.t. Gx<=h, Ax=b with x free, by
// eliminating x from {Gx<=h, Ax<=b, -Ax<=-b, c'x - z <= 0} and reading the
// bounds left on z. It returns lpOptimal/lpInfeasible/lpUnbounded.
func solveGeneralExact(c []int, g [][]int, h []int, a [][]int, b []int) (int, *big.Rat) {
	nv := len(c)
	mk := func(row []int, sign int, zc int, rhs int) ineq {
		q := ineq{coef: make([]*big.Rat, nv+1), rhs: big.NewRat(int64(sign*rhs), 1)}
		for j := 0; j < nv; j++ {
			q.coef[j] = big.NewRat(int64(sign*row[j]), 1)
		}
		q.coef[nv] = big.NewRat(int64(zc), 1)
		return q
	}
	var sys []ineq
	for i := range g {
		sys = append(sys, mk(g[i], 1, 0, h[i]))
	}
	for i := range a {
		sys = append(sys, mk(a[i], 1, 0, b[i]))
		sys = append(sys, mk(a[i], -1, 0, b[i]))
	}
	sys = append(sys, mk(c, 1, -1, 0))
	for v := 0; v < nv; v++ {
		var pos, neg, zero []ineq
		for _, q := range sys {
			switch q.coef[v].Sign() {
			case 1:
				pos = append(pos, q)
			case -1:
				neg = append(neg, q)
			default:
				zero = append(zero, q)
			}
		}
		next := zero
		for _, p := range pos {
			for _, q := range neg {
				// p/pc + q/(-qc)
				fp := new(big.Rat).Inv(p.coef[v])
				fq := new(big.Rat).Inv(new(big.Rat).Neg(q.coef[v]))
				r := ineq{coef: make([]*big.Rat, nv+1), rhs: new(big.Rat)}
				for j := range r.coef {
					r.coef[j] = new(big.Rat).Add(new(big.Rat).Mul(fp, p.coef[j]), new(big.Rat).Mul(fq, q.coef[j]))
				}
				r.rhs.Add(new(big.Rat).Mul(fp, p.rhs), new(big.Rat).Mul(fq, q.rhs))
				next = append(next, r)
			}
		}
		sys = next
	}
	// only z is left: cz*z <= rhs
	var lower *big.Rat
	for _, q := range sys {
		cz := q.coef[nv]
		switch cz.Sign() {
		case 0:
			if q.rhs.Sign() < 0 {
				return lpInfeasible, nil
			}
		case -1:
			// z >= rhs/cz
			l := new(big.Rat).Quo(q.rhs, cz)
			if lower == nil || l.Cmp(lower) > 0 {
				lower = l
			}
		case 1:
			// an upper bound on z cannot arise: z only occurs with coefficient -1 or 0
		}
	}
	// feasibility of the x-part is decided by the rows without z; rows with z
	// only bound z from below.
	if lower == nil {
		return lpUnbounded, nil
	}
	return lpOptimal, lower
}
