package main

import (
	"fmt"
	"io"
	"math"
	"sync"
	"sync/atomic"
	"time"

	"gonum.org/v1/gonum/mat"
	"gonum.org/v1/gonum/optimize"
	"gonum.org/v1/gonum/verifx/vrt"
)

// Calibrated constants (worst ratios measured on the unchanged tree over
// seeds 1,2,3,7,42, both tiers; see the report).
const (
	// quadGapTol bounds (f(X)-f*)/(f(x0)-f*) for a gradient-based method
	// that stopped on its own on a strictly convex quadratic with
	// kappa <= 1e3. Worst observed ratio 2.5e-10 (CG:FletcherReeves with
	// MoreThuente, GradientThreshold; thorough tier, seeds 1,2,3,7,42), so
	// the bound is 400x that; seeded breaks (LBFGS rho, CG without the
	// descent restart) stop at ratios of 1e-2..1.
	quadGapTol = 1e-7
	// lsSlack is the relative slack on the line-search inequalities, which
	// the implementation evaluates in floating point in a particular order.
	lsSlack = 1e-12
	// defaultFuel is the bounded-progress budget in callbacks per run for
	// runs without a work limit. The largest terminating run observed on the
	// unchanged tree used 1.07e5 callbacks (GradientDescent, kappa=1e3).
	defaultFuel = 12000000
	// stuckFuel is the budget of callbacks between two MajorIterations of
	// one run. The longest legitimate iteration observed used 2.0e3
	// callbacks (Bisection halving a step down to rounding level).
	stuckFuel = 200000
	// runtimeLimit / runtimeSleep: Settings.Runtime of the runtime cases and
	// the time one chosen Func call blocks. Only "elapsed >= runtimeSleep >
	// runtimeLimit after that call returned" is ever used.
	runtimeLimit = 20 * time.Millisecond
	runtimeSleep = 50 * time.Millisecond
)

type harness struct {
	c *vrt.Ctx

	mu       sync.Mutex
	maxGap   map[string]float64
	maxEvals int
	statuses map[string]int
	lsErrs   map[string]int
	maxOver  int
	nRuns    int64
	maxSince int
	nAccepts int64
	nReplays int64

	// doc comments the corresponding clauses rest on (read from $VERIF_REPO)
	docErrFunc         bool
	docGradThrNoEffect bool
	docDefaultConverge bool
	docCmaLowestAcross bool
}

func newHarness(c *vrt.Ctx) *harness {
	return &harness{c: c, maxGap: map[string]float64{}, statuses: map[string]int{}, lsErrs: map[string]int{}}
}

// stuckOwner is the description of the first run that did not come back;
// from then on only that run writes the last-case file, so that its text
// stays constant and vctl's cpu-budget / stall verdict fires and names it.
var stuckOwner atomic.Pointer[string]

func (h *harness) lastCase(desc string) {
	if stuckOwner.Load() == nil {
		h.c.LastCase(desc)
	}
}

// guarded runs f in its own goroutine; a run that has not come back after
// four minutes of wall time (legitimate runs take at most a few seconds of
// CPU) claims the last-case file. The timer decides nothing by itself.
func (h *harness) guarded(desc string, f func()) {
	h.lastCase(desc)
	done := make(chan struct{})
	go func() {
		defer close(done)
		f()
	}()
	t := time.NewTimer(240 * time.Second)
	defer t.Stop()
	for {
		select {
		case <-done:
			return
		case <-t.C:
			d := "STUCK " + desc
			if stuckOwner.CompareAndSwap(nil, &d) {
				h.c.LastCase(d)
			}
			t.Reset(time.Hour)
		}
	}
}

type runResult struct {
	res   *optimize.Result
	err   error
	panic *vrt.PanicInfo
}

func forgetSuffix(m methSpec) string {
	if m.kind == mCMA && m.forget {
		return ":ForgetBest"
	}
	return ""
}

func allZero(x []float64) bool {
	for _, v := range x {
		if v != 0 {
			return false
		}
	}
	return true
}

func sameFloats(a, b []float64) bool {
	if len(a) != len(b) {
		return false
	}
	for i := range a {
		if math.Float64bits(a[i]) != math.Float64bits(b[i]) {
			return false
		}
	}
	return true
}

func (h *harness) runCase(cs *caseSpec) { h.runCaseWith(cs, nil) }

// runHistory runs the cases one after the other with the SAME method value
// (built for the first one); every run is judged with all clauses.
func (h *harness) runHistory(hist []*caseSpec) {
	var bm *builtMethod
	for i, cs := range hist {
		cs.run = i
		bm = h.runCaseWith(cs, bm)
	}
}

func (h *harness) runCaseWith(cs *caseSpec, bm *builtMethod) *builtMethod {
	c := h.c
	o := cs.obj
	r := vrt.NewRand(cs.seed)
	fuel := defaultFuel
	led := newLedger(o, cs.ft, fuel)
	led.gkind, led.gval = cs.gft.kind, cs.gft.val
	if bm == nil {
		bm = cs.m.build(o, r, led)
	} else {
		bm.rebind(led)
	}
	bm.runs++
	tr := &trace{led: led}
	method := wrapMethod(bm.m, tr)

	prob := optimize.Problem{Func: led.Func}
	if o.g != nil {
		prob.Grad = led.Grad
	}
	if o.h != nil {
		prob.Hess = led.Hess
	}
	var cb *statusCB
	if !(cs.s.noValve && cs.s.cbK == 0) {
		cb = &statusCB{led: led, k: cs.s.cbK}
		switch cs.s.cbKind {
		case 1:
			cb.st = statusCustom
		case 2:
			cb.st, cb.err = optimize.NotTerminated, errStatusCB
		case 3:
			cb.st, cb.err = optimize.Failure, errStatusCB
		}
		prob.Status = cb.Status
	}

	set := &optimize.Settings{
		FuncEvaluations: cs.s.limF, GradEvaluations: cs.s.limG, HessEvaluations: cs.s.limH,
		MajorIterations: cs.s.limMaj, GradientThreshold: cs.s.gradThr, Concurrent: cs.s.concurrent,
	}
	switch cs.s.runtime {
	case 1:
		set.Runtime = time.Nanosecond
	case 2:
		set.Runtime = runtimeLimit
		led.sleepAt, led.sleepDur = cs.s.sleepAt, runtimeSleep
		if cs.s.concurrent > 1 {
			led.idle = time.Millisecond
		}
	case 3:
		set.Runtime = time.Hour
	}
	var clog *convLog
	switch cs.s.conv {
	case 1:
		set.Converger = optimize.NeverTerminate{}
	case 2:
		clog = &convLog{inner: &stopAfter{k: cs.s.convK, st: cs.s.convStatus}}
		set.Converger = clog
	case 3:
		clog = &convLog{inner: &optimize.FunctionConverge{Absolute: 1e-6, Relative: 1e-9, Iterations: cs.s.convK}}
		set.Converger = clog
	}
	var rec *recorder
	if cs.s.rec == -3 {
		set.Recorder = &optimize.Printer{Writer: io.Discard, HeadingInterval: 3}
	} else if cs.s.rec != 0 {
		rec = &recorder{}
		if cs.s.rec > 0 || cs.s.rec == -1 {
			rec.failAt = cs.s.rec
			rec.once = cs.s.recOnce
		}
		set.Recorder = rec
	}
	f0 := o.f(o.x0)
	if cs.s.init > 0 {
		iv := &optimize.Location{F: f0}
		led.known(o.x0, f0)
		if cs.s.init >= 2 && o.g != nil {
			iv.Gradient = make([]float64, o.dim)
			o.g(iv.Gradient, o.x0)
			led.knownGrad(o.x0, iv.Gradient)
		}
		if cs.s.init >= 3 && o.h != nil {
			iv.Hessian = mat.NewSymDense(o.dim, nil)
			o.h(iv.Hessian, o.x0)
		}
		set.InitValues = iv
	}
	x0 := append([]float64(nil), o.x0...)

	if cs.reuse {
		// Warm the method object up with an unrelated, unjudged run.
		wo := simpleBowl(o.dim%3 + 1)
		wp := optimize.Problem{Func: wo.f, Grad: wo.g, Hess: wo.h}
		if cs.m.kind == mNM && cs.m.simplex || cs.m.kind == mCMA && cs.m.cmaChol {
			// the stored simplex / InitCholesky has the wrong dimension for the warm-up
		} else if cs.m.kind != mLS {
			vrt.TryFast(func() { optimize.Minimize(wp, wo.x0, &optimize.Settings{FuncEvaluations: 23}, bm.m) })
		}
	}

	var out runResult
	h.guarded(cs.describe(), func() {
		out.panic = vrt.Try(func() {
			out.res, out.err = optimize.Minimize(prob, x0, set, method)
		})
	})
	h.judge(cs, led, bm, tr, cb, rec, clog, set, f0, &out)
	// Minimize must not modify what the user handed in.
	if !sameFloats(x0, o.x0) {
		h.violPath(cs, &out, "user-data", "initX-modified", fmt.Sprintf("the initX slice passed to Minimize was changed from %v to %v", o.x0, x0))
	}
	for _, what := range bm.mutatedUserData() {
		h.violPath(cs, &out, "user-data", what+"-modified", fmt.Sprintf("Minimize (run %d with this method value) changed the user-supplied %s; InitialVertices now %v (supplied %v)", bm.runs, what, bm.nmVerts, bm.nmVertsSnap))
	}
	nontrivial := out.res != nil
	c.Eval(cs.classKey(), nontrivial)
	if nontrivial && c.WantSample() {
		c.Sample(map[string]any{"case": cs.describe(), "status": out.res.Status.String(), "F": out.res.F, "X": out.res.X,
			"stats": fmt.Sprintf("%+v", out.res.Stats), "err": fmt.Sprint(out.err)})
	}
	return bm
}

func (cs *caseSpec) pathClass() string {
	switch {
	case cs.ft.kind != faultNone:
		return "objective-returns-" + faultValName(cs.ft.val)
	case cs.gft.kind != faultNone:
		return "gradient-returns-" + faultValName(cs.gft.val)
	case cs.s.rec > 0 || cs.s.rec == -1:
		return "recorder-error"
	case cs.s.cbK > 0:
		return "problem-status"
	case cs.s.anyLimit():
		return "limit"
	case cs.s.conv == 2:
		return "converger"
	}
	return "natural"
}

// unlimitedIsInDomain reports whether the configuration contains a stopping
// rule that must end the run on the objectives used here: a work limit, a
// Problem.Status / Recorder stop, or a function-convergence rule with a
// positive iteration count (the documented default included).
func (cs *caseSpec) unlimitedIsInDomain() bool {
	if cs.s.limF > 0 || cs.s.limMaj > 0 || cs.s.runtimeStops() || cs.s.cbK > 0 || cs.s.rec > 0 {
		return true
	}
	switch cs.s.conv {
	case 0, 2:
		return true
	case 3:
		return cs.s.convK > 0
	}
	return false
}

func (cs *caseSpec) classKey() string {
	conc := "serial"
	if cs.s.concurrent > 1 {
		conc = "concurrent"
	}
	lim := ""
	if cs.s.limF > 0 {
		lim += "F"
	}
	if cs.s.limG > 0 {
		lim += "G"
	}
	if cs.s.limH > 0 {
		lim += "H"
	}
	if cs.s.limMaj > 0 {
		lim += "M"
	}
	if cs.s.runtime != 0 {
		lim += fmt.Sprint("R", cs.s.runtime)
	}
	opt := ""
	if cs.m.nmParams || cs.m.cmaChol || cs.m.cmaStep || cs.m.simplex {
		opt = "|options"
	}
	if cs.run > 0 {
		opt += "|reused-method-value"
	}
	return fmt.Sprintf("%s|%s|%s|%s|%s|%s|lim=%s|init=%d|conv=%d|rec=%v|cb=%d|%s"+opt, cs.group, cs.m.name(), cs.m.lsName(), cs.obj.name, cs.ft.name(), cs.pathClass(), lim, cs.s.init, cs.s.conv, cs.s.rec != 0, cs.s.cbKind, conc)
}

func (h *harness) viol(cs *caseSpec, out *runResult, clause, detail string) {
	h.violPath(cs, out, cs.pathClass(), clause, detail)
}

func (h *harness) violPath(cs *caseSpec, out *runResult, path, clause, detail string) {
	sig := "Minimize|" + cs.m.name() + "|" + path + "|" + clause
	rep := map[string]any{"case": cs.describe()}
	if out != nil && out.res != nil {
		rep["X"] = out.res.X
		rep["F"] = out.res.F
		rep["status"] = out.res.Status.String()
		rep["stats"] = fmt.Sprintf("%+v", out.res.Stats)
	}
	if out != nil && out.err != nil {
		rep["err"] = fmt.Sprint(out.err) // fmt survives a panicking Error method
	}
	h.c.Violation(sig, detail+" ["+cs.describe()+"]", rep)
}

func (h *harness) judge(cs *caseSpec, led *ledger, bm *builtMethod, tr *trace, cb *statusCB, rec *recorder, clog *convLog, set *optimize.Settings, f0 float64, out *runResult) {
	o := cs.obj
	// ---- the call itself ----
	if out.panic != nil {
		h.viol(cs, out, "panic", "Minimize panicked on an in-domain call: "+out.panic.Msg+"\n"+out.panic.Stack)
		return
	}
	if tr.innerPanic != nil {
		h.viol(cs, out, "method-panic", fmt.Sprintf("the Method's Run panicked in its own goroutine (recovered by the proxy; unrecoverable for a caller): %v", tr.innerPanic))
		// the run was finished by the proxy; the result is not judged further.
		return
	}
	res, err := out.res, out.err
	for _, e := range []error{out.err, tr.innerErr} {
		if e == nil {
			continue
		}
		if p := vrt.TryFast(func() { _ = e.Error() }); p != nil {
			h.viol(cs, out, "returned-error-panics-in-Error()", fmt.Sprintf("the %T value returned by Minimize / Method.Status panics when asked for its message: %s (value %#v)", e, p.Msg, e))
			break
		}
	}

	// Early returns documented in Minimize: Recorder.Init error, Problem.Status
	// error before the run, Recorder error on the InitIteration record.
	early := error(nil)
	switch {
	case cb != nil && cb.k == 1 && cb.err != nil:
		early = errStatusCB
	case rec != nil && rec.failAt == -1:
		early = errRecorder
	case rec != nil && rec.failAt == 1:
		early = errRecorder
	}
	if early != nil {
		if res != nil || err != early {
			h.viol(cs, out, "early-error-not-returned", fmt.Sprintf("expected (nil, %v) before the run, got res!=nil: %v, err=%v", early, res != nil, err))
		}
		if led.nF+led.nG+led.nH != 0 {
			h.viol(cs, out, "evaluation-after-early-error", "objective evaluated although the run had to be refused")
		}
		return
	}
	if res == nil {
		h.viol(cs, out, "nil-result", fmt.Sprintf("Minimize returned a nil Result with err=%v", err))
		return
	}

	led.mu.Lock()
	nF, nG, nH := led.nF, led.nG, led.nH
	led.mu.Unlock()
	eff := tr.initRet
	if eff < 1 {
		eff = 1
	}
	serial := eff == 1

	h.mu.Lock()
	h.nRuns++
	if !led.exhausted.Load() {
		if nF+nG+nH > h.maxEvals {
			h.maxEvals = nF + nG + nH
		}
		if led.maxSince > h.maxSince {
			h.maxSince = led.maxSince
		}
	}
	h.statuses[res.Status.String()]++
	if bm.ls != nil {
		h.nAccepts += int64(len(bm.ls.accepts))
	}
	if serial {
		h.nReplays++
	}
	h.mu.Unlock()

	// ---- termination as bounded progress ----
	if led.exhausted.Load() {
		obj := "finite-objective"
		if cs.ft.kind != faultNone {
			obj = "nonfinite-objective"
		}
		lsState := ""
		if bm.ls != nil {
			lsState = fmt.Sprintf("; line searcher state: phi(0)=%v phi'(0)=%v current step=%v, %d Iterate calls in this search, last calls (newest first):%s", bm.ls.f0, bm.ls.g0, bm.ls.step, bm.ls.itersCur, bm.ls.history())
		}
		if led.stuck.Load() {
			ls := "-"
			if cs.m.linesearch() {
				ls = lsNames[cs.m.effLS()]
			}
			mech := led.mechanism()
			sig := "Minimize|" + methodNames[cs.m.kind] + "|" + obj + "|iteration-never-ends"
			if cs.m.linesearch() {
				// The loop is inside LinesearchMethod/Linesearcher whatever the
				// method that drives it and whatever the objective.
				sig = "LinesearchMethod|" + ls + "|" + mech
			}
			h.c.Violation(sig,
				fmt.Sprintf("%s: more than %d callbacks since the last MajorIteration (nF=%d nG=%d nH=%d, %d major iterations so far); last evaluations (newest first):%s%s; aborted through the Problem.Status valve [%s]", cs.m.name(), stuckFuel, nF, nG, nH, res.MajorIterations, led.tail(), lsState, cs.describe()),
				map[string]any{"case": cs.describe()})
		} else if cs.unlimitedIsInDomain() && (cs.obj.quad != nil || cs.obj.name == "bowl") {
			h.violPath(cs, out, obj, "no-termination-within-fuel", fmt.Sprintf("run still evaluating after %d callbacks (nF=%d nG=%d nH=%d, %d major iterations); aborted through the Problem.Status valve", defaultFuel, nF, nG, nH, res.MajorIterations))
		} else {
			h.c.Count("fuel_exhausted_without_stopping_rule", 1)
		}
		return
	}

	// ---- counters == ledger, exactly ----
	if res.FuncEvaluations != nF {
		h.viol(cs, out, "FuncEvaluations-ne-ledger", fmt.Sprintf("Stats.FuncEvaluations=%d, Func was called %d times", res.FuncEvaluations, nF))
	}
	if res.GradEvaluations != nG {
		h.viol(cs, out, "GradEvaluations-ne-ledger", fmt.Sprintf("Stats.GradEvaluations=%d, Grad was called %d times", res.GradEvaluations, nG))
	}
	if res.HessEvaluations != nH {
		h.viol(cs, out, "HessEvaluations-ne-ledger", fmt.Sprintf("Stats.HessEvaluations=%d, Hess was called %d times", res.HessEvaluations, nH))
	}
	var nMajOps, nEvalOps, nDoneOps int
	var lastMajor *ev
	for i := range tr.ops {
		e := &tr.ops[i]
		switch {
		case e.op == optimize.MajorIteration:
			nMajOps++
			lastMajor = e
		case e.op == optimize.MethodDone:
			nDoneOps++
		case isEval(e.op):
			nEvalOps++
		}
	}
	if res.MajorIterations != nMajOps {
		h.viol(cs, out, "MajorIterations-ne-sent", fmt.Sprintf("Stats.MajorIterations=%d, the method sent %d MajorIteration operations", res.MajorIterations, nMajOps))
	}
	// ---- protocol (boundary observer) ----
	var rF, rG, rH, rDone int
	for i := range tr.res {
		e := &tr.res[i]
		if e.op == optimize.MethodDone {
			rDone++
		}
		if isEval(e.op) {
			if e.op&optimize.FuncEvaluation != 0 {
				rF++
			}
			if e.op&optimize.GradEvaluation != 0 {
				rG++
			}
			if e.op&optimize.HessEvaluation != 0 {
				rH++
			}
		}
	}
	if rF != nF || rG != nG || rH != nH {
		h.viol(cs, out, "evaluations-not-all-returned", fmt.Sprintf("evaluations started F/G/H=%d/%d/%d, returned on result %d/%d/%d", nF, nG, nH, rF, rG, rH))
	}
	if len(tr.post) != 1 {
		h.viol(cs, out, "PostIteration-count", fmt.Sprintf("%d PostIteration tasks were sent on result (want exactly 1)", len(tr.post)))
	}
	if rDone != 0 {
		h.viol(cs, out, "MethodDone-echoed", "a MethodDone task was returned on result")
	}
	if a, b := tr.seqResClosed.Load(), tr.seqOpClosed.Load(); a == 0 || b == 0 || a > b {
		h.viol(cs, out, "close-order", fmt.Sprintf("operation closed (seq %d) before result was closed (seq %d)", b, a))
	}
	if s := tr.seqStatus.Load(); s != 0 && s < tr.seqOpClosed.Load() {
		h.viol(cs, out, "Status-before-Run-finished", "Method.Status was called before Run closed operation")
	}
	if int(led.maxInflight.Load()) > eff {
		h.viol(cs, out, "more-evaluations-in-flight-than-tasks", fmt.Sprintf("%d callbacks in flight at once with %d tasks", led.maxInflight.Load(), eff))
	}
	if tr.initRet > tr.initTasks || (cs.s.concurrent > 0 && tr.initTasks != cs.s.concurrent) || (cs.s.concurrent == 0 && tr.initTasks != 1) {
		h.viol(cs, out, "Init-tasks", fmt.Sprintf("Init(dim=%d,tasks=%d) returned %d with Settings.Concurrent=%d", tr.initDim, tr.initTasks, tr.initRet, cs.s.concurrent))
	}

	// ---- recorder bookkeeping ----
	if rec != nil {
		if rec.initN != 1 || len(rec.ops) == 0 || rec.ops[0] != optimize.InitIteration {
			h.viol(cs, out, "recorder-init", fmt.Sprintf("Recorder.Init calls=%d, first record=%v", rec.initN, rec.ops))
		}
		if err == nil && rec.lastOp != optimize.PostIteration {
			h.viol(cs, out, "recorder-no-PostIteration", "run ended without error but the last record is not PostIteration")
		}
	}

	// ---- result coherence ----
	placeholder := res.MajorIterations == 0 && nMajOps == 0
	if placeholder {
		// No MajorIteration ever happened: the Result is the initial
		// placeholder (X=0, F=+Inf). With a nil error this is reported as
		// an optimum although the objective was evaluated elsewhere (or
		// nowhere).
		if err == nil && nF > 0 {
			h.c.Violation("Minimize|"+methodNames[cs.m.kind]+forgetSuffix(cs.m)+"|stopped-before-first-major-iteration|placeholder-result", fmt.Sprintf("no MajorIteration was performed; Result.X=%v F=%v is not an evaluated point (f(x0)=%v, %d evaluations made) [%s]", res.X, res.F, f0, nF, cs.describe()), map[string]any{"case": cs.describe(), "X": res.X, "F": res.F, "status": res.Status.String()})
		}
	} else if lastMajor != nil {
		if !sameFloats(res.X, lastMajor.x) || math.Float64bits(res.F) != math.Float64bits(lastMajor.f) && !(math.IsNaN(res.F) && math.IsNaN(lastMajor.f)) {
			h.viol(cs, out, "result-not-last-MajorIteration", fmt.Sprintf("Result (X=%v F=%v) differs from the last MajorIteration the method announced (X=%v F=%v)", res.X, res.F, lastMajor.x, lastMajor.f))
		}
		seen, match := led.returnedAt(res.X, res.F)
		if cs.m.kind == mCMA && !cs.m.forget && nF < cs.m.effPop(o.dim) && (!seen || !match || led.nonFinite == 0 && res.F != led.minF) {
			// one root cause, one signature: the clean-up after an early stop
			// reads function values of samples that were never evaluated.
			h.violPath(cs, out, "stopped-inside-first-generation", "result-not-best-evaluated-sample", fmt.Sprintf("stopped after %d of %d evaluations of the first generation: Result.X=%v F=%v; X evaluated: %v, F returned at X: %v, best evaluated value %v", nF, cs.m.effPop(o.dim), res.X, res.F, seen, match, led.minF))
			goto afterCoherence
		}
		switch {
		case !seen:
			h.viol(cs, out, "X-never-evaluated", fmt.Sprintf("Result.X=%v (F=%v) is not among the %d points Func was called at", res.X, res.F, len(led.fvals)))
		case !match && !cs.m.local() && led.nonFinite > 0 && allZero(res.X) && math.IsInf(res.F, 1):
			// same shape as above, the untouched best-so-far storage, where
			// the zero vector happens to have been evaluated
			h.viol(cs, out, "X-never-evaluated", fmt.Sprintf("Result.X=%v with F=%v is the method's untouched best-so-far storage, not a point with that value (Func returned %v there)", res.X, res.F, o.f(res.X)))
		case !match:
			h.viol(cs, out, "F-ne-f(X)", fmt.Sprintf("Result.F=%v but Func returned %v at Result.X=%v", res.F, o.f(res.X), res.X))
		}
		if cs.m.usesGrad() && seen {
			if res.Gradient == nil {
				h.viol(cs, out, "gradient-missing", "gradient-based method returned a nil Result.Gradient")
			} else if gh, ok := led.gradHashAt(res.X); !ok || gh != hashBits(res.Gradient) {
				h.viol(cs, out, "gradient-ne-grad(X)", fmt.Sprintf("Result.Gradient=%v is not the gradient evaluated at Result.X (evaluated there: %v)", res.Gradient, ok))
			}
		}
		if cs.m.local() && cs.ft.kind == faultNone {
			ref := f0
			if bm.nmValues != nil {
				// "If an initial simplex is provided, it is used and initLoc is ignored."
				// The first MajorIteration still announces initX, so the run
				// may end at either.
				best := bm.nmValues[0]
				for _, v := range bm.nmValues {
					best = math.Min(best, v)
				}
				ref = math.Max(f0, best)
			}
			if res.F > ref || math.IsNaN(res.F) {
				h.viol(cs, out, "worse-than-initial", fmt.Sprintf("local method ended at F=%v, worse than the initial value %v", res.F, ref))
			}
		}
		if (cs.m.kind == mGAC || cs.m.kind == mLS || cs.m.kind == mCMA && !cs.m.forget && h.docCmaLowestAcross) && led.nonFinite == 0 && err == nil {
			// Order-independent global methods report the best of the set
			// of points they evaluated.
			if res.F != led.minF {
				path := cs.pathClass()
				if res.Status == optimize.MethodConverge {
					path = "MethodConverge"
				}
				h.violPath(cs, out, path, "not-best-of-evaluated", fmt.Sprintf("Result.F=%v but the smallest value among the %d evaluations is %v", res.F, nF, led.minF))
			}
		}
	}

afterCoherence:
	// ---- limits ----
	slack := eff - 1
	if cs.s.limF > 0 && nF > cs.s.limF+slack {
		h.viol(cs, out, "FuncEvaluations-limit-exceeded", fmt.Sprintf("%d Func calls with limit %d and %d tasks", nF, cs.s.limF, eff))
	}
	if cs.s.limG > 0 && nG > cs.s.limG+slack {
		h.viol(cs, out, "GradEvaluations-limit-exceeded", fmt.Sprintf("%d Grad calls with limit %d and %d tasks", nG, cs.s.limG, eff))
	}
	if cs.s.limH > 0 && nH > cs.s.limH+slack {
		h.viol(cs, out, "HessEvaluations-limit-exceeded", fmt.Sprintf("%d Hess calls with limit %d and %d tasks", nH, cs.s.limH, eff))
	}
	if cs.s.limMaj > 0 {
		ms := 0
		if !cs.m.local() {
			ms = eff
		}
		if nMajOps > cs.s.limMaj+ms {
			h.viol(cs, out, "MajorIterations-limit-exceeded", fmt.Sprintf("%d major iterations with limit %d and %d tasks", nMajOps, cs.s.limMaj, eff))
		}
	}
	if cs.s.limF > 0 && nF-cs.s.limF > 0 {
		h.mu.Lock()
		if nF-cs.s.limF > h.maxOver {
			h.maxOver = nF - cs.s.limF
		}
		h.mu.Unlock()
	}

	// ---- Settings.Runtime, judged only through a guaranteed elapsed time ----
	if cs.s.runtime == 2 && led.expired.Load() {
		if res.Stats.Runtime < runtimeSleep {
			h.viol(cs, out, "Stats.Runtime-below-guaranteed-elapsed-time", fmt.Sprintf("Result.Stats.Runtime=%v although one evaluation alone blocked for %v", res.Stats.Runtime, runtimeSleep))
		}
		if !cs.m.local() {
			// Every task announces a MajorIteration after each evaluation
			// (CmaEsChol: after each generation), where the limit is checked.
			slack := 2 * eff
			if cs.m.kind == mCMA {
				slack += cs.m.effPop(o.dim)
			}
			// Only ledger facts decide: Func calls that STARTED after the
			// blocking call had RETURNED. Whatever happened while that call
			// was blocked (other workers reaching an evaluation limit, a
			// list being exhausted, a method converging) is legitimate.
			if n := int(led.startedAfter.Load()); n > slack {
				clause := "evaluations-after-Runtime-expired"
				if res.Status != optimize.RuntimeLimit {
					clause = "RuntimeLimit-not-reported"
				}
				h.viol(cs, out, clause, fmt.Sprintf("%d Func calls were started after an evaluation that blocked for %v had returned, i.e. after the run had exceeded Settings.Runtime=%v for certain (slack %d with %d tasks); status %v after %d Func calls", n, runtimeSleep, runtimeLimit, slack, eff, res.Status, nF))
			}
		}
	}

	// ---- status names the condition that stopped the run ----
	if serial && len(tr.post) == 1 {
		h.replaySerial(cs, led, bm, tr, cb, rec, clog, out)
	} else {
		h.statusImplications(cs, led, bm, tr, cb, rec, clog, out, nF, nG, nH, nMajOps)
	}

	// ---- line search conditions ----
	if bm.ls != nil && cs.ft.kind == faultNone {
		h.checkLinesearch(cs, bm.ls, out)
	}

	// ---- strictly convex quadratics: the unique minimizer is reached ----
	if o.quad != nil && cs.m.usesGrad() && cs.pathClass() == "natural" && cs.s.conv != 3 && !(cs.m.effLS() == 3 && cs.m.lsParam == 2) {
		h.checkQuadratic(cs, led, bm, out, f0)
	}
}

// admissible is one (status, error) pair the run may report.
type admissible struct {
	st  optimize.Status
	err error
	why string
}

func inAdm(adm []admissible, st optimize.Status, err error) bool {
	for _, a := range adm {
		if a.st == st && sameErr(a.err, err) {
			return true
		}
	}
	return false
}

// sameErr compares errors by identity, or by text for value errors such as
// optimize.ErrFunc(NaN), which is not equal to itself.
func sameErr(a, b error) bool {
	if a == nil || b == nil {
		return a == nil && b == nil
	}
	defer func() { recover() }()
	return a == b || a.Error() == b.Error()
}

func admString(adm []admissible) string {
	s := ""
	for i, a := range adm {
		if i > 0 {
			s += ", "
		}
		s += fmt.Sprintf("%v/%v (%s)", a.st, a.err, a.why)
	}
	return s
}

// fcModel is the documented FunctionConverge rule, used when
// Settings.Converger is nil (documented default: Absolute 1e-10,
// Iterations 100).
type fcModel struct {
	abs, rel float64
	n        int
	first    bool
	best     float64
	iter     int
}

func (m *fcModel) step(f float64) {
	if m.first {
		m.best, m.first = f, false
		return
	}
	maxAbs := math.Max(math.Abs(f), math.Abs(m.best))
	if f < m.best && m.best-f > m.rel*maxAbs+m.abs {
		m.best, m.iter = f, 0
		return
	}
	m.iter++
}

// replaySerial walks the operations the method sent (one task in flight at a
// time, so the driver handled them in this order), evaluates at each one the
// terminal conditions documented in Settings / Minimize, and demands that the
// run stopped at the first operation where one holds and reported one of the
// conditions holding there.
func (h *harness) replaySerial(cs *caseSpec, led *ledger, bm *builtMethod, tr *trace, cb *statusCB, rec *recorder, clog *convLog, out *runResult) {
	res, err := out.res, out.err
	post := tr.post[0]
	eStar := 0
	for i := range tr.res {
		if tr.res[i].seq < post && tr.res[i].op != optimize.PostIteration {
			eStar++
		}
	}
	if eStar >= len(tr.ops) {
		h.viol(cs, out, "terminated-without-operation", fmt.Sprintf("PostIteration arrived after %d results but the method had sent only %d operations", eStar, len(tr.ops)))
		return
	}
	if cs.m.local() && eStar >= 1 {
		if !h.checkLocalStart(cs, led, tr, out) {
			return
		}
	}
	var nF, nG, nH, nMaj int
	cbCalls := int64(1) // the call made before the run
	recCalls := 1       // InitIteration
	logIdx := 0
	fc := &fcModel{abs: 1e-10, n: 100, first: true}
	for i := 0; i <= eStar; i++ {
		e := &tr.ops[i]
		var adm []admissible
		must := false // a condition that certainly holds (as opposed to one that may hold)
		switch {
		case isEval(e.op):
			if e.op&optimize.FuncEvaluation != 0 {
				nF++
			}
			if e.op&optimize.GradEvaluation != 0 {
				nG++
			}
			if e.op&optimize.HessEvaluation != 0 {
				nH++
			}
			cbTerm := false
			if cb != nil {
				cbCalls++
				if cb.k > 0 && cbCalls >= int64(cb.k) {
					adm = append(adm, admissible{cb.st, cb.err, "Problem.Status"})
					cbTerm, must = true, true
				} else if v := cb.valveAt.Load(); v > 0 && cbCalls >= v {
					adm = append(adm, admissible{statusValve, nil, "fuel valve"})
					cbTerm, must = true, true
				}
			}
			if !cbTerm {
				if cs.s.limF > 0 && nF >= cs.s.limF {
					adm = append(adm, admissible{optimize.FunctionEvaluationLimit, nil, "FuncEvaluations limit"})
					must = true
				}
				if cs.s.limG > 0 && nG >= cs.s.limG {
					adm = append(adm, admissible{optimize.GradientEvaluationLimit, nil, "GradEvaluations limit"})
					must = true
				}
				if cs.s.limH > 0 && nH >= cs.s.limH {
					adm = append(adm, admissible{optimize.HessianEvaluationLimit, nil, "HessEvaluations limit"})
					must = true
				}
			}
		case e.op == optimize.MajorIteration:
			nMaj++
			gt := false
			switch {
			case math.IsInf(e.f, -1):
				adm = append(adm, admissible{optimize.FunctionNegativeInfinity, nil, "F=-Inf at a major iteration"})
				must = true
			default:
				if e.hasG && cs.s.gradThr > 0 && e.gInf < cs.s.gradThr {
					gt = true
					if cs.m.usesGrad() {
						adm = append(adm, admissible{optimize.GradientThreshold, nil, "Settings.GradientThreshold"})
						must = true
					} else {
						// Documented: "This setting has no effect if the
						// gradient is not used by the Method."
						adm = append(adm, admissible{optimize.GradientThreshold, nil, "Settings.GradientThreshold on a stale gradient"})
					}
				}
			}
			if len(adm) == 0 || (gt && !cs.m.usesGrad()) {
				convTerm := false
				switch cs.s.conv {
				case 0:
					fc.step(e.f)
					if !h.docDefaultConverge {
						// the default is not documented: any verdict is admissible
						adm = append(adm, admissible{optimize.FunctionConvergence, nil, "undocumented default Converger"})
						convTerm = true
					} else if fc.iter >= fc.n-1 {
						adm = append(adm, admissible{optimize.FunctionConvergence, nil, "default FunctionConverge"})
						convTerm = true
					}
					if h.docDefaultConverge && fc.iter >= fc.n+1 {
						must = true
					}
				case 2, 3:
					if !gt && logIdx < len(clog.verdicts) {
						if v := clog.verdicts[logIdx]; v != optimize.NotTerminated {
							adm = append(adm, admissible{v, nil, "Settings.Converger"})
							must, convTerm = true, true
						}
						logIdx++
					}
				}
				if !convTerm {
					if cs.s.limMaj > 0 && nMaj >= cs.s.limMaj {
						adm = append(adm, admissible{optimize.IterationLimit, nil, "MajorIterations limit"})
						must = true
					}
					switch {
					case cs.s.runtime == 1:
						adm = append(adm, admissible{optimize.RuntimeLimit, nil, "Runtime limit of 1ns"})
						must = true
					case cs.s.runtime == 2 && nF >= cs.s.sleepAt:
						adm = append(adm, admissible{optimize.RuntimeLimit, nil, "Runtime limit of 20ms after an evaluation that took 50ms"})
						must = true
					case cs.s.runtime == 2:
						// may already have expired on a slow machine
						adm = append(adm, admissible{optimize.RuntimeLimit, nil, "Runtime limit of 20ms"})
					}
				} else if cs.s.conv == 0 && !must {
					// the default converger may or may not have fired at this
					// iteration (one-iteration tolerance); the limits are then
					// admissible as well.
					if cs.s.limMaj > 0 && nMaj >= cs.s.limMaj {
						adm = append(adm, admissible{optimize.IterationLimit, nil, "MajorIterations limit"})
						must = true
					}
					switch {
					case cs.s.runtime == 1:
						adm = append(adm, admissible{optimize.RuntimeLimit, nil, "Runtime limit of 1ns"})
						must = true
					case cs.s.runtime == 2 && nF >= cs.s.sleepAt:
						adm = append(adm, admissible{optimize.RuntimeLimit, nil, "Runtime limit of 20ms after an evaluation that took 50ms"})
						must = true
					case cs.s.runtime == 2:
						// may already have expired on a slow machine
						adm = append(adm, admissible{optimize.RuntimeLimit, nil, "Runtime limit of 20ms"})
					}
				}
			}
		case e.op == optimize.MethodDone:
			adm = append(adm, admissible{tr.innerStatus, tr.innerErr, "MethodDone: Method.Status()"})
			must = true
		case e.op == optimize.NoOperation:
		default:
			h.viol(cs, out, "unexpected-operation", "method sent "+opName(e.op))
		}
		if !must && rec != nil {
			// The record is made only while nothing has terminated.
			recCalls++
			if rec.failAt > 0 && (recCalls == rec.failAt || recCalls > rec.failAt && !rec.once) {
				adm = append(adm, admissible{optimize.Failure, errRecorder, "Recorder error"})
				must = true
			}
		}
		if i < eStar {
			if must {
				h.viol(cs, out, "terminal-condition-ignored", fmt.Sprintf("at operation %d (%s) [%s] held but the run went on to operation %d; final status %v", i, opName(e.op), admString(adm), eStar, res.Status))
				return
			}
			continue
		}
		// the stopping operation
		if len(adm) == 0 {
			h.viol(cs, out, "stopped-without-condition", fmt.Sprintf("run stopped at operation %d (%s, nF=%d nG=%d nH=%d nMajor=%d) where no documented terminal condition holds; status %v err %v", i, opName(e.op), nF, nG, nH, nMaj, res.Status, err))
			return
		}
		if !cs.m.usesGrad() && res.Status == optimize.GradientThreshold {
			h.gtOnGradientFree(cs, out)
			return
		}
		ok := inAdm(adm, res.Status, err)
		if !ok && rec != nil && rec.failed > 0 && err == errRecorder {
			// The error comes from a Record call after the stopping
			// operation (at the latest the final PostIteration record, made
			// when the run itself ended without error): the status is still
			// the one of the stopping condition.
			ok = inAdm(adm, res.Status, nil)
		}
		if !ok {
			h.viol(cs, out, "status-names-other-condition", fmt.Sprintf("run stopped at operation %d (%s, nF=%d nG=%d nH=%d nMajor=%d) where [%s] holds, but reports status %v err %v", i, opName(e.op), nF, nG, nH, nMaj, admString(adm), res.Status, err))
			return
		}
		if rec != nil && rec.failAt > 0 && !rec.once && err == nil && rec.calls >= rec.failAt {
			h.viol(cs, out, "recorder-error-dropped", fmt.Sprintf("Recorder.Record returned an error at call %d of %d but Minimize returned a nil error", rec.failed, rec.calls))
		}
		if e.op == optimize.MethodDone {
			h.checkMethodStatus(cs, led, bm, tr, out)
		}
	}
}

func nonFinite(v float64) bool { return math.IsNaN(v) || math.IsInf(v, 0) }

// checkLocalStart judges what a local method does with its starting location
// (the driver did not stop the run at the initial evaluation). Documented:
// ErrFunc "is returned when an initial function value is invalid. The error
// state may be either +Inf or NaN"; ErrGrad "is returned when an initial
// gradient is invalid. The error gradient may be either +-Inf or NaN". Any
// other starting location, F = -Inf included, is a valid location: it is
// announced as the first MajorIteration (where F = -Inf gives
// FunctionNegativeInfinity). It reports whether the replay should go on.
func (h *harness) checkLocalStart(cs *caseSpec, led *ledger, tr *trace, out *runResult) bool {
	if !h.docErrFunc {
		return true
	}
	o := cs.obj
	x0h := hashBits(o.x0)
	f0, known := 0.0, false
	switch {
	case cs.s.init > 0:
		f0, known = o.f(o.x0), true
	case led.haveFirstF && led.firstFx == x0h:
		f0, known = led.firstF, true
	}
	if !known {
		return true
	}
	badG, badIdx := false, -1
	var badVal float64
	if cs.m.usesGrad() && cs.s.init < 2 && led.haveFirstG && led.firstGx == x0h {
		for i, v := range led.firstG {
			if nonFinite(v) {
				badG, badIdx, badVal = true, i, v
				break
			}
		}
	}
	second := tr.ops[1]
	path := "starting-location:F=" + faultValName(f0)
	if !nonFinite(f0) || math.IsInf(f0, -1) {
		if badG {
			path = "starting-location:gradient=" + faultValName(badVal)
		}
	}
	switch {
	case math.IsNaN(f0) || math.IsInf(f0, 1):
		ef, ok := tr.innerErr.(optimize.ErrFunc)
		if second.op != optimize.MethodDone || tr.innerStatus != optimize.Failure || !ok || !(math.IsNaN(f0) && math.IsNaN(float64(ef)) || float64(ef) == f0) {
			h.violPath(cs, out, path, "ErrFunc-not-reported", fmt.Sprintf("initial function value %v: expected MethodDone with Failure/ErrFunc(%v), method sent %s and reports %v/%#v", f0, f0, opName(second.op), tr.innerStatus, tr.innerErr))
			return false
		}
	case badG:
		eg, ok := tr.innerErr.(optimize.ErrGrad)
		if second.op != optimize.MethodDone || tr.innerStatus != optimize.Failure || !ok || eg.Index != badIdx || !(math.IsNaN(badVal) && math.IsNaN(eg.Grad) || eg.Grad == badVal) {
			h.violPath(cs, out, path, "ErrGrad-not-reported", fmt.Sprintf("initial gradient component %d is %v: expected MethodDone with Failure/ErrGrad, method sent %s and reports %v/%#v", badIdx, badVal, opName(second.op), tr.innerStatus, tr.innerErr))
			return false
		}
	default:
		if second.op != optimize.MajorIteration {
			h.violPath(cs, out, path, "valid-starting-location-not-announced", fmt.Sprintf("initial function value %v with a finite gradient is a valid starting location (ErrFunc is documented for +Inf and NaN only), but the method sent %s instead of the first MajorIteration and reports %v/%#v; Result: X=%v F=%v status %v", f0, opName(second.op), tr.innerStatus, tr.innerErr, out.res.X, out.res.F, out.res.Status))
			return false
		}
		if !sameFloats(second.x, o.x0) || math.Float64bits(second.f) != math.Float64bits(f0) {
			h.violPath(cs, out, path, "first-MajorIteration-not-the-starting-location", fmt.Sprintf("first MajorIteration announces X=%v F=%v, the starting location is X=%v F=%v", second.x, second.f, o.x0, f0))
			return false
		}
	}
	return true
}

// checkMethodStatus judges the honesty of a status the method itself reported.
// gtOnGradientFree reports a run of a gradient-free method stopped by
// Settings.GradientThreshold ("This setting has no effect if the gradient is
// not used by the Method"). It can only happen through a gradient supplied in
// InitValues, which stays attached to the location the method re-announces.
func (h *harness) gtOnGradientFree(cs *caseSpec, out *runResult) {
	if !h.docGradThrNoEffect {
		return
	}
	h.c.Violation("Minimize|gradient-free-method|InitValues.Gradient|GradientThreshold-has-effect",
		fmt.Sprintf("Settings.GradientThreshold=%v stopped %s, which does not use the gradient (documented: no effect); Result.Gradient=%v at X=%v [%s]", cs.s.gradThr, cs.m.name(), out.res.Gradient, out.res.X, cs.describe()),
		map[string]any{"case": cs.describe()})
}

func (h *harness) checkMethodStatus(cs *caseSpec, led *ledger, bm *builtMethod, tr *trace, out *runResult) {
	st, err := tr.innerStatus, tr.innerErr
	switch st {
	case optimize.GradientThreshold:
		var last *ev
		for i := range tr.ops {
			if tr.ops[i].op == optimize.MajorIteration {
				last = &tr.ops[i]
			}
		}
		thr := bm.gradStop
		ok := last != nil && last.hasG && !math.IsNaN(thr) && thr > 0 && last.gInf < thr
		if !ok && last == nil && cs.s.init >= 2 {
			// converged at the supplied initial gradient before any major iteration
			ok = true
		}
		if !ok {
			g := math.NaN()
			if last != nil {
				g = last.gInf
			}
			h.viol(cs, out, "method-GradientThreshold-not-met", fmt.Sprintf("method reported GradientThreshold with |g|inf=%v and GradStopThreshold=%v", g, thr))
		}
	case optimize.Failure:
		if err == nil {
			h.viol(cs, out, "method-Failure-without-error", "method reported Failure with a nil error")
		}
	case optimize.MethodConverge:
		if cs.m.kind != mLS && cs.m.kind != mCMA {
			h.viol(cs, out, "method-MethodConverge-unexpected", "MethodConverge from a method without an own criterion")
		}
		if cs.m.kind == mLS && led.nF < cs.m.rows {
			h.viol(cs, out, "ListSearch-converged-before-list-exhausted", fmt.Sprintf("MethodConverge after %d of %d rows", led.nF, cs.m.rows))
		}
	case optimize.NotTerminated:
		h.viol(cs, out, "method-NotTerminated-after-MethodDone", "MethodDone followed by NotTerminated")
	}
}

// statusImplications is the schedule-independent part of the status clause,
// used when several tasks are in flight.
func (h *harness) statusImplications(cs *caseSpec, led *ledger, bm *builtMethod, tr *trace, cb *statusCB, rec *recorder, clog *convLog, out *runResult, nF, nG, nH, nMaj int) {
	res, err := out.res, out.err
	bad := func(why string) {
		h.viol(cs, out, "status-condition-does-not-hold", fmt.Sprintf("status %v err %v: %s", res.Status, err, why))
	}
	cbFired := cb != nil && cb.firedAt.Load() > 0
	if rec != nil && rec.failed > 0 && err == errRecorder && res.Status != optimize.Failure {
		// error of a Record call after the stop (at the latest the final
		// PostIteration record); the status is that of the stopping condition.
		err = nil
	}
	if cbFired && cb.st == res.Status && cb.err == err {
		return
	}
	if cb != nil && cb.valveAt.Load() > 0 && res.Status == statusValve {
		return
	}
	switch res.Status {
	case optimize.FunctionEvaluationLimit:
		if cs.s.limF <= 0 || nF < cs.s.limF {
			bad(fmt.Sprintf("limit %d, %d calls", cs.s.limF, nF))
		}
	case optimize.GradientEvaluationLimit:
		if cs.s.limG <= 0 || nG < cs.s.limG {
			bad(fmt.Sprintf("limit %d, %d calls", cs.s.limG, nG))
		}
	case optimize.HessianEvaluationLimit:
		if cs.s.limH <= 0 || nH < cs.s.limH {
			bad(fmt.Sprintf("limit %d, %d calls", cs.s.limH, nH))
		}
	case optimize.IterationLimit:
		if cs.s.limMaj <= 0 || nMaj < cs.s.limMaj {
			bad(fmt.Sprintf("limit %d, %d major iterations", cs.s.limMaj, nMaj))
		}
	case optimize.RuntimeLimit:
		if !cs.s.runtimeStops() {
			bad("no Runtime limit that can have expired is set")
		}
	case optimize.FunctionConvergence:
		if cs.s.conv != 0 && cs.s.conv != 3 {
			bad("no FunctionConverge configured")
		}
		if cs.s.conv == 0 && nMaj < 100 && h.docDefaultConverge {
			bad(fmt.Sprintf("default FunctionConverge needs 100 iterations, %d made", nMaj))
		}
	case optimize.FunctionNegativeInfinity:
		if !math.IsInf(res.F, -1) {
			bad("Result.F is not -Inf")
		}
	case optimize.GradientThreshold:
		if !cs.m.usesGrad() && cs.s.init >= 2 && cs.s.gradThr > 0 {
			h.gtOnGradientFree(cs, out)
		} else {
			bad("method does not use the gradient")
		}
	case optimize.MethodConverge:
		if cs.m.kind != mLS && cs.m.kind != mCMA {
			bad("method has no own criterion")
		}
		if cs.m.kind == mLS && nF < cs.m.rows {
			bad(fmt.Sprintf("ListSearch evaluated %d of %d rows", nF, cs.m.rows))
		}
	case optimize.Failure:
		if err == nil {
			bad("Failure with nil error")
		} else if err == errRecorder && (rec == nil || rec.failed == 0) {
			bad("recorder did not fail")
		}
	default:
		if cs.s.conv == 2 && res.Status == cs.s.convStatus {
			n := 0
			if clog != nil {
				n = len(clog.verdicts)
			}
			if n < cs.s.convK {
				bad(fmt.Sprintf("converger consulted %d times, stops at call %d", n, cs.s.convK))
			}
			return
		}
		bad("status not expected from any configured condition")
	}
	if res.Status != optimize.Failure && err != nil && !(cbFired && cb.err == err) && !(err == errRecorder && rec != nil && rec.failed > 0) {
		bad("unexpected error")
	}
}

func (h *harness) checkLinesearch(cs *caseSpec, w *lsWrap, out *runResult) {
	for _, a := range w.accepts {
		path := "linesearch:" + lsNames[w.kind]
		if a.retStep != a.step {
			h.violPath(cs, out, path, "accepted-step-ne-evaluated-step", fmt.Sprintf("Iterate returned MajorIteration with step %v but the last evaluation was at step %v", a.retStep, a.step))
			continue
		}
		if !(a.g0 < 0) || !(a.step > 0) {
			continue
		}
		scale := lsSlack * (math.Abs(a.f0) + math.Abs(a.f) + math.Abs(w.dec*a.step*a.g0))
		if math.IsNaN(a.f) || a.f > a.f0+w.dec*a.step*a.g0+scale {
			h.violPath(cs, out, path, "sufficient-decrease-violated", fmt.Sprintf("accepted step %v: phi(step)=%v > phi(0)+c1*step*phi'(0) = %v + %v*%v*%v", a.step, a.f, a.f0, w.dec, a.step, a.g0))
		}
		if w.kind >= 2 {
			gs := lsSlack * (math.Abs(a.g) + math.Abs(a.g0))
			if math.IsNaN(a.g) || math.Abs(a.g) > w.curv*math.Abs(a.g0)+gs {
				h.violPath(cs, out, path, "curvature-condition-violated", fmt.Sprintf("accepted step %v: |phi'(step)|=%v > c2*|phi'(0)| = %v*%v", a.step, math.Abs(a.g), w.curv, math.Abs(a.g0)))
			}
		}
	}
}

func (h *harness) checkQuadratic(cs *caseSpec, led *ledger, bm *builtMethod, out *runResult, f0 float64) {
	res, err := out.res, out.err
	o := cs.obj
	if res.MajorIterations == 0 {
		return
	}
	gap0 := f0 - o.fstar
	gap := o.f(res.X) - o.fstar
	tiny := 1e-13 * (math.Abs(o.fstar) + 1)
	ratio := 0.0
	if gap > tiny && gap0 > 0 {
		ratio = (gap - tiny) / gap0
	}
	allowed := quadGapTol
	if res.Status == optimize.GradientThreshold && gap0 > 0 {
		// |g|inf < T implies f-f* <= n*T^2/(2*lambda_min), lambda_min = 1.
		t := 0.0
		if cs.s.gradThr > 0 {
			t = cs.s.gradThr
		}
		if bm.gradStop > t {
			t = bm.gradStop
		}
		if a := float64(o.dim) * t * t / gap0; a > allowed {
			allowed = a
		}
	}
	key := cs.m.name() + "/" + cs.m.lsName() + "/" + res.Status.String()
	h.mu.Lock()
	if allowed == quadGapTol && ratio > h.maxGap[key] {
		h.maxGap[key] = ratio
	}
	if err != nil {
		h.lsErrs[cs.m.name()+"/"+cs.m.lsName()+"/"+fmt.Sprint(err)]++
	}
	h.mu.Unlock()
	if ratio > allowed {
		clause := "stopped-far-from-minimizer"
		h.violPath(cs, out, cs.m.lsName()+"|quadratic", clause, fmt.Sprintf("strictly convex quadratic (dim %d): stopped with status %v err %v at f-f*=%g, initial gap %g (ratio %g > %g), |g|inf=%g", o.dim, res.Status, err, gap, gap0, ratio, allowed, gradNormAt(o, res.X)))
	}
	if res.Status == optimize.GradientThreshold {
		thr := 0.0
		if cs.s.gradThr > 0 {
			thr = cs.s.gradThr
		}
		if !math.IsNaN(bm.gradStop) && bm.gradStop > thr {
			thr = bm.gradStop
		}
		if gn := gradNormAt(o, res.X); !(gn < thr) {
			h.violPath(cs, out, cs.m.lsName()+"|quadratic", "GradientThreshold-reported-but-not-met", fmt.Sprintf("|grad f(X)|inf=%g, thresholds: settings %v, method %v", gn, cs.s.gradThr, bm.gradStop))
		}
	}
}

func gradNormAt(o *objective, x []float64) float64 {
	g := make([]float64, len(x))
	o.g(g, x)
	return infNorm(g)
}
