package main

import (
	"fmt"
	"math"

	"gonum.org/v1/gonum/optimize"
	"gonum.org/v1/gonum/verifx/vrt"
)

// Converger reuse (added after seeded change R7-C19-a): one *FunctionConverge
// value handed to two Minimize calls in a row. Minimize initialises the
// converger at the start of every run, so the second run must be
// indistinguishable from the same run with a fresh converger, whatever ended
// the first run (a limit in the middle of a stall, the converger itself, a
// gradient threshold). Methods here are serial and deterministic, therefore
// the comparison is exact (status, counts, bits of X and F).

type crCase struct {
	method  int // 0 NelderMead, 1 GradientDescent, 2 BFGS, 3 LBFGS
	dim     int
	abs     float64
	k       int // FunctionConverge.Iterations
	stop    int // how the first run is stopped: 0 MajorIterations, 1 FuncEvaluations, 2 converger itself, 3 GradientThreshold
	limit   int
	shift   float64
	descStr string
}

var crMethodNames = []string{"NelderMead", "GradientDescent", "BFGS", "LBFGS"}
var crStopNames = []string{"MajorIterations-limit", "FuncEvaluations-limit", "FunctionConvergence", "GradientThreshold"}

func crMethod(k int) optimize.Method {
	switch k {
	case 0:
		return &optimize.NelderMead{}
	case 1:
		return &optimize.GradientDescent{}
	case 2:
		return &optimize.BFGS{}
	}
	return &optimize.LBFGS{}
}

func crProblem(dim int, shift float64) optimize.Problem {
	return optimize.Problem{
		Func: func(x []float64) float64 {
			s := 0.0
			for i, v := range x {
				d := v - shift*float64(i+1)
				s += float64(i+1) * d * d
			}
			return s
		},
		Grad: func(g, x []float64) {
			for i, v := range x {
				g[i] = 2 * float64(i+1) * (v - shift*float64(i+1))
			}
		},
	}
}

func (h *harness) runConvergerReuse(thorough bool) {
	var cases []crCase
	ks := []int{1, 2, 3, 5, 10, 20}
	for m := 0; m < 4; m++ {
		for _, dim := range []int{1, 2, 3} {
			for _, abs := range []float64{1e6, 1e-3, 1e-12} {
				for _, k := range ks {
					for stop := 0; stop < 4; stop++ {
						limits := []int{0}
						if stop < 2 {
							limits = []int{1, 2, 3, k - 1, k, k + 1, k + 4}
							if thorough {
								limits = append(limits, 2*k, 3*k+1, 40)
							}
						}
						for _, l := range limits {
							if l <= 0 && stop < 2 {
								continue
							}
							cases = append(cases, crCase{method: m, dim: dim, abs: abs, k: k, stop: stop, limit: l, shift: 0.75})
						}
					}
				}
			}
		}
	}
	vrt.Parallel(len(cases), func(i int) { h.convergerReuseCase(&cases[i]) })
}

func (h *harness) convergerReuseCase(cs *crCase) {
	desc := fmt.Sprintf("converger-reuse method=%s dim=%d Absolute=%g Iterations=%d first-run-stop=%s limit=%d", crMethodNames[cs.method], cs.dim, cs.abs, cs.k, crStopNames[cs.stop], cs.limit)
	h.guarded(desc, func() {
		p := crProblem(cs.dim, cs.shift)
		x0 := make([]float64, cs.dim)
		for i := range x0 {
			x0[i] = 3 - float64(i)
		}
		shared := &optimize.FunctionConverge{Absolute: cs.abs, Iterations: cs.k}
		first := &optimize.Settings{Converger: shared, MajorIterations: 5000, GradientThreshold: -1}
		switch cs.stop {
		case 0:
			first.MajorIterations = cs.limit
		case 1:
			first.FuncEvaluations = cs.limit
		case 3:
			first.GradientThreshold = 1e30
		}
		r1, err1 := optimize.Minimize(p, append([]float64(nil), x0...), first, crMethod(cs.method))
		st1 := "nil"
		if r1 != nil {
			st1 = r1.Status.String()
		}
		second := func(conv optimize.Converger) (*optimize.Result, error) {
			return optimize.Minimize(p, append([]float64(nil), x0...), &optimize.Settings{Converger: conv, MajorIterations: 5000, GradientThreshold: -1}, crMethod(cs.method))
		}
		rB, errB := second(shared)
		rC, errC := second(&optimize.FunctionConverge{Absolute: cs.abs, Iterations: cs.k})
		h.c.Eval(fmt.Sprintf("converger-reuse|%s|%s|first=%s", crMethodNames[cs.method], crStopNames[cs.stop], st1), true)
		_ = err1
		path := crMethodNames[cs.method] + ",FunctionConverge-reused-after-" + crStopNames[cs.stop]
		if rB == nil || rC == nil {
			if (rB == nil) != (rC == nil) {
				h.c.Violation("Minimize|"+path+"|second-run-differs-from-fresh-converger", fmt.Sprintf("nil result: reused %v (%v), fresh %v (%v) [%s]", rB == nil, errB, rC == nil, errC, desc), map[string]any{"case": desc})
			}
			return
		}
		same := rB.Status == rC.Status && rB.Stats.MajorIterations == rC.Stats.MajorIterations && rB.Stats.FuncEvaluations == rC.Stats.FuncEvaluations &&
			math.Float64bits(rB.F) == math.Float64bits(rC.F) && len(rB.X) == len(rC.X)
		if same {
			for i := range rB.X {
				if math.Float64bits(rB.X[i]) != math.Float64bits(rC.X[i]) {
					same = false
				}
			}
		}
		if !same {
			h.c.Violation("Minimize|"+path+"|second-run-differs-from-fresh-converger",
				fmt.Sprintf("first run ended with %s; second run with the same *FunctionConverge: status %v after %d major iterations, %d evaluations, F=%v X=%v; with a fresh converger: status %v after %d major iterations, %d evaluations, F=%v X=%v [%s]",
					st1, rB.Status, rB.Stats.MajorIterations, rB.Stats.FuncEvaluations, rB.F, rB.X, rC.Status, rC.Stats.MajorIterations, rC.Stats.FuncEvaluations, rC.F, rC.X, desc),
				map[string]any{"case": desc})
		}
	})
}
