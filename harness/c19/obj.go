package main

import (
	"fmt"
	"math"
	"sync"
	"sync/atomic"
	"time"

	"gonum.org/v1/gonum/mat"
	"gonum.org/v1/gonum/optimize/functions"
	"gonum.org/v1/gonum/verifx/ref"
	"gonum.org/v1/gonum/verifx/vrt"
)

// objective is a pure function with optional derivatives.
type objective struct {
	name string // class name for signatures / keys (no sizes, no seeds)
	dim  int
	f    func(x []float64) float64
	g    func(g, x []float64)               // may be nil
	h    func(h *mat.SymDense, x []float64) // may be nil
	x0   []float64

	// quadratic data (nil otherwise)
	quad  *quadratic
	xstar []float64
	fstar float64
}

// quadratic is f(x) = 1/2 x'Ax + b'x with A SPD.
type quadratic struct {
	n int
	a []float64
	b []float64
}

func (q *quadratic) f(x []float64) float64 {
	s := 0.0
	n := q.n
	for i := 0; i < n; i++ {
		t := 0.0
		row := q.a[i*n : i*n+n]
		for j, v := range row {
			t += v * x[j]
		}
		s += x[i] * (0.5*t + q.b[i])
	}
	return s
}

func (q *quadratic) grad(g, x []float64) {
	n := q.n
	for i := 0; i < n; i++ {
		t := 0.0
		row := q.a[i*n : i*n+n]
		for j, v := range row {
			t += v * x[j]
		}
		g[i] = t + q.b[i]
	}
}

func (q *quadratic) hess(h *mat.SymDense, x []float64) {
	n := q.n
	for i := 0; i < n; i++ {
		for j := i; j < n; j++ {
			h.SetSym(i, j, q.a[i*n+j])
		}
	}
}

// newQuadratic builds a random SPD quadratic of dimension n with condition
// number kappa (eigenvalues in [1,kappa], both ends attained for n>1),
// random orthogonal eigenvectors (product of Householder reflectors), and its
// minimizer from the reference solver.
func newQuadratic(r *vrt.Rand, n int, kappa float64) *objective {
	q := make([]float64, n*n)
	for i := 0; i < n; i++ {
		q[i*n+i] = 1
	}
	for k := 0; k < 3 && n > 1; k++ {
		v := make([]float64, n)
		nv := 0.0
		for i := range v {
			v[i] = r.Norm()
			nv += v[i] * v[i]
		}
		for i := 0; i < n; i++ {
			d := 0.0
			for j := 0; j < n; j++ {
				d += q[i*n+j] * v[j]
			}
			for j := 0; j < n; j++ {
				q[i*n+j] -= 2 * d * v[j] / nv
			}
		}
	}
	d := make([]float64, n)
	for i := range d {
		d[i] = math.Pow(kappa, r.Float64())
	}
	d[0] = 1
	if n > 1 {
		d[n-1] = kappa
	}
	a := make([]float64, n*n)
	for i := 0; i < n; i++ {
		for j := 0; j <= i; j++ {
			s := 0.0
			for k := 0; k < n; k++ {
				s += q[i*n+k] * d[k] * q[j*n+k]
			}
			a[i*n+j] = s
			a[j*n+i] = s
		}
	}
	b := make([]float64, n)
	for i := range b {
		b[i] = r.Norm()
	}
	qd := &quadratic{n: n, a: a, b: b}
	x0 := make([]float64, n)
	for i := range x0 {
		x0[i] = 2 * r.Norm()
	}
	// x* = -A^-1 b by the reference LU.
	am := ref.New(n, n)
	copy(am.D, a)
	bm := ref.New(n, 1)
	for i := range b {
		bm.D[i] = -b[i]
	}
	xs, ok := ref.Solve(am, bm)
	if !ok {
		panic("c19: reference solve failed on SPD matrix")
	}
	o := &objective{name: "quadratic", dim: n, f: qd.f, g: qd.grad, h: qd.hess, x0: x0, quad: qd}
	o.xstar = append([]float64(nil), xs.D...)
	o.fstar = qd.f(o.xstar)
	return o
}

// simpleBowl is the fixed objective used by the deterministic grid: a mildly
// ill-conditioned convex quadratic plus a constant, f >= 3 everywhere.
func simpleBowl(dim int) *objective {
	w := make([]float64, dim)
	for i := range w {
		w[i] = 1 + float64(i)
	}
	f := func(x []float64) float64 {
		s := 3.0
		for i, v := range x {
			s += w[i] * (v - 1) * (v - 1)
		}
		return s
	}
	g := func(g, x []float64) {
		for i, v := range x {
			g[i] = 2 * w[i] * (v - 1)
		}
	}
	h := func(h *mat.SymDense, x []float64) {
		for i := range x {
			for j := i; j < len(x); j++ {
				if i == j {
					h.SetSym(i, i, 2*w[i])
				} else {
					h.SetSym(i, j, 0)
				}
			}
		}
	}
	x0 := make([]float64, dim)
	for i := range x0 {
		x0[i] = -1.5 + 0.75*float64(i)
	}
	xs := make([]float64, dim)
	for i := range xs {
		xs[i] = 1
	}
	return &objective{name: "bowl", dim: dim, f: f, g: g, h: h, x0: x0, xstar: xs, fstar: 3}
}

type catEntry struct {
	name string
	f    func(x []float64) float64
	g    func(g, x []float64)
	h    func(h *mat.SymDense, x []float64)
	x0   []float64
}

// catalogue lists optimize/functions objectives with the standard starting
// points used by gonum's own unconstrained tests (optimize/unconstrained_test.go).
func catalogue() []catEntry {
	return []catEntry{
		{"Beale", functions.Beale{}.Func, functions.Beale{}.Grad, functions.Beale{}.Hess, []float64{1, 1}},
		{"BiggsEXP2", functions.BiggsEXP2{}.Func, functions.BiggsEXP2{}.Grad, nil, []float64{1, 2}},
		{"BiggsEXP3", functions.BiggsEXP3{}.Func, functions.BiggsEXP3{}.Grad, nil, []float64{1, 2, 1}},
		{"BiggsEXP4", functions.BiggsEXP4{}.Func, functions.BiggsEXP4{}.Grad, nil, []float64{1, 2, 1, 1}},
		{"BiggsEXP5", functions.BiggsEXP5{}.Func, functions.BiggsEXP5{}.Grad, nil, []float64{1, 2, 1, 1, 1}},
		{"BiggsEXP6", functions.BiggsEXP6{}.Func, functions.BiggsEXP6{}.Grad, nil, []float64{1, 2, 1, 1, 1, 1}},
		{"Box3D", functions.Box3D{}.Func, functions.Box3D{}.Grad, nil, []float64{0, 10, 20}},
		{"BrownBadlyScaled", functions.BrownBadlyScaled{}.Func, functions.BrownBadlyScaled{}.Grad, functions.BrownBadlyScaled{}.Hess, []float64{1, 1}},
		{"BrownAndDennis", functions.BrownAndDennis{}.Func, functions.BrownAndDennis{}.Grad, functions.BrownAndDennis{}.Hess, []float64{25, 5, -5, -1}},
		{"ExtendedPowellSingular", functions.ExtendedPowellSingular{}.Func, functions.ExtendedPowellSingular{}.Grad, nil, []float64{3, -1, 0, 3}},
		{"ExtendedRosenbrock2", functions.ExtendedRosenbrock{}.Func, functions.ExtendedRosenbrock{}.Grad, nil, []float64{-1.2, 1}},
		{"ExtendedRosenbrock4", functions.ExtendedRosenbrock{}.Func, functions.ExtendedRosenbrock{}.Grad, nil, []float64{-1.2, 1, -1.2, 1}},
		{"Gaussian", functions.Gaussian{}.Func, functions.Gaussian{}.Grad, nil, []float64{0.4, 1, 0}},
		{"HelicalValley", functions.HelicalValley{}.Func, functions.HelicalValley{}.Grad, nil, []float64{-1, 0, 0}},
		{"PenaltyI", functions.PenaltyI{}.Func, functions.PenaltyI{}.Grad, nil, []float64{1, 2, 3, 4}},
		{"PenaltyII", functions.PenaltyII{}.Func, functions.PenaltyII{}.Grad, nil, []float64{0.5, 0.5, 0.5, 0.5}},
		{"PowellBadlyScaled", functions.PowellBadlyScaled{}.Func, functions.PowellBadlyScaled{}.Grad, functions.PowellBadlyScaled{}.Hess, []float64{0, 1}},
		{"Trigonometric", functions.Trigonometric{}.Func, functions.Trigonometric{}.Grad, nil, []float64{0.1, 0.1, 0.1, 0.1, 0.1}},
		{"VariablyDimensioned", functions.VariablyDimensioned{}.Func, functions.VariablyDimensioned{}.Grad, nil, []float64{0.75, 0.5, 0.25, 0}},
		{"Watson", functions.Watson{}.Func, functions.Watson{}.Grad, functions.Watson{}.Hess, []float64{0, 0, 0, 0, 0, 0}},
		{"Wood", functions.Wood{}.Func, functions.Wood{}.Grad, functions.Wood{}.Hess, []float64{-3, -1, -3, -1}},
	}
}

func catalogueObjective(i int) *objective {
	cat := catalogue()
	e := cat[i%len(cat)]
	return &objective{name: "cat:" + e.name, dim: len(e.x0), f: e.f, g: e.g, h: e.h, x0: append([]float64(nil), e.x0...)}
}

// fault describes how the observed objective deviates from the pure one.
type fault struct {
	kind int     // 0 none, 1 first call, 2 from the k-th Func call on, 3 on the region x[0] > thr
	val  float64 // NaN, +Inf or -Inf
	k    int
	thr  float64
}

const (
	faultNone = iota
	faultFirst
	faultAfterK
	faultRegion
)

func faultValName(v float64) string {
	switch {
	case math.IsNaN(v):
		return "NaN"
	case math.IsInf(v, 1):
		return "+Inf"
	case math.IsInf(v, -1):
		return "-Inf"
	}
	return "finite"
}

func (ft fault) name() string {
	switch ft.kind {
	case faultFirst:
		return "first=" + faultValName(ft.val)
	case faultAfterK:
		return "afterK=" + faultValName(ft.val)
	case faultRegion:
		return "region=" + faultValName(ft.val)
	}
	return "pure"
}

func hashBits(x []float64) uint64 {
	h := uint64(0xcbf29ce484222325)
	for _, v := range x {
		b := math.Float64bits(v)
		for i := 0; i < 8; i++ {
			h ^= (b >> (8 * i)) & 0xff
			h *= 0x100000001b3
		}
	}
	return h
}

// ledger records every callback Minimize makes (I8).
type ledger struct {
	obj   *objective
	fault fault

	mu         sync.Mutex
	nF, nG, nH int
	// fvals maps the bit pattern of x to the set of values Func returned (or
	// that were handed to Minimize as known values) at x.
	// (keys are 64-bit hashes of the bit pattern; fmore holds the rare
	// second and later distinct values at one point).
	fvals map[uint64]uint64
	fmore map[uint64][]uint64
	// gvals maps the bit pattern of x to the hash of the gradient written at x.
	gvals map[uint64]uint64
	// nonFinite counts Func returns that were NaN or +-Inf.
	nonFinite int
	minF      float64 // smallest non-NaN value returned by Func

	inflight    atomic.Int32
	maxInflight atomic.Int32

	// fuel is the bounded-progress budget: the number of callbacks after
	// which the run is declared non-terminating and aborted through the
	// Problem.Status valve.
	fuel      int
	exhausted atomic.Bool
	// sinceMajor counts callbacks since the method last announced a
	// MajorIteration; stuck is set when it exceeds stuckFuel (a single
	// iteration / line search that never ends).
	sinceMajor int
	maxSince   int
	stuck      atomic.Bool
	// sleepAt > 0: the sleepAt-th Func call blocks for sleepDur before it
	// returns; from then on the elapsed time of the run is at least sleepDur
	// (the only statement about time the monitor ever uses).
	sleepAt      int
	sleepDur     time.Duration
	expired      atomic.Bool
	startedAfter atomic.Int32 // Func calls started after the blocking call had returned
	// idle: every other Func call blocks this long (runs with several tasks,
	// so that the other workers cannot do thousands of evaluations while one
	// call is blocked).
	idle time.Duration

	// gfault: the first Grad call writes gval into component 0 (gkind == faultFirst).
	gkind int
	gval  float64
	// first observations, for the documented checks on the starting location
	firstF     float64
	haveFirstF bool
	firstFx    uint64 // hash of the point of the first Func call
	firstG     []float64
	firstGx    uint64
	haveFirstG bool

	// ring of the last evaluations (x[0], f) for the witness of a stuck run.
	ring  [6][2]float64
	ringN int
}

// mechanism classifies a stuck iteration from the last evaluations.
func (l *ledger) mechanism() string {
	n := len(l.ring)
	if l.ringN < n {
		return "iteration-never-ends"
	}
	same := true
	for i := 0; i < n; i++ {
		if math.IsNaN(l.ring[i][0]) {
			return "evaluates-at-NaN-forever"
		}
		if l.ring[i][0] != l.ring[0][0] {
			same = false
		}
	}
	if same {
		return "re-evaluates-same-point-forever"
	}
	return "iteration-never-ends"
}

func (l *ledger) tail() string {
	s := ""
	for i := 0; i < len(l.ring) && i < l.ringN; i++ {
		e := l.ring[(l.ringN-1-i)%len(l.ring)]
		s += fmt.Sprintf(" (x0=%v f=%v)", e[0], e[1])
	}
	return s
}

// tick is called with l.mu held after every callback.
func (l *ledger) tick() {
	l.sinceMajor++
	if l.sinceMajor > l.maxSince {
		l.maxSince = l.sinceMajor
	}
	if l.sinceMajor > stuckFuel {
		l.stuck.Store(true)
		l.exhausted.Store(true)
	}
	if l.nF+l.nG+l.nH > l.fuel {
		l.exhausted.Store(true)
	}
}

// major is called by the proxy when the method announces a MajorIteration.
func (l *ledger) major() {
	l.mu.Lock()
	l.sinceMajor = 0
	l.mu.Unlock()
}

func newLedger(o *objective, ft fault, fuel int) *ledger {
	return &ledger{obj: o, fault: ft, fvals: make(map[uint64]uint64), fmore: make(map[uint64][]uint64), gvals: make(map[uint64]uint64), fuel: fuel, minF: math.Inf(1)}
}

func (l *ledger) enter() {
	n := l.inflight.Add(1)
	for {
		m := l.maxInflight.Load()
		if n <= m || l.maxInflight.CompareAndSwap(m, n) {
			break
		}
	}
}

func (l *ledger) leave() { l.inflight.Add(-1) }

// addVal records (with l.mu held) that value vb was seen at point key k.
func (l *ledger) addVal(k, vb uint64) {
	if w, ok := l.fvals[k]; !ok {
		l.fvals[k] = vb
	} else if w != vb {
		for _, u := range l.fmore[k] {
			if u == vb {
				return
			}
		}
		l.fmore[k] = append(l.fmore[k], vb)
	}
}

func (l *ledger) known(x []float64, f float64) {
	k := hashBits(x)
	l.mu.Lock()
	l.addVal(k, math.Float64bits(f))
	l.mu.Unlock()
}

func (l *ledger) knownGrad(x, g []float64) {
	k := hashBits(x)
	l.mu.Lock()
	l.gvals[k] = hashBits(g)
	l.mu.Unlock()
}

func (l *ledger) Func(x []float64) float64 {
	l.enter()
	defer l.leave()
	if l.expired.Load() {
		l.startedAfter.Add(1)
	}
	v := l.obj.f(x)
	l.mu.Lock()
	l.nF++
	n := l.nF
	switch l.fault.kind {
	case faultFirst:
		if n == 1 {
			v = l.fault.val
		}
	case faultAfterK:
		if n >= l.fault.k {
			v = l.fault.val
		}
	case faultRegion:
		if x[0] > l.fault.thr {
			v = l.fault.val
		}
	}
	if !l.haveFirstF {
		l.haveFirstF, l.firstF, l.firstFx = true, v, hashBits(x)
	}
	l.addVal(hashBits(x), math.Float64bits(v))
	l.ring[l.ringN%len(l.ring)] = [2]float64{x[0], v}
	l.ringN++
	if math.IsNaN(v) || math.IsInf(v, 0) {
		l.nonFinite++
	}
	if v < l.minF {
		l.minF = v
	}
	l.tick()
	l.mu.Unlock()
	if l.sleepAt > 0 && n == l.sleepAt {
		time.Sleep(l.sleepDur)
		l.expired.Store(true)
	} else if l.idle > 0 {
		time.Sleep(l.idle)
	}
	return v
}

func (l *ledger) Grad(g, x []float64) {
	l.enter()
	defer l.leave()
	l.obj.g(g, x)
	k := hashBits(x)
	l.mu.Lock()
	l.nG++
	if l.gkind == faultFirst && l.nG == 1 {
		g[0] = l.gval
	}
	if !l.haveFirstG {
		l.haveFirstG, l.firstG, l.firstGx = true, append([]float64(nil), g...), k
	}
	hb := hashBits(g)
	l.gvals[k] = hb
	l.tick()
	l.mu.Unlock()
}

func (l *ledger) Hess(h *mat.SymDense, x []float64) {
	l.enter()
	defer l.leave()
	l.obj.h(h, x)
	l.mu.Lock()
	l.nH++
	l.tick()
	l.mu.Unlock()
}

// returnedAt reports whether value f (by bits) was returned by Func at x
// (or handed in as a known value), and whether x was seen at all.
func (l *ledger) returnedAt(x []float64, f float64) (seenX, match bool) {
	l.mu.Lock()
	defer l.mu.Unlock()
	k := hashBits(x)
	first, ok := l.fvals[k]
	if !ok {
		return false, false
	}
	vals := append([]uint64{first}, l.fmore[k]...)
	fb := math.Float64bits(f)
	for _, w := range vals {
		if w == fb {
			return true, true
		}
	}
	// NaN payloads are not part of the contract: any NaN matches a NaN.
	if math.IsNaN(f) {
		for _, w := range vals {
			if math.IsNaN(math.Float64frombits(w)) {
				return true, true
			}
		}
	}
	return true, false
}

func (l *ledger) gradHashAt(x []float64) (uint64, bool) {
	l.mu.Lock()
	defer l.mu.Unlock()
	h, ok := l.gvals[hashBits(x)]
	return h, ok
}

func infNorm(g []float64) float64 {
	m := 0.0
	for _, v := range g {
		m = math.Max(m, math.Abs(v))
	}
	return m
}
