// Command repro prints minimal reproducers of the gonum defects the C19
// monitor reports. Run from /verif/harness:  go run ./c19/tools/repro
// (the two calls that never return are guarded by an evaluation counter).
package main

import (
	"fmt"
	"math"

	"gonum.org/v1/gonum/mat"
	"gonum.org/v1/gonum/optimize"
	"gonum.org/v1/gonum/optimize/convex/lp"
)

func bowl(x []float64) float64 { return 3 + (x[0]-1)*(x[0]-1) + 2*(x[1]-1)*(x[1]-1) }
func bowlGrad(g, x []float64)  { g[0], g[1] = 2*(x[0]-1), 4*(x[1]-1) }

type src struct{ s uint64 }

func (r *src) Uint64() uint64 {
	r.s = r.s*6364136223846793005 + 1442695040888963407
	return r.s
}

func show(title string, res *optimize.Result, err error) {
	if res == nil {
		fmt.Printf("%-46s res=nil err=%v\n", title, err)
		return
	}
	fmt.Printf("%-46s X=%v F=%v status=%v err=%v major=%d funcEvals=%d\n", title, res.X, res.F, res.Status, err, res.MajorIterations, res.FuncEvaluations)
}

func main() {
	x0 := []float64{-1.5, -0.75}
	p := optimize.Problem{Func: bowl, Grad: bowlGrad}

	fmt.Println("D1  stop before the first MajorIteration: zero placeholder returned with a nil error (f >= 3 everywhere)")
	for _, m := range []optimize.Method{&optimize.NelderMead{}, &optimize.BFGS{}, &optimize.CmaEsChol{ForgetBest: true, Src: &src{1}}} {
		res, err := optimize.Minimize(p, x0, &optimize.Settings{FuncEvaluations: 1}, m)
		show(fmt.Sprintf("    %T FuncEvaluations=1", m), res, err)
	}

	fmt.Println("D2  CmaEsChol stopped inside its first generation: X=0, F=0 from never-evaluated slots")
	res, err := optimize.Minimize(p, x0, &optimize.Settings{FuncEvaluations: 3}, &optimize.CmaEsChol{Src: &src{1}})
	show("    CmaEsChol FuncEvaluations=3", res, err)

	fmt.Println("D3  CG with all defaults never returns on a strictly convex quadratic (MoreThuente crawls one ulp at a time)")
	{
		d := []float64{1, 63, 24}
		u := []float64{4, -3, 1}
		b := []float64{2.25, -2, 1}
		f := func(x []float64) float64 {
			s, ux := 0.0, 0.0
			for i := range x {
				s += 0.5*d[i]*x[i]*x[i] + b[i]*x[i]
				ux += u[i] * x[i]
			}
			return s + 0.5*ux*ux
		}
		g := func(g, x []float64) {
			ux := 0.0
			for i := range x {
				ux += u[i] * x[i]
			}
			for i := range x {
				g[i] = d[i]*x[i] + b[i] + u[i]*ux
			}
		}
		n := 0
		guard := func() (optimize.Status, error) {
			if n > 1000000 {
				return optimize.Failure, fmt.Errorf("guard: still evaluating after 1e6 evaluations")
			}
			return optimize.NotTerminated, nil
		}
		res, err := optimize.Minimize(optimize.Problem{Func: func(x []float64) float64 { n++; return f(x) }, Grad: g, Status: guard}, []float64{0.5, -4, -1}, nil, &optimize.CG{})
		show("    CG{} default settings", res, err)
	}

	fmt.Println("D4  a +Inf objective value inside a MoreThuente line search: NaN step, evaluated forever")
	{
		n := 0
		f := func(x []float64) float64 {
			n++
			if x[0] > -1.2 {
				return math.Inf(1)
			}
			return bowl(x)
		}
		guard := func() (optimize.Status, error) {
			if n > 1000000 {
				return optimize.Failure, fmt.Errorf("guard: still evaluating after 1e6 evaluations")
			}
			return optimize.NotTerminated, nil
		}
		res, err := optimize.Minimize(optimize.Problem{Func: f, Grad: bowlGrad, Status: guard}, x0, nil, &optimize.LBFGS{Linesearcher: &optimize.MoreThuente{}})
		show("    LBFGS{MoreThuente}, f=+Inf for x0>-1.2", res, err)
	}

	fmt.Println("D5  ListSearch/GuessAndCheck when the first value is +Inf or NaN")
	func() {
		defer func() {
			fmt.Println("    ListSearch first value +Inf: panic in the method goroutine (kills a real program):", recover())
		}()
		l := &optimize.ListSearch{Locs: mat.NewDense(2, 2, []float64{0, 0, 1, 1})}
		// call the method body directly so that the panic can be shown
		l.Init(2, 1)
		op := make(chan optimize.Task, 4)
		rs := make(chan optimize.Task, 4)
		loc := &optimize.Location{X: make([]float64, 2)}
		go func() {
			t := <-op
			t.F = math.Inf(1)
			rs <- t
		}()
		l.Run(op, rs, []optimize.Task{{Location: loc}})
	}()

	fmt.Println("D6  Settings.GradientThreshold stops a gradient-free method through InitValues.Gradient")
	res, err = optimize.Minimize(p, x0, &optimize.Settings{GradientThreshold: 1e3, InitValues: &optimize.Location{F: bowl(x0), Gradient: []float64{-5, -7}}}, &optimize.NelderMead{})
	show("    NelderMead GradientThreshold=1e3", res, err)

	fmt.Println("L1  lp.Simplex, square system with a zero component in the solution (1,2,0,1): ErrInfeasible")
	{
		A := mat.NewDense(4, 4, []float64{4, -1, 5, 5, 5, -3, 1, 5, 0, -5, -4, -4, -3, 1, 0, 5})
		f, x, err := lp.Simplex([]float64{3, 4, 5, 0}, A, []float64{7, 4, -14, 4}, 1e-10, nil)
		fmt.Println("   ", f, x, err)
	}
	fmt.Println("L2  lp.Simplex with tol=0 (the value of the documented example): a bounded program (optimum 3.6) is 'unbounded'")
	{
		A := mat.NewDense(3, 5, []float64{2, -2, 2, 2, 5, 0, 1, -1, 2, -1, 0, 0, 0, -2, 4})
		for _, tol := range []float64{0, 1e-10} {
			f, x, err := lp.Simplex([]float64{4, 0, 0, 3, 3}, A, []float64{0, 2, 4}, tol, nil)
			fmt.Println("    tol", tol, ":", f, x, err)
		}
	}
	fmt.Println("L3  lp.Simplex with tol=0 never returns on this 4x6 program (not run here):")
	fmt.Println("    c=[2 2 3 3 3 4] A=[[1 -5 -1 -1 2 4] [-3 -5 4 4 -2 2] [-3 5 -4 -4 -4 4] [-2 -1 4 4 1 -5]] b=[3 5 0 -2]")
}
