package main

import (
	"fmt"
	"math"

	"gonum.org/v1/gonum/mat"
	"gonum.org/v1/gonum/optimize"
	"gonum.org/v1/gonum/verifx/vrt"
)

const (
	mGD = iota
	mCG
	mBFGS
	mLBFGS
	mNewton
	mNM
	mCMA
	mGAC
	mLS
	numMethods
)

var methodNames = [...]string{"GradientDescent", "CG", "BFGS", "LBFGS", "Newton", "NelderMead", "CmaEsChol", "GuessAndCheck", "ListSearch"}
var cgVariantNames = [...]string{"FletcherReeves", "PolakRibierePolyak", "HestenesStiefel", "DaiYuan", "HagerZhang"}
var lsNames = [...]string{"default", "Backtracking", "Bisection", "MoreThuente"}

type methSpec struct {
	kind      int
	variant   int // CG: 0..4, -1 = nil (default)
	ls        int // 0 nil (method default), 1 Backtracking, 2 Bisection, 3 MoreThuente
	lsParam   int // 0 default parameters, 1 alternative parameters
	stepSizer int // GD/CG: 0 nil, 1 Constant, 2 Quadratic, 3 FirstOrder
	store     int // LBFGS
	pop       int // CmaEsChol
	forget    bool
	rows      int  // ListSearch
	simplex   bool // NelderMead with an initial simplex
	gradStop  int  // 0 default (1e-12), 1 NaN (disabled), 2 explicit 1e-7
	nmParams  bool // NelderMead: explicit Reflection/Expansion/Contraction/Shrink/SimplexSize
	cmaChol   bool // CmaEsChol: user-supplied InitCholesky
	cmaStep   bool // CmaEsChol: explicit InitStepSize
	cmaStop   bool // CmaEsChol: explicit StopLogDet (-5: converges early by its own criterion)
	cgRestart int  // CG: 0 defaults, 1 IterationRestartFactor 1 / AngleRestartThreshold -0.5, 2 IterationRestartFactor 0.5 / AngleRestartThreshold -1
	newtonInc int  // Newton.Increase: 0 default, 1 -> 2, 2 -> 10
	locsT     bool // ListSearch: Locs is a transposed view, not a *mat.Dense
}

func (m methSpec) local() bool      { return m.kind <= mNM }
func (m methSpec) usesGrad() bool   { return m.kind <= mNewton }
func (m methSpec) usesHess() bool   { return m.kind == mNewton }
func (m methSpec) linesearch() bool { return m.kind <= mNewton }

// name is the routine part of signatures and class keys.
func (m methSpec) name() string {
	s := methodNames[m.kind]
	if m.kind == mCG {
		if m.variant >= 0 {
			s += ":" + cgVariantNames[m.variant]
		} else {
			s += ":default"
		}
	}
	if m.kind == mCMA && m.forget {
		s += ":ForgetBest"
	}
	return s
}

// effPop is the documented CmaEsChol population size.
func (m methSpec) effPop(dim int) int {
	if m.pop > 0 {
		return m.pop
	}
	return 4 + int(math.Floor(3*math.Log(float64(dim))))
}

func (m methSpec) lsName() string {
	if !m.linesearch() {
		return "-"
	}
	return lsNames[m.ls]
}

// effective line searcher kind after the method's default is applied.
func (m methSpec) effLS() int {
	if m.ls != 0 {
		return m.ls
	}
	switch m.kind {
	case mGD:
		return 1
	case mCG:
		return 3
	default:
		return 2
	}
}

type setSpec struct {
	limF, limG, limH, limMaj int
	runtime                  int // 0 none, 1 = 1ns (expired at every check), 2 = 20ms with the objective sleeping 50ms in Func call sleepAt, 3 = 1 hour (never expires)
	sleepAt                  int
	gradThr                  float64
	conv                     int // 0 nil, 1 NeverTerminate, 2 stopAfter, 3 logged FunctionConverge with explicit parameters
	convK                    int
	convStatus               optimize.Status
	init                     int // 0 none, 1 F, 2 F+grad, 3 F+grad+Hess
	concurrent               int
	rec                      int  // 0 none, -2 present and never failing, -1 Init fails, k>0 fails at the k-th Record
	recOnce                  bool // only the k-th Record fails
	cbK                      int  // Problem.Status terminal from the k-th call on (0 = not configured)
	cbKind                   int  // 1 terminal status, nil error; 2 NotTerminated with error; 3 terminal status and error
	noValve                  bool
	yields                   bool
}

// runtimeStops reports whether the Runtime setting is one that must end the run.
func (s setSpec) runtimeStops() bool { return s.runtime == 1 || s.runtime == 2 }

func (s setSpec) anyLimit() bool {
	return s.limF > 0 || s.limG > 0 || s.limH > 0 || s.limMaj > 0 || s.runtimeStops()
}

type caseSpec struct {
	group string // workload group (part of the evaluation class key)
	m     methSpec
	s     setSpec
	ft    fault
	gft   fault // gradient fault: kind faultFirst writes val into component 0 of the first gradient
	obj   *objective
	seed  uint64
	reuse bool
	run   int // position in a history of runs with the same method value (0 = fresh value)
}

func (cs *caseSpec) describe() string {
	return fmt.Sprintf("Minimize group=%s method=%s ls=%s/%d step=%d store=%d pop=%d rows=%d simplex=%v nmParams=%v cmaChol=%v cmaStep=%v cmaStop=%v cgRestart=%d newtonInc=%d locsT=%v gradStop=%d obj=%s dim=%d fault=%s k=%d gfault=%s limF=%d limG=%d limH=%d limMaj=%d runtime=%d/%d gradThr=%v conv=%d/%d init=%d conc=%d rec=%s cb=%d/%d noValve=%v yields=%v reuse=%v run=%d seed=%d",
		cs.group, cs.m.name(), cs.m.lsName(), cs.m.lsParam, cs.m.stepSizer, cs.m.store, cs.m.pop, cs.m.rows, cs.m.simplex, cs.m.nmParams, cs.m.cmaChol, cs.m.cmaStep, cs.m.cmaStop, cs.m.cgRestart, cs.m.newtonInc, cs.m.locsT, cs.m.gradStop,
		cs.obj.name, cs.obj.dim, cs.ft.name(), cs.ft.k, cs.gft.name(), cs.s.limF, cs.s.limG, cs.s.limH, cs.s.limMaj, cs.s.runtime, cs.s.sleepAt, cs.s.gradThr, cs.s.conv, cs.s.convK,
		cs.s.init, cs.s.concurrent, recDesc(cs.s), cs.s.cbK, cs.s.cbKind, cs.s.noValve, cs.s.yields, cs.reuse, cs.run, cs.seed)
}

func recDesc(s setSpec) string {
	if s.recOnce {
		return fmt.Sprintf("%d(once)", s.rec)
	}
	return fmt.Sprint(s.rec)
}

// uniformRander draws uniformly from a box around a centre; it is driven by
// a seeded generator and used from the method goroutine only.
type uniformRander struct {
	r      *vrt.Rand
	centre []float64
	half   float64
}

func (u *uniformRander) Rand(x []float64) []float64 {
	if x == nil {
		x = make([]float64, len(u.centre))
	}
	for i := range x {
		x[i] = u.centre[i%len(u.centre)] + u.half*u.r.Sym()
	}
	return x
}

type builtMethod struct {
	// snapshots of the data the user handed to the method value; Minimize
	// must not modify any of it (and the harness registers the initial
	// simplex of later runs from the snapshot, i.e. as the user supplied it).
	nmVertsSnap  [][]float64
	nmValuesSnap []float64
	locsSnap     []float64
	chol         *mat.Cholesky
	cholSnap     []float64
	runs         int

	m        optimize.Method
	ls       *lsWrap
	nmValues []float64
	nmVerts  [][]float64
	locs     *mat.Dense
	gradStop float64 // effective method gradient threshold (NaN = disabled, -1 = not applicable)
}

func buildLS(kind, param int) *lsWrap {
	switch kind*10 + param {
	case 12:
		return &lsWrap{inner: &optimize.Backtracking{DecreaseFactor: 1e-3, ContractionFactor: 0.8}, kind: 1, dec: 1e-3}
	case 22:
		return &lsWrap{inner: &optimize.Bisection{CurvatureFactor: 0.5}, kind: 2, dec: 0, curv: 0.5}
	case 32:
		return &lsWrap{inner: &optimize.MoreThuente{StepTolerance: 1e-6, MinimumStep: 1e-12, MaximumStep: 50}, kind: 3, dec: 0, curv: 0.9}
	}
	switch kind {
	case 1:
		if param == 1 {
			return &lsWrap{inner: &optimize.Backtracking{DecreaseFactor: 0.1, ContractionFactor: 0.3}, kind: 1, dec: 0.1}
		}
		return &lsWrap{inner: &optimize.Backtracking{}, kind: 1, dec: 1e-4}
	case 2:
		if param == 1 {
			return &lsWrap{inner: &optimize.Bisection{CurvatureFactor: 0.1}, kind: 2, dec: 0, curv: 0.1}
		}
		return &lsWrap{inner: &optimize.Bisection{}, kind: 2, dec: 0, curv: 0.9}
	case 3:
		if param == 1 {
			return &lsWrap{inner: &optimize.MoreThuente{DecreaseFactor: 1e-4, CurvatureFactor: 0.1}, kind: 3, dec: 1e-4, curv: 0.1}
		}
		return &lsWrap{inner: &optimize.MoreThuente{}, kind: 3, dec: 0, curv: 0.9}
	}
	return nil
}

func buildStepSizer(k int) optimize.StepSizer {
	switch k {
	case 1:
		return optimize.ConstantStepSize{Size: 1}
	case 2:
		return &optimize.QuadraticStepSize{}
	case 3:
		return &optimize.FirstOrderStepSize{}
	case 4:
		return &optimize.QuadraticStepSize{Threshold: 1e-8, InitialStepFactor: 0.5, MinStepSize: 1e-2, MaxStepSize: 0.5}
	case 5:
		return &optimize.FirstOrderStepSize{InitialStepFactor: 0.5, MinStepSize: 1e-2, MaxStepSize: 0.5}
	}
	return nil
}

// build constructs a fresh method value. Line searchers are wrapped only
// when set explicitly; the method default (ls == 0) stays nil so that the
// defaulting code is exercised.
func (ms methSpec) build(o *objective, r *vrt.Rand, led *ledger) *builtMethod {
	b := &builtMethod{gradStop: -1}
	var ls optimize.Linesearcher
	if ms.linesearch() && ms.ls != 0 {
		b.ls = buildLS(ms.ls, ms.lsParam)
		ls = b.ls
	}
	gs := 0.0
	switch ms.gradStop {
	case 1:
		gs = math.NaN()
	case 2:
		gs = 1e-7
	}
	if ms.usesGrad() {
		b.gradStop = gs
		if gs == 0 {
			b.gradStop = 1e-12
		}
	}
	switch ms.kind {
	case mGD:
		b.m = &optimize.GradientDescent{Linesearcher: ls, StepSizer: buildStepSizer(ms.stepSizer), GradStopThreshold: gs}
	case mCG:
		var v optimize.CGVariant
		switch ms.variant {
		case 0:
			v = &optimize.FletcherReeves{}
		case 1:
			v = &optimize.PolakRibierePolyak{}
		case 2:
			v = &optimize.HestenesStiefel{}
		case 3:
			v = &optimize.DaiYuan{}
		case 4:
			v = &optimize.HagerZhang{}
		}
		cg := &optimize.CG{Linesearcher: ls, Variant: v, InitialStep: buildStepSizer(ms.stepSizer), GradStopThreshold: gs}
		switch ms.cgRestart {
		case 1:
			cg.IterationRestartFactor, cg.AngleRestartThreshold = 1, -0.5
		case 2:
			cg.IterationRestartFactor, cg.AngleRestartThreshold = 0.5, -1
		}
		b.m = cg
	case mBFGS:
		b.m = &optimize.BFGS{Linesearcher: ls, GradStopThreshold: gs}
	case mLBFGS:
		b.m = &optimize.LBFGS{Linesearcher: ls, Store: ms.store, GradStopThreshold: gs}
	case mNewton:
		b.m = &optimize.Newton{Linesearcher: ls, GradStopThreshold: gs, Increase: []float64{0, 2, 10}[ms.newtonInc]}
	case mNM:
		nm := &optimize.NelderMead{}
		if ms.nmParams {
			nm.Reflection, nm.Expansion, nm.Contraction, nm.Shrink, nm.SimplexSize = 1.2, 2.5, 0.4, 0.6, 0.3
		}
		if ms.simplex {
			d := o.dim
			b.nmVerts = make([][]float64, d+1)
			b.nmValues = make([]float64, d+1)
			for i := range b.nmVerts {
				v := make([]float64, d)
				for j := range v {
					v[j] = o.x0[j] + 0.5*r.Sym()
				}
				b.nmVerts[i] = v
				b.nmValues[i] = o.f(v)
				led.known(v, b.nmValues[i])
			}
			nm.InitialVertices = b.nmVerts
			nm.InitialValues = b.nmValues
			for _, v := range b.nmVerts {
				b.nmVertsSnap = append(b.nmVertsSnap, append([]float64(nil), v...))
			}
			b.nmValuesSnap = append([]float64(nil), b.nmValues...)
		}
		b.m = nm
	case mCMA:
		cma := &optimize.CmaEsChol{Population: ms.pop, ForgetBest: ms.forget, Src: vrt.NewRand(r.Uint64())}
		if ms.cmaStep {
			cma.InitStepSize = 0.3
		}
		if ms.cmaStop {
			cma.StopLogDet = -5
		}
		if ms.cmaChol {
			d := o.dim
			a := mat.NewSymDense(d, nil)
			bb := make([]float64, d*d)
			for i := range bb {
				bb[i] = 0.4 * r.Sym()
			}
			for i := 0; i < d; i++ {
				for j := i; j < d; j++ {
					v := 0.0
					for k := 0; k < d; k++ {
						v += bb[k*d+i] * bb[k*d+j]
					}
					if i == j {
						v += 0.5
					}
					a.SetSym(i, j, v)
				}
			}
			b.chol = &mat.Cholesky{}
			if !b.chol.Factorize(a) {
				panic("c19: InitCholesky not positive definite")
			}
			cma.InitCholesky = b.chol
			b.cholSnap = cholData(b.chol)
		}
		b.m = cma
	case mGAC:
		b.m = &optimize.GuessAndCheck{Rander: &uniformRander{r: vrt.NewRand(r.Uint64()), centre: append([]float64(nil), o.x0...), half: 3}}
	case mLS:
		rows := ms.rows
		if rows <= 0 {
			rows = 1
		}
		b.locs = mat.NewDense(rows, o.dim, nil)
		for i := 0; i < rows; i++ {
			for j := 0; j < o.dim; j++ {
				b.locs.Set(i, j, o.x0[j]+3*r.Sym())
			}
		}
		if ms.locsT {
			// the same list handed over as a general mat.Matrix
			b.locs = mat.DenseCopyOf(b.locs.T())
			b.m = &optimize.ListSearch{Locs: b.locs.T()}
		} else {
			b.m = &optimize.ListSearch{Locs: b.locs}
		}
		b.locsSnap = append([]float64(nil), b.locs.RawMatrix().Data...)
	}
	return b
}

func cholData(c *mat.Cholesky) []float64 {
	n := c.SymmetricDim()
	u := c.RawU()
	d := make([]float64, 0, n*(n+1)/2)
	for i := 0; i < n; i++ {
		for j := i; j < n; j++ {
			d = append(d, u.At(i, j))
		}
	}
	return d
}

// rebind prepares a method value that has already been used for another
// judged run: the line-search wrapper starts a fresh record and the initial
// simplex is registered as the user supplied it.
func (b *builtMethod) rebind(led *ledger) {
	if b.ls != nil {
		b.ls.accepts, b.ls.nAccept, b.ls.errs = nil, 0, nil
		b.ls.inits, b.ls.iters, b.ls.itersCur, b.ls.maxIters, b.ls.histN = 0, 0, 0, 0, 0
	}
	for i, v := range b.nmVertsSnap {
		led.known(v, b.nmValuesSnap[i])
	}
}

// mutatedUserData lists the user-supplied data of the method value that no
// longer has the bits it was handed in with.
func (b *builtMethod) mutatedUserData() []string {
	var l []string
	for i, v := range b.nmVertsSnap {
		if !sameFloats(v, b.nmVerts[i]) {
			l = append(l, "NelderMead.InitialVertices")
			break
		}
	}
	if b.nmValuesSnap != nil && !sameFloats(b.nmValuesSnap, b.nmValues) {
		l = append(l, "NelderMead.InitialValues")
	}
	if b.locsSnap != nil && !sameFloats(b.locsSnap, b.locs.RawMatrix().Data) {
		l = append(l, "ListSearch.Locs")
	}
	if b.cholSnap != nil && !sameFloats(b.cholSnap, cholData(b.chol)) {
		l = append(l, "CmaEsChol.InitCholesky")
	}
	return l
}
