// Command c19 is the runtime monitor of property C19: Minimize always
// terminates with a coherent result; LP answers are truly optimal.
package main

import (
	"flag"
	"fmt"
	"os"
	"runtime"
	"strconv"
	"strings"
	"sync/atomic"
	"time"

	"gonum.org/v1/gonum/optimize"
	"gonum.org/v1/gonum/verifx/vrt"
)

var mode = flag.String("mode", "default", "default|race")

func main() { vrt.Main("C19", run) }

var yieldCtr atomic.Uint64

func yieldHook(site string) {
	n := yieldCtr.Add(0x9e3779b97f4a7c15)
	n ^= n >> 29
	for k := n % 4; k > 0; k-- {
		runtime.Gosched()
	}
}

// docSays reports whether the normalised text of a gonum source file (comment
// slashes and white space squeezed) contains want. Clauses that rest on a doc
// comment consult it, so that a documentation repair silences them.
func docSays(rel, want string) bool {
	repo := os.Getenv("VERIF_REPO")
	if repo == "" {
		repo = "/repo"
	}
	b, err := os.ReadFile(repo + "/" + rel)
	if err != nil {
		return false
	}
	t := strings.ReplaceAll(string(b), "//", " ")
	return strings.Contains(strings.Join(strings.Fields(t), " "), want)
}

func run(c *vrt.Ctx) {
	h := newHarness(c)
	h.docErrFunc = docSays("optimize/errors.go", "ErrFunc is returned when an initial function value is invalid. The error state may be either +Inf or NaN.") &&
		docSays("optimize/errors.go", "ErrGrad is returned when an initial gradient is invalid. The error gradient may be either ±Inf or NaN.") &&
		docSays("optimize/termination.go", "FunctionNegativeInfinity")
	h.docGradThrNoEffect = docSays("optimize/types.go", "This setting has no effect if the gradient is not used by the Method")
	h.docDefaultConverge = docSays("optimize/types.go", "FunctionConverge { Absolute: 1e-10, Iterations: 100, }")
	h.docCmaLowestAcross = docSays("optimize/cmaes.go", "then the minimum value returned will be the lowest across all iterations")
	c.Note("doc_clauses_found", map[string]bool{"ErrFunc/ErrGrad-states": h.docErrFunc, "GradientThreshold-no-effect": h.docGradThrNoEffect, "default-FunctionConverge": h.docDefaultConverge, "CmaEsChol-lowest-across-iterations": h.docCmaLowestAcross})
	race := *mode == "race"
	before := vrt.SnapshotGoroutines()

	runAll := func(cases []*caseSpec) {
		vrt.Parallel(len(cases), func(i int) { h.runCase(cases[i]) })
	}

	only := os.Getenv("C19_ONLY")
	if only == "runtime" {
		// self-test aid: the runtime group repeated C19_LOOP times
		n, _ := strconv.Atoi(os.Getenv("C19_LOOP"))
		for i := 0; i < max(n, 1); i++ {
			runAll(runtimeCases())
		}
		return
	}
	if only == "quad" {
		runAll(quadCases(c, c.Pick(8, 80)))
		return
	}
	if !race {
		// deterministic grid
		runAll(gridCases(c.Thorough()))

		// random settings x methods x objectives
		n := c.Pick(10000, 200000)
		vrt.Parallel(n, func(i int) { h.runCase(randomCase(c.RNG("rand", i), "rand")) })

		// the same method value used for several runs in a row
		gh := gridHistories(c.Thorough())
		vrt.Parallel(len(gh), func(i int) { h.runHistory(gh[i]) })
		n = c.Pick(2500, 40000)
		vrt.Parallel(n, func(i int) { h.runHistory(randomHistory(c.RNG("hist", i))) })

		// one Converger value reused by consecutive runs
		h.runConvergerReuse(c.Thorough())

		// Settings.Runtime against a guaranteed elapsed time
		runAll(runtimeCases())

		// strictly convex quadratics, unlimited runs
		runAll(quadCases(c, c.Pick(8, 80)))

		// catalogue from standard starts
		runAll(catCases(c, c.Thorough()))

		// NaN / Inf objectives
		n = c.Pick(3000, 50000)
		vrt.Parallel(n, func(i int) { h.runCase(faultCase(c.RNG("fault", i))) })
	}

	// concurrency with yield points widened
	optimize.VerifSetYield(yieldHook)
	n := c.Pick(4000, 60000)
	if race {
		n = 15000
	}
	vrt.Parallel(n, func(i int) { h.runCase(concCase(c.RNG("conc", i))) })
	optimize.VerifSetYield(nil)

	if leaked := vrt.LeakedSince(before, 10*time.Second); leaked != nil {
		c.Violation("Minimize|all|goroutine-leak", fmt.Sprintf("goroutines still alive after all runs returned: %v", leaked), leaked)
	}

	if !race {
		runLP(c)
	}

	// calibration notes
	h.mu.Lock()
	worst, worstKey := 0.0, ""
	for k, v := range h.maxGap {
		if v > worst {
			worst, worstKey = v, k
		}
	}
	c.Note("quad_gap_worst_ratio", worst)
	c.Note("quad_gap_worst_ratio_at", worstKey)
	c.Note("max_callbacks_in_one_terminating_run", h.maxEvals)
	c.Note("max_callbacks_between_major_iterations", h.maxSince)
	c.Note("max_FuncEvaluations_overshoot_with_concurrency", h.maxOver)
	c.Note("statuses", h.statuses)
	errs := map[string]int{}
	for k, v := range h.lsErrs {
		errs[k[strings.LastIndex(k, "/")+1:]] += v
	}
	c.Note("quadratic_runs_ended_by_method_error", errs)
	c.Note("linesearch_accepted_steps_checked", h.nAccepts)
	c.Note("serial_replays", h.nReplays)
	c.Count("minimize.runs", h.nRuns)
	h.mu.Unlock()
}
