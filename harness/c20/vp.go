package main

import (
	"fmt"
	"math"

	"gonum.org/v1/gonum/spatial/vptree"
	"gonum.org/v1/gonum/verifx/vrt"
)

// Metrics. vptree.Point is the package's Euclidean point. The other three are
// user metrics whose values on integer coordinates are computed exactly in
// float64, so that the triangle inequality holds exactly and the distance
// multisets must agree bit for bit with the linear scan.

// l1Point: Manhattan distance.
type l1Point []float64

func (p l1Point) Distance(c vptree.Comparable) float64 {
	q := c.(l1Point)
	var s float64
	for i, v := range p {
		s += math.Abs(v - q[i])
	}
	return s
}

// lmaxPoint: Chebyshev distance.
type lmaxPoint []float64

func (p lmaxPoint) Distance(c vptree.Comparable) float64 {
	q := c.(lmaxPoint)
	var s float64
	for i, v := range p {
		s = math.Max(s, math.Abs(v-q[i]))
	}
	return s
}

// discPoint: the discrete metric (0 if equal, 1 otherwise): every pair of
// distinct points ties.
type discPoint []float64

func (p discPoint) Distance(c vptree.Comparable) float64 {
	q := c.(discPoint)
	for i, v := range p {
		if v != q[i] {
			return 1
		}
	}
	return 0
}

func vpCoords(c any) []float64 {
	switch p := c.(type) {
	case vptree.Point:
		return p
	case l1Point:
		return p
	case lmaxPoint:
		return p
	case discPoint:
		return p
	}
	return nil
}

// vpTriangleBand (relative to the largest query-to-point distance) is the
// rounding band admitted for vptree.Point only. Its Distance is a correctly
// rounded sqrt of a rounded sum, so computed distances can violate the
// triangle inequality d(q,p) >= |d(q,v) - d(v,p)| by a few ulps of
// d(q,v)+d(v,p) <= 3*maxdist. A point pruned on the strength of such a
// violation is closer than the reported result by at most that much. With
// relative distance error (dim/2+2)u <= 5u for dim <= 6 and three distances
// involved, 3*3*5u = 45u; the constant is a little over twice that.
// Pruning mistakes of a broken tree are of the order of the point spacing.
const vpTriangleBand = 96 * vrt.Eps64

type vpCase struct {
	idx    int
	class  string
	dim    int
	metric string // euclid | l1 | lmax | discrete
	effort int
	coords [][]float64
}

func (k *vpCase) mk(p []float64) vptree.Comparable {
	switch k.metric {
	case "l1":
		return l1Point(p)
	case "lmax":
		return lmaxPoint(p)
	case "discrete":
		return discPoint(p)
	}
	return vptree.Point(p)
}

func (k *vpCase) desc() string {
	return fmt.Sprintf("vptree case %d: %s dim=%d n=%d metric=%s effort=%d", k.idx, k.class, k.dim, len(k.coords), k.metric, k.effort)
}

func runVP(c *vrt.Ctx) {
	cases := c.Pick(1400, 20000)
	vrt.Parallel(cases, func(i int) {
		r := c.RNG("vptree", i)
		k := &vpCase{idx: i}
		k.class = kdClasses[i%len(kdClasses)]
		k.dim = 1 + (i/len(kdClasses))%6
		k.metric = "euclid"
		if i%2 == 1 {
			k.metric = []string{"l1", "lmax", "discrete"}[r.Intn(3)]
		}
		var n int
		switch {
		case i%11 == 0:
			n = r.Range(65, c.Pick(300, 600))
		case i%97 == 1:
			n = r.Range(600, c.Pick(900, 2000))
		case i%5 == 0:
			n = r.Range(0, 4)
		default:
			n = r.Range(3, 64)
		}
		k.effort = r.PickInt(-1, 0, 1, 2, 3, 5, 10, n, n+1)
		k.coords = genCoords(r, k.class, n, k.dim)
		vpRun(c, r, k)
	})
}

func vpRun(c *vrt.Ctx, r *vrt.Rand, k *vpCase) {
	n := len(k.coords)
	desc := k.desc()
	vals := make([]vptree.Comparable, n)
	present := make([]any, n)
	ids := make(map[*float64]bool, n)
	for i, p := range k.coords {
		vals[i] = k.mk(p)
		present[i] = vals[i]
		ids[&p[0]] = true
	}
	exact := k.metric != "euclid"
	// The exact user metrics are only exact on integer coordinates; on the
	// continuous classes they get the same band as the Euclidean metric.
	if exact {
		for _, p := range k.coords {
			for _, v := range p {
				if v != math.Trunc(v) {
					exact = false
				}
			}
		}
	}
	rp := func(extra map[string]any) map[string]any {
		m := map[string]any{"case": desc, "n": n, "points_first64": capPoints(k.coords, 64), "vantage_choice": "seeded (src = harness PRNG)"}
		for a, b := range extra {
			m[a] = b
		}
		return m
	}
	ek := fmt.Sprintf("%s|%s|%s|%s|exact=%v", k.class, dimBucket(k.dim), sizeBucket(n), k.metric, exact)

	var t *vptree.Tree
	var err error
	// New reorders its argument: hand it a copy of the slice header list.
	arg := append([]vptree.Comparable(nil), vals...)
	if n == 0 && r.Bool() {
		arg = nil
	}
	if !guard(c, "vptree.New", desc+" New", rp(nil), func() { t, err = vptree.New(arg, k.effort, c.RNG("vp-src", k.idx)) }) {
		return
	}
	c.Eval("vptree.New|"+ek, n > 1)
	if err != nil || t == nil {
		c.Violationf("vptree.New|finite-points|error", rp(nil), "%s: New returned (%v, %v) for finite points", desc, t, err)
		return
	}

	// Len.
	c.Eval("vptree.Tree.Len|"+ek, n > 0)
	if t.Len() != n {
		c.Violationf("vptree.Tree.Len|differs-from-number-of-stored-points", rp(nil), "%s: Len()=%d, %d points stored", desc, t.Len(), n)
	}

	// Structural walk: every stored value exactly once; everything in the
	// Closer subtree is within Radius of the vantage point, everything in
	// the Further subtree at least Radius away (same Distance call as the
	// builder: vantage.Distance(p)).
	found := map[*float64]int{}
	var stored [][]float64
	dupDefect := false
	nodes := 0
	okStruct := true
	bad := func(sig, f string, a ...any) {
		if okStruct {
			c.Violationf(sig, rp(nil), desc+": "+f, a...)
		}
		okStruct = false
	}
	var walk func(nd *vptree.Node) []vptree.Comparable
	walk = func(nd *vptree.Node) []vptree.Comparable {
		if nd == nil {
			return nil
		}
		p := vpCoords(nd.Point)
		if p == nil {
			bad("vptree.Node|point-missing-or-wrong-type", "node holds %v", nd.Point)
			return nil
		}
		nodes++
		found[&p[0]]++
		stored = append(stored, p)
		cl := walk(nd.Closer)
		fu := walk(nd.Further)
		for _, q := range cl {
			if d := nd.Point.Distance(q); d > nd.Radius {
				bad("vptree.Node|radius-partition|closer-subtree-point-beyond-radius", "vantage %v radius %v: Closer subtree holds %v at distance %v", p, nd.Radius, vpCoords(q), d)
				break
			}
		}
		for _, q := range fu {
			if d := nd.Point.Distance(q); d < nd.Radius {
				bad("vptree.Node|radius-partition|further-subtree-point-within-radius", "vantage %v radius %v: Further subtree holds %v at distance %v", p, nd.Radius, vpCoords(q), d)
				break
			}
		}
		return append(append(cl, fu...), nd.Point)
	}
	if guard(c, "vptree.walk", desc+" walk", rp(nil), func() { walk(t.Root) }) {
		c.Eval("vptree.structure|"+ek, n > 1)
		if nodes != n {
			bad("vptree.Tree|stored-multiset-differs-from-input", "walk finds %d nodes, %d points were given to New", nodes, n)
		} else {
			for id := range ids {
				if found[id] == 1 {
					continue
				}
				// An input object is missing (or doubled). If the stored
				// COORDINATE multiset still equals the input's, a duplicate of
				// a vantage point was dropped and the vantage object stored
				// twice: distances are unaffected, identities are not.
				if sameCoordMultiset(stored, k.coords) {
					dupDefect = true
					var lost, twice []float64
					for _, p := range k.coords {
						if found[&p[0]] == 0 {
							lost = p
							break
						}
					}
					for _, p := range k.coords {
						if found[&p[0]] >= 2 && fmt.Sprint(p) == fmt.Sprint(lost) {
							twice = p
							break
						}
					}
					c.Violationf("vptree.New|duplicate-points|input-value-dropped-and-another-stored-twice", rp(map[string]any{"dropped": lost, "stored_twice": twice}),
						"%s: the tree has %d nodes but the input object at %v is in none of them while the (equal-valued) object at %v is in two; Do and NearestSet return that object twice (partition assumes the vantage is s[0] after an unstable sort by distance)",
						desc, nodes, lost, twice)
				} else {
					bad("vptree.Tree|stored-multiset-differs-from-input", "an input value occurs %d times in the tree and the coordinate multisets differ", found[id])
				}
				break
			}
		}
		c.Count("vptree.nodes_walked", int64(nodes))
	}
	if !okStruct {
		return
	}

	// Do.
	{
		visited := map[*float64]int{}
		calls := 0
		var ret bool
		if guard(c, "vptree.Tree.Do", desc+" Do", rp(nil), func() {
			ret = t.Do(func(cm vptree.Comparable, _ int) bool {
				visited[&vpCoords(cm)[0]]++
				calls++
				return false
			})
		}) {
			c.Eval("vptree.Tree.Do|"+ek, n > 1)
			okv := len(visited) == n && calls == n
			for id := range ids {
				okv = okv && visited[id] == 1
			}
			if dupDefect {
				// Same traversal as the walk: judge the number of calls only.
				okv = calls == n
			}
			if !okv {
				c.Violationf("vptree.Tree.Do|visited-multiset-differs-from-stored", rp(nil), "%s: Do made %d calls over %d distinct values; %d are stored", desc, calls, len(visited), n)
			}
			if ret {
				c.Violationf("vptree.Tree.Do|returned-true-without-interruption", rp(nil), "%s: Do returned true although fn never did", desc)
			}
		}
		if n > 0 {
			stopAt := 1 + r.Intn(n)
			cnt := 0
			if guard(c, "vptree.Tree.Do", desc+" Do early stop", rp(nil), func() {
				ret = t.Do(func(vptree.Comparable, int) bool { cnt++; return cnt == stopAt })
			}) {
				c.Eval("vptree.Tree.Do|early-stop|"+ek, n > 1)
				if !ret || cnt != stopAt {
					c.Violationf("vptree.Tree.Do|interruption-not-honoured", rp(map[string]any{"stop_at": stopAt}), "%s: fn returned true at call %d; Do made %d calls and returned %v", desc, stopAt, cnt, ret)
				}
			}
		}
	}

	api := &nnAPI{
		pkg: "vptree",
		nearest: func(q any) (any, float64) {
			p, d := t.Nearest(q.(vptree.Comparable))
			if p == nil {
				return nil, d
			}
			return p, d
		},
		kNearest: func(q any, kk int) []nnItem {
			kp := vptree.NewNKeeper(kk)
			t.NearestSet(kp, q.(vptree.Comparable))
			return vpItems(kp.Heap)
		},
		within: func(q any, rad float64) []nnItem {
			kp := vptree.NewDistKeeper(rad)
			t.NearestSet(kp, q.(vptree.Comparable))
			return vpItems(kp.Heap)
		},
		dist:   func(q, p any) float64 { return q.(vptree.Comparable).Distance(p.(vptree.Comparable)) },
		id:     func(p any) *float64 { return &vpCoords(p)[0] },
		coords: vpCoords,

		looseIdentity: dupDefect,
	}
	x := &nnContext{desc: desc, evalKey: ek, points: k.coords, n: n}
	kk := &kdCase{dim: k.dim}
	nq := 5
	if n > 200 {
		nq = 3
	}
	for qi := 0; qi < nq; qi++ {
		q, qkind := kdQuery(r, kk, k.coords, qi)
		api.band = 0
		if !exact {
			api.band = vpTriangleBand
		} else {
			// The query must be on the integer lattice too.
			for d := range q {
				q[d] = math.Round(q[d])
			}
			if qkind == "midpoint" || qkind == "random" {
				qkind += "-rounded"
			}
		}
		verifyQueries(c, api, x, present, ids, k.mk(q), qkind, r)
	}
	if c.WantSample() && n >= 3 && n <= 8 && k.dim == 2 && exact {
		var p vptree.Comparable
		var d float64
		vrt.Try(func() { p, d = t.Nearest(k.mk([]float64{1, 2})) })
		c.Sample(map[string]any{"check": "vptree vs linear scan (exact metric)", "case": desc, "points": k.coords, "nearest_to_(1,2)": vpCoords(p), "dist": d})
	}
}

func vpItems(h vptree.Heap) []nnItem {
	out := make([]nnItem, len(h))
	for i, e := range h {
		out[i] = nnItem{dist: e.Dist}
		if e.Comparable != nil {
			out[i].item = e.Comparable
		}
	}
	return out
}

func sameCoordMultiset(a, b [][]float64) bool {
	if len(a) != len(b) {
		return false
	}
	cnt := make(map[string]int, len(a))
	for _, p := range a {
		cnt[fmt.Sprint(p)]++
	}
	for _, p := range b {
		cnt[fmt.Sprint(p)]--
	}
	for _, v := range cnt {
		if v != 0 {
			return false
		}
	}
	return true
}
