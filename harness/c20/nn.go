package main

import (
	"fmt"
	"math"
	"sort"
	"sync"

	"gonum.org/v1/gonum/verifx/vrt"
)

// nnItem is one (value, distance) pair returned by a NearestSet query.
type nnItem struct {
	item any // nil: a retained sentinel (nil Comparable)
	dist float64
}

// nnAPI abstracts the query interface shared by kdtree.Tree and vptree.Tree
// so that one brute-force oracle serves both.
type nnAPI struct {
	pkg      string // "kdtree" or "vptree"
	nearest  func(q any) (item any, dist float64)
	kNearest func(q any, k int) []nnItem     // NearestSet with NewNKeeper(k)
	within   func(q any, r float64) []nnItem // NearestSet with NewDistKeeper(r)
	dist     func(q, p any) float64          // q.Distance(p), the tree's own metric
	id       func(p any) *float64            // identity of a stored value
	coords   func(p any) []float64
	// band > 0 admits a rounding band (see vpTriangleBand); 0 demands exact
	// equality of the distance multisets.
	band float64
	// looseIdentity disables the "stored value returned twice" check (set for a
	// vp-tree that is already known to hold one input object twice, see
	// vpRun), so that one defect keeps one signature.
	looseIdentity bool
}

// bandWorst tracks the largest |difference|/band among the results accepted
// through the rounding band (reported in the evidence as a note).
var bandWorst struct {
	sync.Mutex
	ratio float64
}

func noteBand(diff, band float64) {
	bandWorst.Lock()
	if r := diff / band; r > bandWorst.ratio {
		bandWorst.ratio = r
	}
	bandWorst.Unlock()
}

type nnContext struct {
	desc    string // case description for detail strings
	evalKey string // class key for Eval
	points  [][]float64
	n       int
}

func (x *nnContext) replay(q []float64, extra map[string]any) map[string]any {
	m := map[string]any{"case": x.desc, "n": x.n, "points_first64": capPoints(x.points, 64), "query": q,
		"note": "tree shape depends on gonum's unseedable global math/rand/v2 pivots; the oracle judges the observed answer only"}
	for k, v := range extra {
		m[k] = v
	}
	return m
}

// verifyQueries runs Nearest, k-nearest and within-radius queries for q and
// compares them with the linear scan over present.
func verifyQueries(c *vrt.Ctx, api *nnAPI, x *nnContext, present []any, ids map[*float64]bool, q any, qkind string, r *vrt.Rand) {
	n := len(present)
	ds := make([]float64, n)
	maxd := 0.0
	for i, p := range present {
		ds[i] = api.dist(q, p)
		if ds[i] > maxd {
			maxd = ds[i]
		}
	}
	sort.Float64s(ds)
	band := api.band * maxd
	qc := api.coords(q)
	pk := api.pkg + ".Tree."
	nontriv := n > 1

	// Nearest.
	{
		var it any
		var d float64
		rp := x.replay(qc, nil)
		if guard(c, pk+"Nearest", x.desc+" Nearest "+qkind, rp, func() { it, d = api.nearest(q) }) {
			c.Eval(pk+"Nearest|"+x.evalKey+"|"+qkind, nontriv)
			rp["got_dist"] = d
			switch {
			case n == 0:
				if it != nil || !math.IsInf(d, 1) {
					c.Violationf(pk+"Nearest|empty-tree|not-(nil,+Inf)", rp, "%s: Nearest on an empty tree returned (%v,%v)", x.desc, it, d)
				}
			case it == nil:
				c.Violationf(pk+"Nearest|nil-result-on-nonempty-tree", rp, "%s: Nearest(%v) returned nil", x.desc, qc)
			case !ids[api.id(it)]:
				c.Violationf(pk+"Nearest|returned-value-not-in-tree", rp, "%s: Nearest(%v) returned %v which was never inserted", x.desc, qc, api.coords(it))
			case api.dist(q, it) != d:
				c.Violationf(pk+"Nearest|returned-distance-not-distance-of-returned-value", rp, "%s: Nearest(%v) returned %v with dist %v, but its distance is %v", x.desc, qc, api.coords(it), d, api.dist(q, it))
			case d != ds[0]:
				rp["want_dist"] = ds[0]
				if band > 0 && math.Abs(d-ds[0]) <= band {
					noteBand(math.Abs(d-ds[0]), band)
					c.Count(api.pkg+".rounding_band_accepted", 1)
				} else {
					c.Violationf(pk+"Nearest|distance-not-minimum-of-linear-scan", rp, "%s: Nearest(%v) dist %v, linear scan minimum %v", x.desc, qc, d, ds[0])
				}
			}
		}
	}

	if n == 0 {
		// Keepers on an empty tree: the result must be empty.
		for _, what := range []string{"NKeeper", "DistKeeper"} {
			var got []nnItem
			rp := x.replay(qc, map[string]any{"keeper": what})
			ok := guard(c, pk+"NearestSet", x.desc+" NearestSet "+what+" empty", rp, func() {
				if what == "NKeeper" {
					got = api.kNearest(q, 3)
				} else {
					got = api.within(q, 2)
				}
			})
			if !ok {
				continue
			}
			c.Eval(pk+"NearestSet|"+what+"|empty-tree", false)
			if len(got) != 0 {
				clause := "items-returned"
				if len(got) == 1 && got[0].item == nil {
					clause = "sentinel-retained"
				}
				c.Violationf(pk+"NearestSet|empty-tree|"+clause, rp,
					"%s: NearestSet(%s) on an empty tree leaves %d element(s) in the keeper (first: item=%v dist=%v); the linear scan is empty and the doc says a nil-Comparable sentinel is removed before returning",
					x.desc, what, len(got), got[0].item, got[0].dist)
			}
		}
		return
	}

	checkSet := func(what string, param any, got []nnItem, want []float64, radius float64, isRadius bool) {
		rp := x.replay(qc, map[string]any{"keeper": what, "param": param})
		sigp := pk + "NearestSet|" + what + "|"
		gd := make([]float64, len(got))
		seen := make(map[*float64]bool, len(got))
		for i, g := range got {
			gd[i] = g.dist
			if g.item == nil {
				rp["got_dists"] = gd
				c.Violationf(sigp+"nil-value-in-result", rp, "%s: NearestSet(%s %v) result %d has a nil Comparable (dist %v)", x.desc, what, param, i, g.dist)
				return
			}
			id := api.id(g.item)
			if !ids[id] {
				c.Violationf(sigp+"value-not-in-tree", rp, "%s: NearestSet(%s %v) returned %v which was never inserted", x.desc, what, param, api.coords(g.item))
				return
			}
			if seen[id] && !api.looseIdentity {
				c.Violationf(sigp+"value-returned-twice", rp, "%s: NearestSet(%s %v) returned the stored value %v twice", x.desc, what, param, api.coords(g.item))
				return
			}
			seen[id] = true
			if d := api.dist(q, g.item); d != g.dist {
				c.Violationf(sigp+"dist-field-not-distance-of-value", rp, "%s: NearestSet(%s %v): item %v has Dist %v but distance %v", x.desc, what, param, api.coords(g.item), g.dist, d)
				return
			}
			if i > 0 && gd[i-1] > gd[i] {
				rp["got_dists"] = gd
				c.Violationf(sigp+"not-in-min-sorted-order", rp, "%s: NearestSet(%s %v) distances %v are not ascending", x.desc, what, param, gd)
				return
			}
		}
		equal := len(gd) == len(want)
		for i := 0; equal && i < len(gd); i++ {
			equal = gd[i] == want[i]
		}
		if equal {
			return
		}
		rp["got_dists"], rp["want_dists"] = capF(gd, 40), capF(want, 40)
		if band > 0 {
			// Rounding-band acceptance, only for metrics whose floating
			// point values may break the triangle inequality by a few ulps.
			ok := true
			if isRadius {
				// Every returned item is a genuine in-range point (checked
				// above); points the tree missed must be within band of r.
				if len(gd) > len(want) {
					ok = false
				}
				j := 0
				for _, w := range want {
					if j < len(gd) && gd[j] == w {
						j++
						continue
					}
					if w < radius-band {
						ok = false
					} else {
						noteBand(radius-w, band)
					}
				}
				ok = ok && j == len(gd)
			} else {
				ok = len(gd) == len(want)
				for i := 0; ok && i < len(gd); i++ {
					ok = math.Abs(gd[i]-want[i]) <= band
					if ok {
						noteBand(math.Abs(gd[i]-want[i]), band)
					}
				}
			}
			if ok {
				c.Count(api.pkg+".rounding_band_accepted", 1)
				return
			}
		}
		clause := "distance-multiset-differs-from-linear-scan"
		c.Violationf(sigp+clause, rp, "%s: NearestSet(%s %v) for query %v: got %d distances %v, linear scan gives %d: %v",
			x.desc, what, param, qc, len(gd), capF(gd, 12), len(want), capF(want, 12))
	}

	// k-nearest. NewNKeeper(0) is outside the domain (it cannot hold its own
	// sentinel and panics in makeslice), so k starts at 1.
	ks := map[int]bool{1: true, 2: true, 3: true, n - 1: true, n: true, n + 3: true, 1 + r.Intn(n+2): true}
	var kl []int
	for k := range ks {
		if k >= 1 {
			kl = append(kl, k)
		}
	}
	sort.Ints(kl)
	for _, k := range kl {
		var got []nnItem
		if !guard(c, pk+"NearestSet|NKeeper", fmt.Sprintf("%s NearestSet NKeeper k=%d %s", x.desc, k, qkind), x.replay(qc, map[string]any{"k": k}), func() { got = api.kNearest(q, k) }) {
			continue
		}
		kc := "k<n"
		if k == n {
			kc = "k=n"
		} else if k > n {
			kc = "k>n"
		} else if k == 1 {
			kc = "k=1"
		}
		c.Eval(pk+"NearestSet|NKeeper|"+x.evalKey+"|"+qkind+"|"+kc, nontriv)
		checkSet("NKeeper", k, got, ds[:min(k, n)], 0, false)
	}

	// Within radius: 0, exact tie distances, one ulp either side of a tie,
	// between two distances, and larger than everything.
	rs := []float64{0, ds[0], ds[n/2], ds[n-1], ds[r.Intn(n)], math.Nextafter(ds[n/2], math.Inf(-1)), math.Nextafter(ds[n/2], math.Inf(1)),
		(ds[0] + ds[n-1]) / 2, 2*ds[n-1] + 1}
	for _, rad := range rs {
		if rad < 0 {
			continue
		}
		var got []nnItem
		if !guard(c, pk+"NearestSet|DistKeeper", fmt.Sprintf("%s NearestSet DistKeeper r=%v %s", x.desc, rad, qkind), x.replay(qc, map[string]any{"r": rad}), func() { got = api.within(q, rad) }) {
			continue
		}
		cnt := sort.Search(n, func(i int) bool { return ds[i] > rad })
		rc := "some"
		if cnt == 0 {
			rc = "none"
		} else if cnt == n {
			rc = "all"
		}
		c.Eval(pk+"NearestSet|DistKeeper|"+x.evalKey+"|"+qkind+"|"+rc, nontriv)
		checkSet("DistKeeper", rad, got, ds[:cnt], rad, true)
	}
}

func capF(f []float64, n int) []float64 {
	if len(f) > n {
		return cloneFloats(f[:n])
	}
	return cloneFloats(f)
}
