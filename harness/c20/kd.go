package main

import (
	"fmt"
	"math"
	"sort"

	"gonum.org/v1/gonum/spatial/kdtree"
	"gonum.org/v1/gonum/verifx/vrt"
)

// ---------------------------------------------------------------------------
// A user-defined point type and collection (the documented extension point of
// the package): same geometry as kdtree.Point, but pivoting with
// Partition(MedianOfMedians) instead of MedianOfRandoms, which also puts the
// median helpers under load inside real tree construction.

type uPoint []float64

func (p uPoint) Compare(c kdtree.Comparable, d kdtree.Dim) float64 {
	q := c.(uPoint)
	return p[d] - q[d]
}
func (p uPoint) Dims() int { return len(p) }
func (p uPoint) Distance(c kdtree.Comparable) float64 {
	q := c.(uPoint)
	var sum float64
	for dim, c := range p {
		d := c - q[dim]
		sum += d * d
	}
	return sum
}
func (p uPoint) Extend(b *kdtree.Bounding) *kdtree.Bounding {
	if b == nil {
		b = &kdtree.Bounding{Min: append(uPoint(nil), p...), Max: append(uPoint(nil), p...)}
	}
	mn, mx := b.Min.(uPoint), b.Max.(uPoint)
	for d, v := range p {
		mn[d] = math.Min(mn[d], v)
		mx[d] = math.Max(mx[d], v)
	}
	*b = kdtree.Bounding{Min: mn, Max: mx}
	return b
}

type uPoints []uPoint

func (p uPoints) Index(i int) kdtree.Comparable { return p[i] }
func (p uPoints) Len() int                      { return len(p) }
func (p uPoints) Pivot(d kdtree.Dim) int {
	pl := uPlane{uPoints: p, Dim: d}
	return kdtree.Partition(pl, kdtree.MedianOfMedians(pl))
}
func (p uPoints) Slice(start, end int) kdtree.Interface { return p[start:end] }
func (p uPoints) Bounds() *kdtree.Bounding {
	if len(p) == 0 {
		return nil
	}
	mn := append(uPoint(nil), p[0]...)
	mx := append(uPoint(nil), p[0]...)
	for _, e := range p[1:] {
		for d, v := range e {
			mn[d] = math.Min(mn[d], v)
			mx[d] = math.Max(mx[d], v)
		}
	}
	return &kdtree.Bounding{Min: mn, Max: mx}
}

type uPlane struct {
	kdtree.Dim
	uPoints
}

func (p uPlane) Less(i, j int) bool { return p.uPoints[i][p.Dim] < p.uPoints[j][p.Dim] }
func (p uPlane) Slice(start, end int) kdtree.SortSlicer {
	p.uPoints = p.uPoints[start:end]
	return p
}
func (p uPlane) Swap(i, j int) { p.uPoints[i], p.uPoints[j] = p.uPoints[j], p.uPoints[i] }

func kdCoords(c any) []float64 {
	switch p := c.(type) {
	case kdtree.Point:
		return p
	case uPoint:
		return p
	}
	return nil
}

// ---------------------------------------------------------------------------
// Point-set generators.

var kdClasses = []string{"lattice", "continuous", "collinear-lattice", "collinear-continuous", "duplicates", "axis", "same"}

// genCoords returns n points in dimension dim of the given class.
func genCoords(r *vrt.Rand, class string, n, dim int) [][]float64 {
	pts := make([][]float64, n)
	mk := func() []float64 { return make([]float64, dim) }
	switch class {
	case "lattice": // {0..3}^d: ties in every coordinate, duplicates
		for i := range pts {
			p := mk()
			for d := range p {
				p[d] = float64(r.Intn(4))
			}
			pts[i] = p
		}
	case "continuous":
		for i := range pts {
			p := mk()
			for d := range p {
				p[d] = r.Sym()
			}
			pts[i] = p
		}
	case "collinear-lattice":
		base, dir := mk(), mk()
		for d := range dir {
			base[d] = float64(r.Intn(3))
			dir[d] = float64(r.Range(-1, 1))
		}
		dir[r.Intn(dim)] = 1
		for i := range pts {
			t := float64(r.Intn(n/2 + 2))
			p := mk()
			for d := range p {
				p[d] = base[d] + t*dir[d]
			}
			pts[i] = p
		}
	case "collinear-continuous":
		base, dir := mk(), mk()
		for d := range dir {
			base[d] = r.Sym()
			dir[d] = r.Sym()
		}
		for i := range pts {
			t := r.Sym()
			p := mk()
			for d := range p {
				p[d] = base[d] + t*dir[d]
			}
			pts[i] = p
		}
	case "duplicates": // a few distinct continuous points, repeated
		m := 1 + r.Intn(4)
		protos := genCoords(r, "continuous", m, dim)
		for i := range pts {
			pts[i] = cloneFloats(protos[r.Intn(m)])
		}
	case "axis": // all points on one coordinate axis: ties in all other planes
		ax := r.Intn(dim)
		for i := range pts {
			p := mk()
			p[ax] = float64(r.Range(-3, 3))
			if r.Bool() {
				p[ax] = r.Sym()
			}
			pts[i] = p
		}
	case "same":
		proto := mk()
		for d := range proto {
			proto[d] = float64(r.Intn(4))
		}
		for i := range pts {
			pts[i] = cloneFloats(proto)
		}
	}
	switch r.Intn(5) {
	case 0: // ascending insertion order: degenerate (list-like) insert-built trees
		sort.Slice(pts, func(i, j int) bool { return pts[i][0] < pts[j][0] })
	case 1:
		sort.Slice(pts, func(i, j int) bool { return pts[i][0] > pts[j][0] })
	}
	return pts
}

// ---------------------------------------------------------------------------

type kdCase struct {
	idx      int
	class    string
	dim      int
	user     bool // uPoint/uPoints instead of kdtree.Point/Points
	build    string
	bounding bool   // bounding argument of New
	insFlag  string // "same" (as bounding) or "mixed"
	coords   [][]float64
}

func (k *kdCase) desc() string {
	ty := "kdtree.Point"
	if k.user {
		ty = "user type (MedianOfMedians pivot)"
	}
	return fmt.Sprintf("kdtree case %d: %s dim=%d n=%d %s build=%s bounding=%v insert-flag=%s", k.idx, k.class, k.dim, len(k.coords), ty, k.build, k.bounding, k.insFlag)
}

func (k *kdCase) mk(p []float64) kdtree.Comparable {
	if k.user {
		return uPoint(p)
	}
	return kdtree.Point(p)
}

func (k *kdCase) newTree(vals []kdtree.Comparable, bounding bool) *kdtree.Tree {
	if k.user {
		ps := make(uPoints, len(vals))
		for i, v := range vals {
			ps[i] = v.(uPoint)
		}
		return kdtree.New(ps, bounding)
	}
	ps := make(kdtree.Points, len(vals))
	for i, v := range vals {
		ps[i] = v.(kdtree.Point)
	}
	return kdtree.New(ps, bounding)
}

func runKD(c *vrt.Ctx) {
	cases := c.Pick(1400, 20000)
	builds := []string{"new", "insert", "new+insert", "emptynew+insert"}
	vrt.Parallel(cases, func(i int) {
		r := c.RNG("kdtree", i)
		k := &kdCase{idx: i}
		k.class = kdClasses[i%len(kdClasses)]
		k.dim = 1 + (i/len(kdClasses))%6
		k.build = builds[r.Intn(len(builds))]
		if partitionBroken.Load() {
			k.build = "insert" // see runMedians
		}
		k.bounding = r.Bool()
		k.user = r.Intn(4) == 0
		k.insFlag = "same"
		if r.Intn(4) == 0 {
			k.insFlag = "mixed"
		}
		var n int
		switch {
		case i%11 == 0:
			n = r.Range(65, c.Pick(300, 600))
		case i%97 == 1:
			n = r.Range(600, c.Pick(900, 2000))
		case i%5 == 0:
			n = r.Range(0, 4)
		default:
			n = r.Range(3, 64)
		}
		k.coords = genCoords(r, k.class, n, k.dim)
		kdRun(c, r, k)
	})
}

// kdRun builds the tree of one case step by step and verifies it at
// checkpoints (after the bulk build, midway through the inserts, at the end).
func kdRun(c *vrt.Ctx, r *vrt.Rand, k *kdCase) {
	vals := make([]kdtree.Comparable, len(k.coords))
	for i, p := range k.coords {
		vals[i] = k.mk(p)
	}
	desc := k.desc()
	c.LastCase(desc)
	rp := map[string]any{"case": desc, "points_first64": capPoints(k.coords, 64)}

	var t *kdtree.Tree
	nBulk := 0
	allBounding := true // every operation so far asked for bounding
	switch k.build {
	case "new":
		nBulk = len(vals)
	case "new+insert":
		nBulk = r.Intn(len(vals) + 1)
	}
	if !guard(c, "kdtree.New", desc+" New", rp, func() {
		if k.build == "insert" {
			t = &kdtree.Tree{}
		} else {
			t = k.newTree(vals[:nBulk], k.bounding)
			c.Eval("kdtree.New|"+k.evalKey(nBulk), nBulk > 1)
		}
	}) {
		return
	}
	allBounding = k.bounding
	present := append([]kdtree.Comparable(nil), vals[:nBulk]...)
	kdVerify(c, r, k, t, present, allBounding, "after-build")

	rest := vals[nBulk:]
	mid := len(rest) / 2
	for j, v := range rest {
		flag := k.bounding
		if k.insFlag == "mixed" {
			flag = r.Bool()
		}
		if !guard(c, "kdtree.Tree.Insert", fmt.Sprintf("%s Insert #%d", desc, j), rp, func() { t.Insert(v, flag) }) {
			return
		}
		c.Eval("kdtree.Tree.Insert|"+k.evalKey(len(present)), len(present) > 0)
		allBounding = allBounding && flag
		present = append(present, v)
		if j+1 == mid && mid > 0 {
			kdVerify(c, r, k, t, present, allBounding, "mid-insert")
		}
	}
	if len(rest) > 0 {
		kdVerify(c, r, k, t, present, allBounding, "after-insert")
	}
	if c.WantSample() && len(k.coords) >= 3 && len(k.coords) <= 8 && k.dim == 2 {
		var p kdtree.Comparable
		var d float64
		vrt.Try(func() { p, d = t.Nearest(k.mk([]float64{0.5, 0.5})) })
		c.Sample(map[string]any{"check": "kdtree vs linear scan", "case": desc, "points": k.coords, "nearest_to_(0.5,0.5)": kdCoords(p), "dist": d})
	}
}

func (k *kdCase) evalKey(n int) string {
	ty := "Point"
	if k.user {
		ty = "user"
	}
	return fmt.Sprintf("%s|%s|%s|%s|%s|b=%v", k.class, dimBucket(k.dim), sizeBucket(n), ty, k.build, k.bounding)
}

type kdWalk struct {
	n        int
	ids      map[*float64]int
	depth    map[*float64]int
	bnd      map[*float64]*kdtree.Bounding
	unbnd    int // nodes without Bounding
	loose    int // nodes whose Bounding is larger than the subtree hull
	strictR  int // nodes with a right-subtree element equal to the plane value
	firstErr func()
}

// kdVerify checks every clause of the property on the current tree.
func kdVerify(c *vrt.Ctx, r *vrt.Rand, k *kdCase, t *kdtree.Tree, present []kdtree.Comparable, allBounding bool, phase string) {
	n := len(present)
	desc := k.desc() + " " + phase
	pts := make([][]float64, n)
	ids := make(map[*float64]bool, n)
	for i, p := range present {
		pts[i] = kdCoords(p)
		ids[&pts[i][0]] = true
	}
	rp := func(extra map[string]any) map[string]any {
		m := map[string]any{"case": desc, "n": n, "points_first64": capPoints(pts, 64)}
		for a, b := range extra {
			m[a] = b
		}
		return m
	}
	ek := k.evalKey(n) + "|" + phase

	// Len.
	c.Eval("kdtree.Tree.Len|"+ek, n > 0)
	if t.Len() != n {
		c.Violationf("kdtree.Tree.Len|differs-from-number-of-stored-points", rp(nil), "%s: Len()=%d, %d points stored", desc, t.Len(), n)
	}

	// Structural walk over the exported fields.
	w := &kdWalk{ids: map[*float64]int{}, depth: map[*float64]int{}, bnd: map[*float64]*kdtree.Bounding{}}
	structuralOK := true
	bad := func(sig, f string, a ...any) {
		if structuralOK {
			c.Violationf(sig, rp(nil), desc+": "+f, a...)
		}
		structuralOK = false
	}
	var walk func(nd *kdtree.Node, depth int) (mn, mx []float64)
	walk = func(nd *kdtree.Node, depth int) (mn, mx []float64) {
		if nd == nil {
			return nil, nil
		}
		p := kdCoords(nd.Point)
		if p == nil || len(p) != k.dim {
			bad("kdtree.Node|point-missing-or-wrong-type", "node at depth %d holds %v", depth, nd.Point)
			return nil, nil
		}
		w.n++
		w.ids[&p[0]]++
		w.depth[&p[0]] = depth
		w.bnd[&p[0]] = nd.Bounding
		if nd.Plane < 0 || int(nd.Plane) >= k.dim {
			bad("kdtree.Node|plane-out-of-range", "node %v has Plane %d in dimension %d", p, nd.Plane, k.dim)
			return nil, nil
		}
		mn, mx = cloneFloats(p), cloneFloats(p)
		lmn, lmx := walk(nd.Left, depth+1)
		rmn, rmx := walk(nd.Right, depth+1)
		pl := int(nd.Plane)
		if lmx != nil && lmx[pl] > p[pl] {
			bad("kdtree.Node|split-plane-order|left-subtree-beyond-plane", "node %v plane %d: left subtree reaches %v", p, pl, lmx[pl])
		}
		if rmn != nil && rmn[pl] < p[pl] {
			bad("kdtree.Node|split-plane-order|right-subtree-before-plane", "node %v plane %d: right subtree starts at %v", p, pl, rmn[pl])
		}
		if rmn != nil && rmn[pl] == p[pl] {
			w.strictR++
		}
		for _, s := range [][2][]float64{{lmn, lmx}, {rmn, rmx}} {
			if s[0] == nil {
				continue
			}
			for d := range mn {
				mn[d] = math.Min(mn[d], s[0][d])
				mx[d] = math.Max(mx[d], s[1][d])
			}
		}
		if nd.Bounding == nil {
			w.unbnd++
		} else {
			bmn, bmx := kdCoords(nd.Bounding.Min), kdCoords(nd.Bounding.Max)
			if len(bmn) != k.dim || len(bmx) != k.dim {
				bad("kdtree.Node|bounding-malformed", "node %v has Bounding %v", p, nd.Bounding)
				return mn, mx
			}
			tight := true
			for d := range mn {
				if bmn[d] > mn[d] || bmx[d] < mx[d] {
					bad("kdtree.Node|bounding-does-not-contain-subtree-point", "node %v (depth %d): Bounding [%v,%v] does not contain its subtree hull [%v,%v]", p, depth, bmn, bmx, mn, mx)
					break
				}
				if bmn[d] != mn[d] || bmx[d] != mx[d] {
					tight = false
				}
			}
			if !tight {
				w.loose++
			}
			if !nd.Bounding.Contains(nd.Point) {
				bad("kdtree.Bounding.Contains|node-point-not-in-own-bounding", "node %v: Bounding.Contains(Point) is false for [%v,%v]", p, bmn, bmx)
			}
		}
		return mn, mx
	}
	var hullMin, hullMax []float64
	if guard(c, "kdtree.walk", desc+" walk", rp(nil), func() { hullMin, hullMax = walk(t.Root, 0) }) {
		c.Eval("kdtree.structure|"+ek, n > 1)
		if w.n != n {
			bad("kdtree.Tree|stored-multiset-differs-from-inserted", "walk finds %d nodes, %d points were stored", w.n, n)
		} else {
			for id := range ids {
				if w.ids[id] != 1 {
					bad("kdtree.Tree|stored-multiset-differs-from-inserted", "a stored value occurs %d times in the tree", w.ids[id])
					break
				}
			}
		}
		if allBounding && n > 0 && w.unbnd > 0 {
			bad("kdtree.Node|bounding-requested|bounding-missing", "%d of %d nodes have no Bounding although every New/Insert asked for bounding", w.unbnd, n)
		}
		c.Count("kdtree.nodes_walked", int64(w.n))
		c.Count("kdtree.nodes_with_bounding", int64(w.n-w.unbnd))
		c.Count("kdtree.boundings_not_tight", int64(w.loose))
		c.Count("kdtree.right_subtree_touches_plane", int64(w.strictR))
	}
	if !structuralOK {
		return // the remaining oracles assume the walk's identity maps
	}

	// Do.
	{
		visited := map[*float64]int{}
		order := 0
		wrongArg := ""
		var ret bool
		if guard(c, "kdtree.Tree.Do", desc+" Do", rp(nil), func() {
			ret = t.Do(func(cm kdtree.Comparable, b *kdtree.Bounding, depth int) bool {
				p := kdCoords(cm)
				visited[&p[0]]++
				order++
				if wrongArg == "" && (w.bnd[&p[0]] != b || w.depth[&p[0]] != depth) {
					wrongArg = fmt.Sprintf("point %v: got bounding %p depth %d, node has %p depth %d", p, b, depth, w.bnd[&p[0]], w.depth[&p[0]])
				}
				return false
			})
		}) {
			c.Eval("kdtree.Tree.Do|"+ek, n > 1)
			okv := len(visited) == n && order == n
			for id := range ids {
				okv = okv && visited[id] == 1
			}
			if !okv {
				c.Violationf("kdtree.Tree.Do|visited-multiset-differs-from-stored", rp(nil), "%s: Do made %d calls over %d distinct values; %d are stored", desc, order, len(visited), n)
			}
			if ret {
				c.Violationf("kdtree.Tree.Do|returned-true-without-interruption", rp(nil), "%s: Do returned true although fn never did", desc)
			}
			if wrongArg != "" {
				c.Violationf("kdtree.Tree.Do|bounding-or-depth-argument-not-the-nodes", rp(nil), "%s: %s", desc, wrongArg)
			}
		}
		if n > 0 {
			stopAt := 1 + r.Intn(n)
			calls := 0
			if guard(c, "kdtree.Tree.Do", desc+" Do early stop", rp(nil), func() {
				ret = t.Do(func(kdtree.Comparable, *kdtree.Bounding, int) bool { calls++; return calls == stopAt })
			}) {
				c.Eval("kdtree.Tree.Do|early-stop|"+ek, n > 1)
				if !ret || calls != stopAt {
					c.Violationf("kdtree.Tree.Do|interruption-not-honoured", rp(map[string]any{"stop_at": stopAt}), "%s: fn returned true at call %d; Do made %d calls and returned %v", desc, stopAt, calls, ret)
				}
			}
		}
	}

	// DoBounded.
	guard(c, "kdtree.Tree.DoBounded", desc+" DoBounded checks", rp(nil), func() {
		kdDoBounded(c, r, k, t, present, pts, ids, hullMin, hullMax, desc, ek, rp)
	})

	// Contains.
	guard(c, "kdtree.Tree.Contains", desc+" Contains checks", rp(nil), func() {
		kdContains(c, r, k, t, pts, hullMin, hullMax, desc, ek, rp)
	})

	// Queries against the linear scan.
	api := &nnAPI{
		pkg: "kdtree",
		nearest: func(q any) (any, float64) {
			p, d := t.Nearest(q.(kdtree.Comparable))
			if p == nil {
				return nil, d
			}
			return p, d
		},
		kNearest: func(q any, kk int) []nnItem {
			kp := kdtree.NewNKeeper(kk)
			t.NearestSet(kp, q.(kdtree.Comparable))
			return kdItems(kp.Heap)
		},
		within: func(q any, rad float64) []nnItem {
			kp := kdtree.NewDistKeeper(rad)
			t.NearestSet(kp, q.(kdtree.Comparable))
			return kdItems(kp.Heap)
		},
		dist:   func(q, p any) float64 { return q.(kdtree.Comparable).Distance(p.(kdtree.Comparable)) },
		id:     func(p any) *float64 { return &kdCoords(p)[0] },
		coords: kdCoords,
	}
	x := &nnContext{desc: desc, evalKey: ek, points: pts, n: n}
	pa := make([]any, n)
	for i, p := range present {
		pa[i] = p
	}
	nq := 5
	if n > 200 {
		nq = 3
	}
	for qi := 0; qi < nq; qi++ {
		q, qkind := kdQuery(r, k, pts, qi)
		verifyQueries(c, api, x, pa, ids, k.mk(q), qkind, r)
	}
}

func kdItems(h kdtree.Heap) []nnItem {
	out := make([]nnItem, len(h))
	for i, e := range h {
		out[i] = nnItem{dist: e.Dist}
		if e.Comparable != nil {
			out[i].item = e.Comparable
		}
	}
	return out
}

// kdQuery returns a query point: a stored point, the midpoint of two stored
// points, a far point, a lattice point, or a random point.
func kdQuery(r *vrt.Rand, k *kdCase, pts [][]float64, qi int) ([]float64, string) {
	q := make([]float64, k.dim)
	n := len(pts)
	kind := qi
	if n == 0 && kind < 2 {
		kind = 4
	}
	switch kind {
	case 0:
		copy(q, pts[r.Intn(n)])
		return q, "at-point"
	case 1:
		a, b := pts[r.Intn(n)], pts[r.Intn(n)]
		for d := range q {
			q[d] = (a[d] + b[d]) / 2
		}
		return q, "midpoint"
	case 2:
		for d := range q {
			q[d] = float64(r.Range(-2, 2)) * 1000
		}
		return q, "far"
	case 3:
		for d := range q {
			q[d] = float64(r.Range(-1, 4))
		}
		return q, "lattice"
	}
	for d := range q {
		q[d] = r.Uniform(-1.5, 3.5)
	}
	return q, "random"
}

func kdDoBounded(c *vrt.Ctx, r *vrt.Rand, k *kdCase, t *kdtree.Tree, present []kdtree.Comparable, pts [][]float64, ids map[*float64]bool,
	hullMin, hullMax []float64, desc, ek string, rp func(map[string]any) map[string]any) {
	n := len(pts)
	type box struct {
		kind     string
		min, max []float64
		isNil    bool
	}
	boxes := []box{{kind: "nil", isNil: true}}
	if n > 0 {
		boxes = append(boxes, box{kind: "hull", min: cloneFloats(hullMin), max: cloneFloats(hullMax)})
		// Corners taken from stored coordinates: faces pass through points.
		for rep := 0; rep < 3; rep++ {
			b := box{kind: "faces-through-points", min: make([]float64, k.dim), max: make([]float64, k.dim)}
			for d := 0; d < k.dim; d++ {
				u, v := pts[r.Intn(n)][d], pts[r.Intn(n)][d]
				b.min[d], b.max[d] = math.Min(u, v), math.Max(u, v)
			}
			boxes = append(boxes, b)
		}
		p := pts[r.Intn(n)]
		boxes = append(boxes, box{kind: "single-point", min: cloneFloats(p), max: cloneFloats(p)})
	}
	{
		b := box{kind: "random", min: make([]float64, k.dim), max: make([]float64, k.dim)}
		f := box{kind: "far", min: make([]float64, k.dim), max: make([]float64, k.dim)}
		for d := 0; d < k.dim; d++ {
			u, v := r.Uniform(-1.5, 3.5), r.Uniform(-1.5, 3.5)
			b.min[d], b.max[d] = math.Min(u, v), math.Max(u, v)
			f.min[d], f.max[d] = 100, 200
		}
		boxes = append(boxes, b, f)
	}
	for _, b := range boxes {
		var bb *kdtree.Bounding
		if !b.isNil {
			bb = &kdtree.Bounding{Min: k.mk(b.min), Max: k.mk(b.max)}
		}
		inBox := func(p []float64) bool {
			if b.isNil {
				return true
			}
			for d := range p {
				if p[d] < b.min[d] || p[d] > b.max[d] {
					return false
				}
			}
			return true
		}
		want := 0
		for i, p := range pts {
			in := inBox(p)
			if in {
				want++
			}
			if !b.isNil && bb.Contains(present[i]) != in {
				c.Violationf("kdtree.Bounding.Contains|differs-from-coordinatewise-definition", rp(map[string]any{"box_min": b.min, "box_max": b.max, "point": p}),
					"%s: Bounding[%v,%v].Contains(%v)=%v", desc, b.min, b.max, p, !in)
			}
		}
		visited := map[*float64]int{}
		calls := 0
		var ret bool
		brp := rp(map[string]any{"box_kind": b.kind, "box_min": b.min, "box_max": b.max})
		if !guard(c, "kdtree.Tree.DoBounded", desc+" DoBounded "+b.kind, brp, func() {
			ret = t.DoBounded(bb, func(cm kdtree.Comparable, _ *kdtree.Bounding, _ int) bool {
				p := kdCoords(cm)
				visited[&p[0]]++
				calls++
				return false
			})
		}) {
			continue
		}
		bc := "some"
		if want == 0 {
			bc = "none"
		} else if want == n {
			bc = "all"
		}
		c.Eval("kdtree.Tree.DoBounded|"+ek+"|"+b.kind+"|"+bc, n > 1)
		if ret {
			c.Violationf("kdtree.Tree.DoBounded|returned-true-without-interruption", brp, "%s: DoBounded(%s) returned true although fn never did", desc, b.kind)
		}
		reported := map[string]bool{}
		for i, p := range pts {
			id := &p[0]
			in := inBox(p)
			sig := ""
			switch {
			case in && visited[id] == 0:
				// Classify: does the missed point lie on a lower face of the box?
				onMin := false
				if !b.isNil {
					for d := range p {
						if p[d] == b.min[d] {
							onMin = true
						}
					}
				}
				if onMin {
					sig = "kdtree.Tree.DoBounded|point-on-box-min-face|not-visited"
				} else {
					sig = "kdtree.Tree.DoBounded|point-inside-box|not-visited"
				}
			case in && visited[id] > 1:
				sig = "kdtree.Tree.DoBounded|point-visited-twice"
			case !in && visited[id] > 0:
				sig = "kdtree.Tree.DoBounded|point-outside-box|visited"
			}
			if sig != "" && !reported[sig] {
				reported[sig] = true
				m := rp(map[string]any{"box_kind": b.kind, "box_min": b.min, "box_max": b.max, "point": p, "visited": calls, "in_box": want})
				c.Violationf(sig, m, "%s: DoBounded over box [%v,%v] (%s) made %d calls, %d stored points are within the bound; point #%d %v: in box=%v, visited %d time(s)",
					desc, b.min, b.max, b.kind, calls, want, i, p, in, visited[id])
			}
		}
		// Interruption.
		if want > 0 && len(reported) == 0 {
			stopAt := 1 + r.Intn(want)
			cnt := 0
			if guard(c, "kdtree.Tree.DoBounded", desc+" DoBounded early stop", brp, func() {
				ret = t.DoBounded(bb, func(kdtree.Comparable, *kdtree.Bounding, int) bool { cnt++; return cnt == stopAt })
			}) {
				c.Eval("kdtree.Tree.DoBounded|early-stop|"+ek, n > 1)
				if !ret || cnt != stopAt {
					c.Violationf("kdtree.Tree.DoBounded|interruption-not-honoured", brp, "%s: fn returned true at call %d; DoBounded made %d calls and returned %v", desc, stopAt, cnt, ret)
				}
			}
		}
	}
}

func kdContains(c *vrt.Ctx, r *vrt.Rand, k *kdCase, t *kdtree.Tree, pts [][]float64, hullMin, hullMax []float64, desc, ek string, rp func(map[string]any) map[string]any) {
	n := len(pts)
	if n == 0 {
		// "If no bounding has been constructed Contains returns true."
		q := make([]float64, k.dim)
		var got bool
		c.LastCase(desc + " Contains on empty tree")
		p := vrt.Try(func() { got = t.Contains(k.mk(q)) })
		c.Eval("kdtree.Tree.Contains|empty-tree", false)
		switch {
		case p != nil && p.Runtime:
			c.Violationf("kdtree.Tree.Contains|empty-tree|runtime-panic", rp(map[string]any{"query": q}),
				"%s: Contains on a tree without points panics with %q (doc: \"If no bounding has been constructed Contains returns true\"; Nearest, NearestSet, Do and DoBounded all accept the empty tree)", desc, p.Msg)
		case p != nil:
			c.Violationf("kdtree.Tree.Contains|empty-tree|unexpected-panic", rp(map[string]any{"query": q}), "%s: panic %q", desc, p.Msg)
		case !got:
			c.Violationf("kdtree.Tree.Contains|empty-tree|false", rp(map[string]any{"query": q}), "%s: Contains on an empty (unbounded) tree returned false", desc)
		}
		return
	}
	bounded := t.Root != nil && t.Root.Bounding != nil
	type probe struct {
		q      []float64
		inHull bool
		kind   string
	}
	var probes []probe
	probes = append(probes, probe{cloneFloats(pts[r.Intn(n)]), true, "stored-point"}, probe{cloneFloats(hullMin), true, "hull-min-corner"}, probe{cloneFloats(hullMax), true, "hull-max-corner"})
	mid := make([]float64, k.dim)
	far := make([]float64, k.dim)
	rnd := make([]float64, k.dim)
	rin := true
	for d := range mid {
		mid[d] = hullMin[d] + (hullMax[d]-hullMin[d])/2
		far[d] = hullMax[d] + 10
		rnd[d] = r.Uniform(-1.5, 3.5)
		rin = rin && hullMin[d] <= rnd[d] && rnd[d] <= hullMax[d]
	}
	probes = append(probes, probe{mid, true, "hull-centre"}, probe{far, false, "beyond-hull"}, probe{rnd, rin, "random"})
	for _, pr := range probes {
		var got bool
		m := rp(map[string]any{"query": pr.q, "probe": pr.kind, "tree_bounded": bounded})
		if !guard(c, "kdtree.Tree.Contains", desc+" Contains "+pr.kind, m, func() { got = t.Contains(k.mk(pr.q)) }) {
			continue
		}
		c.Eval(fmt.Sprintf("kdtree.Tree.Contains|%s|%s|bounded=%v", ek, pr.kind, bounded), bounded)
		switch {
		case !bounded && !got:
			c.Violationf("kdtree.Tree.Contains|no-bounding-constructed|false", m, "%s: Contains(%v) is false on a tree whose root has no Bounding", desc, pr.q)
		case bounded && pr.inHull && !got:
			c.Violationf("kdtree.Tree.Contains|point-inside-hull-of-stored-points|false", m, "%s: Contains(%v) is false although the query lies in the hull [%v,%v] of the stored points", desc, pr.q, hullMin, hullMax)
		case bounded && got != t.Root.Bounding.Contains(k.mk(pr.q)):
			c.Violationf("kdtree.Tree.Contains|differs-from-root-bounding", m, "%s: Contains(%v)=%v but Root.Bounding.Contains gives %v", desc, pr.q, got, !got)
		}
		if bounded && !pr.inHull {
			if got {
				c.Count("kdtree.contains_true_outside_hull", 1)
			} else {
				c.Count("kdtree.contains_false_outside_hull", 1)
			}
		}
	}
}
