package main

import (
	"fmt"
	"sort"
	"sync/atomic"

	"gonum.org/v1/gonum/spatial/kdtree"
	"gonum.org/v1/gonum/verifx/vrt"
)

// ints is a kdtree.SortSlicer over a slice of ints.
type ints []int

func (a ints) Len() int                         { return len(a) }
func (a ints) Less(i, j int) bool               { return a[i] < a[j] }
func (a ints) Slice(s, e int) kdtree.SortSlicer { return a[s:e] }
func (a ints) Swap(i, j int)                    { a[i], a[j] = a[j], a[i] }

func sortedCopy(a []int) []int {
	s := cloneInts(a)
	sort.Ints(s)
	return s
}

// partitionBroken is set when kdtree.Partition was seen to break its contract.
var partitionBroken atomic.Bool

type medReplay struct {
	In  []int
	Arg int
	Out []int `json:",omitempty"`
	Ret int
}

// runMedians checks the kdtree median helpers against their sort-based
// definitions. Select and MedianOfRandoms draw from the unseedable global
// math/rand/v2 source, so every oracle judges the observed post-state only.
func runMedians(c *vrt.Ctx) {
	// Exhaustive: every sequence over {0,1,2} of length 1..maxLen, every
	// pivot / k.
	maxLen := c.Pick(6, 8)
	var seqs [][]int
	for n := 1; n <= maxLen; n++ {
		total := 1
		for i := 0; i < n; i++ {
			total *= 3
		}
		for code := 0; code < total; code++ {
			s := make([]int, n)
			x := code
			for i := range s {
				s[i] = x % 3
				x /= 3
			}
			seqs = append(seqs, s)
		}
	}
	// Partition first: Select (and through it both median helpers and every
	// kdtree.New) loops until Partition has isolated the kth element, so a
	// Partition that breaks its contract can make them spin forever. If that
	// happens the dependent checks are skipped (and reported as such) instead
	// of hanging the monitor; the Partition violation is the finding.
	vrt.Parallel(len(seqs), func(i int) {
		s := seqs[i]
		for a := 0; a < len(s); a++ {
			checkPartition(c, s, a, "exhaustive")
		}
	})
	if partitionBroken.Load() {
		c.Inconclusive("kdtree.Select/MedianOfMedians/MedianOfRandoms/New", "skipped: kdtree.Partition violated its contract and these routines iterate on it (possible non-termination); trees are built by Insert only")
		return
	}
	vrt.Parallel(len(seqs), func(i int) {
		s := seqs[i]
		for a := 0; a < len(s); a++ {
			checkSelect(c, s, a, "exhaustive")
		}
		checkMedianOfMedians(c, s, "exhaustive")
		for n := 0; n <= len(s)+1; n++ {
			checkMedianOfRandoms(c, s, n, "exhaustive")
		}
	})

	// Seeded: lengths up to 400, heavy ties, sorted / reversed / constant.
	cases := c.Pick(1500, 20000)
	vrt.Parallel(cases, func(i int) {
		r := c.RNG("medians", i)
		n := r.Range(1, 40)
		if i%8 == 0 {
			n = r.Range(41, 400)
		}
		vals := r.PickInt(1, 2, 4, n, 1<<30)
		s := make([]int, n)
		for j := range s {
			s[j] = r.Intn(vals)
		}
		class := "random"
		switch r.Intn(6) {
		case 0:
			sort.Ints(s)
			class = "sorted"
		case 1:
			sort.Sort(sort.Reverse(sort.IntSlice(s)))
			class = "reversed"
		}
		checkPartition(c, s, r.Intn(n), class)
		checkSelect(c, s, r.Intn(n), class)
		checkSelect(c, s, r.PickInt(0, n-1, n/2), class)
		checkMedianOfMedians(c, s, class)
		checkMedianOfRandoms(c, s, r.PickInt(0, 1, 2, n-1, n, n+1, 100, r.Range(0, n)), class)
	})
}

func sameMultiset(a, b []int) bool {
	return equalInts(sortedCopy(a), sortedCopy(b))
}

// checkPartition: "all elements less than the value at pivot prior to the call
// are placed before that element and all elements greater than that value are
// placed after it. The final location of the element at pivot prior to the
// call is returned."
func checkPartition(c *vrt.Ctx, in []int, pivot int, class string) {
	l := ints(cloneInts(in))
	pv := in[pivot]
	var ret int
	rp := medReplay{In: in, Arg: pivot}
	if !guard(c, "kdtree.Partition", fmt.Sprintf("Partition(%v,%d)", in, pivot), rp, func() { ret = kdtree.Partition(l, pivot) }) {
		return
	}
	c.Eval("kdtree.Partition|"+class+"|"+sizeBucket(len(in)), len(in) > 1)
	rp.Out, rp.Ret = l, ret
	switch {
	case !sameMultiset(in, l):
		partitionBroken.Store(true)
		c.Violationf("kdtree.Partition|elements-not-preserved", rp, "Partition(%v,%d) left %v", in, pivot, []int(l))
	case ret < 0 || ret >= len(l) || l[ret] != pv:
		partitionBroken.Store(true)
		c.Violationf("kdtree.Partition|returned-index-not-pivot-location", rp, "Partition(%v,%d) returned %d, list %v, pivot value %d", in, pivot, ret, []int(l), pv)
	default:
		for i, v := range l {
			if (i < ret && v > pv) || (i > ret && v < pv) {
				partitionBroken.Store(true)
				c.Violationf("kdtree.Partition|element-on-wrong-side", rp, "Partition(%v,%d)=%d left %v: element %d at %d is on the wrong side of pivot value %d", in, pivot, ret, []int(l), v, i, pv)
				return
			}
		}
	}
}

// checkSelect: "partitions list such that all elements less than the kth
// element are placed before k in the resulting list and all elements greater
// than it are placed after the position k." The kth element is the kth
// order statistic.
func checkSelect(c *vrt.Ctx, in []int, k int, class string) {
	l := ints(cloneInts(in))
	rp := medReplay{In: in, Arg: k}
	if !guard(c, "kdtree.Select", fmt.Sprintf("Select(%v,%d)", in, k), rp, func() { rp.Ret = kdtree.Select(l, k) }) {
		return
	}
	c.Eval("kdtree.Select|"+class+"|"+sizeBucket(len(in)), len(in) > 1)
	rp.Out = l
	srt := sortedCopy(in)
	switch {
	case !sameMultiset(in, l):
		c.Violationf("kdtree.Select|elements-not-preserved", rp, "Select(%v,%d) left %v", in, k, []int(l))
	case l[k] != srt[k]:
		c.Violationf("kdtree.Select|kth-element-not-kth-order-statistic", rp, "Select(%v,%d) left %v: element at k is %d, sorted[k] is %d", in, k, []int(l), l[k], srt[k])
	default:
		for i, v := range l {
			if (i < k && v > l[k]) || (i > k && v < l[k]) {
				c.Violationf("kdtree.Select|element-on-wrong-side", rp, "Select(%v,%d) left %v: element %d at %d is on the wrong side", in, k, []int(l), v, i)
				return
			}
		}
	}
}

// checkMedianOfMedians: "returns the index to the median value of the medians
// of groups of 5 consecutive elements." With n = len/5 full groups the
// answer is the element of rank n/2 among the group medians (the function
// returns n/2 after selecting within the medians it moved to the front).
//
// Documented-behaviour exclusion: when len is a multiple of 5 the
// implementation slices the last group to 4 elements (min(left+5, Len-1)),
// so that group's "median" is the 3rd smallest of its first four elements.
// The result is still a median of group representatives and the function is
// only a pivot heuristic, so both values are accepted for that one group.
func checkMedianOfMedians(c *vrt.Ctx, in []int, class string) {
	l := ints(cloneInts(in))
	rp := medReplay{In: in}
	if !guard(c, "kdtree.MedianOfMedians", fmt.Sprintf("MedianOfMedians(%v)", in), rp, func() { rp.Ret = kdtree.MedianOfMedians(l) }) {
		return
	}
	n := len(in) / 5
	c.Eval("kdtree.MedianOfMedians|"+class+"|"+sizeBucket(len(in)), n > 0)
	rp.Out = l
	if !sameMultiset(in, l) {
		c.Violationf("kdtree.MedianOfMedians|elements-not-preserved", rp, "MedianOfMedians(%v) left %v", in, []int(l))
		return
	}
	if rp.Ret < 0 || rp.Ret >= len(l) {
		c.Violationf("kdtree.MedianOfMedians|index-out-of-range", rp, "MedianOfMedians(%v) returned %d", in, rp.Ret)
		return
	}
	if n == 0 {
		return
	}
	med := make([]int, n)
	for g := 0; g < n; g++ {
		med[g] = sortedCopy(in[5*g : 5*g+5])[2]
	}
	want := sortedCopy(med)[n/2]
	got := l[rp.Ret]
	if got == want {
		return
	}
	if len(in)%5 == 0 {
		alt := cloneInts(med)
		alt[n-1] = sortedCopy(in[5*(n-1) : 5*(n-1)+4])[2]
		if got == sortedCopy(alt)[n/2] {
			c.Count("medians.median_of_medians_last_group_of_4_quirk", 1)
			return
		}
	}
	c.Violationf("kdtree.MedianOfMedians|not-median-of-group-medians", rp, "MedianOfMedians(%v) returned index %d holding %d; the median of the group medians %v is %d", in, rp.Ret, got, med, want)
}

// checkMedianOfRandoms: "returns the index to the median value of up to n
// randomly chosen elements in list": afterwards the returned index must hold
// the element of rank n'/2 of the first n' = min(n, len) elements (the chosen
// ones), and when n >= len the chosen ones are all elements.
func checkMedianOfRandoms(c *vrt.Ctx, in []int, n int, class string) {
	l := ints(cloneInts(in))
	rp := medReplay{In: in, Arg: n}
	if !guard(c, "kdtree.MedianOfRandoms", fmt.Sprintf("MedianOfRandoms(%v,%d)", in, n), rp, func() { rp.Ret = kdtree.MedianOfRandoms(l, n) }) {
		return
	}
	m := min(n, len(in))
	c.Eval("kdtree.MedianOfRandoms|"+class+"|"+sizeBucket(len(in)), m > 1)
	rp.Out = l
	if !sameMultiset(in, l) {
		c.Violationf("kdtree.MedianOfRandoms|elements-not-preserved", rp, "MedianOfRandoms(%v,%d) left %v", in, n, []int(l))
		return
	}
	if m == 0 {
		return
	}
	if rp.Ret < 0 || rp.Ret >= m {
		c.Violationf("kdtree.MedianOfRandoms|index-outside-sample", rp, "MedianOfRandoms(%v,%d) returned %d", in, n, rp.Ret)
		return
	}
	if want := sortedCopy(l[:m])[m/2]; l[rp.Ret] != want {
		c.Violationf("kdtree.MedianOfRandoms|not-median-of-sample", rp, "MedianOfRandoms(%v,%d) returned index %d holding %d; the median of the sampled prefix %v is %d", in, n, rp.Ret, l[rp.Ret], []int(l[:m]), want)
	}
}
