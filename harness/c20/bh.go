package main

import (
	"fmt"
	"math"
	"strings"
	"sync"

	"gonum.org/v1/gonum/spatial/barneshut"
	"gonum.org/v1/gonum/spatial/r2"
	"gonum.org/v1/gonum/spatial/r3"
	"gonum.org/v1/gonum/verifx/vrt"
)

// bhPart is a particle usable in a Plane and in a Volume. It is used through
// a pointer so that the harness can move it (Reset semantics) and identify
// it in the force-callback ledger.
type bhPart struct {
	X  [3]float64
	M  float64
	ID int
}

func (p *bhPart) Coord2() r2.Vec { return r2.Vec{X: p.X[0], Y: p.X[1]} }
func (p *bhPart) Coord3() r3.Vec { return r3.Vec{X: p.X[0], Y: p.X[1], Z: p.X[2]} }
func (p *bhPart) Mass() float64  { return p.M }

// bhCall is one invocation of the force function observed during ForceOn.
type bhCall struct {
	P2 *bhPart // nil: aggregate mass centre
	M2 float64
	V  [3]float64
}

// bhBandC is the constant of the rounding band c*N*u*sum|f_i| (per
// component) admitted between ForceOn and the compensated direct sum. Both
// are sums of the same N terms (each term carrying a few ulps of its own
// error); the worst observed ratio err/(N*u*sum|f_i|) on the pinned tree over
// seeds {1,2,3,7,42} is below 0.5, see note barneshut.worst_band_ratio.
const bhBandC = 64.0

// thetaTiny is the smallest positive opening angle: the acceptance test
// s/d < theta can then never succeed for a cell of positive size, so the tree
// walk must visit every particle individually and the result must again be
// the direct pairwise sum. This extends the theta=0 clause of the property
// (for which ForceOn bypasses the tree altogether) to the tree itself.
const thetaTiny = math.SmallestNonzeroFloat64

type bhSystem struct {
	dim   int // 2 or 3
	parts []*bhPart
	class string
	mass  string
}

func (s *bhSystem) replay(q *bhPart, theta float64) map[string]any {
	pts := make([][]float64, 0, len(s.parts))
	for i, p := range s.parts {
		if i >= 40 {
			break
		}
		pts = append(pts, append(cloneFloats(p.X[:s.dim]), p.M))
	}
	m := map[string]any{"dim": s.dim, "class": s.class, "mass": s.mass, "n": len(s.parts), "particles_xyz_m": pts, "theta": theta}
	if q != nil {
		m["query_xyz_m"] = append(cloneFloats(q.X[:s.dim]), q.M)
		m["query_is_member"] = q.ID >= 0
	}
	return m
}

func genBHSystem(r *vrt.Rand, dim, n int) *bhSystem {
	s := &bhSystem{dim: dim}
	s.class = []string{"continuous", "lattice", "collinear", "clustered"}[r.Intn(4)]
	s.mass = []string{"unit", "random"}[r.Intn(2)]
	used := map[[3]float64]bool{}
	// Lattice side: at least 8, and at least 4n sites so that n distinct
	// sites exist and rejection sampling terminates quickly.
	side := 8
	for sites := 64 * (1 + 7*(dim-2)); sites < 4*n; side++ {
		sites = (side + 1) * (side + 1)
		if dim == 3 {
			sites *= side + 1
		}
	}
	for len(s.parts) < n {
		var x [3]float64
		switch s.class {
		case "continuous":
			for d := 0; d < dim; d++ {
				x[d] = r.Uniform(-100, 100)
			}
		case "lattice":
			for d := 0; d < dim; d++ {
				x[d] = float64(r.Intn(side))
			}
		case "collinear":
			x[0] = r.Uniform(-100, 100)
			for d := 1; d < dim; d++ {
				x[d] = 3
			}
		case "clustered":
			base := float64(r.Intn(2)) * 1000
			for d := 0; d < dim; d++ {
				x[d] = base + r.Uniform(0, 1e-3)
			}
		}
		if used[x] {
			continue
		}
		used[x] = true
		m := 1.0
		if s.mass == "random" {
			m = r.Uniform(0.1, 10)
		}
		s.parts = append(s.parts, &bhPart{X: x, M: m, ID: len(s.parts)})
	}
	return s
}

// bhField abstracts Plane and Volume.
type bhField interface {
	forceOn(q *bhPart, theta float64) (f [3]float64, calls []bhCall)
	reset() error
}

type bhPlane struct{ p *barneshut.Plane }

func (b bhPlane) reset() error { return b.p.Reset() }
func (b bhPlane) forceOn(q *bhPart, theta float64) ([3]float64, []bhCall) {
	var calls []bhCall
	v := b.p.ForceOn(q, theta, func(p1, p2 barneshut.Particle2, m1, m2 float64, v r2.Vec) r2.Vec {
		cl := bhCall{M2: m2, V: [3]float64{v.X, v.Y, 0}}
		if p2 != nil {
			cl.P2 = p2.(*bhPart)
		}
		calls = append(calls, cl)
		return barneshut.Gravity2(p1, p2, m1, m2, v)
	})
	return [3]float64{v.X, v.Y, 0}, calls
}

type bhVolume struct{ p *barneshut.Volume }

func (b bhVolume) reset() error { return b.p.Reset() }
func (b bhVolume) forceOn(q *bhPart, theta float64) ([3]float64, []bhCall) {
	var calls []bhCall
	v := b.p.ForceOn(q, theta, func(p1, p2 barneshut.Particle3, m1, m2 float64, v r3.Vec) r3.Vec {
		cl := bhCall{M2: m2, V: [3]float64{v.X, v.Y, v.Z}}
		if p2 != nil {
			cl.P2 = p2.(*bhPart)
		}
		calls = append(calls, cl)
		return barneshut.Gravity3(p1, p2, m1, m2, v)
	})
	return [3]float64{v.X, v.Y, v.Z}, calls
}

func (s *bhSystem) build() (bhField, error) {
	if s.dim == 2 {
		ps := make([]barneshut.Particle2, len(s.parts))
		for i, p := range s.parts {
			ps[i] = p
		}
		pl, err := barneshut.NewPlane(ps)
		if err != nil {
			return nil, err
		}
		return bhPlane{pl}, nil
	}
	ps := make([]barneshut.Particle3, len(s.parts))
	for i, p := range s.parts {
		ps[i] = p
	}
	vl, err := barneshut.NewVolume(ps)
	if err != nil {
		return nil, err
	}
	return bhVolume{vl}, nil
}

func (s *bhSystem) typeName() string {
	if s.dim == 2 {
		return "barneshut.Plane"
	}
	return "barneshut.Volume"
}

// directSum is the O(N) reference for the force on q: the compensated sum
// of the pairwise gravity terms, together with sum|f_i| per component.
func (s *bhSystem) directSum(q *bhPart) (f, abs [3]float64) {
	var acc [3]vrt.KSum
	for _, e := range s.parts {
		var v [3]float64
		d2 := 0.0
		for d := 0; d < s.dim; d++ {
			v[d] = e.X[d] - q.X[d]
		}
		// Same association as Gravity2/Gravity3 (x*x + y*y [+ z*z]).
		d2 = v[0]*v[0] + v[1]*v[1]
		if s.dim == 3 {
			d2 += v[2] * v[2]
		}
		if d2 == 0 {
			continue
		}
		k := (q.M * e.M) / (d2 * math.Sqrt(d2))
		for d := 0; d < s.dim; d++ {
			acc[d].Add(k * v[d])
			abs[d] += math.Abs(k * v[d])
		}
	}
	for d := range f {
		f[d] = acc[d].Sum()
	}
	return f, abs
}

func runBarnesHut(c *vrt.Ctx) {
	cases := c.Pick(600, 6000)
	var worst float64
	var mu sync.Mutex
	vrt.Parallel(cases, func(i int) {
		r := c.RNG("barneshut", i)
		dim := 2 + i%2
		n := r.PickInt(0, 1, 2, 3, 4, 5, 8, 17, 33, 64)
		if i%10 == 0 {
			n = r.Range(65, c.Pick(300, 2000))
		}
		s := genBHSystem(r, dim, n)
		w := bhCase(c, r, s, i)
		mu.Lock()
		if w > worst {
			worst = w
		}
		mu.Unlock()
	})
	c.Note("barneshut.worst_band_ratio", fmt.Sprintf("%.4f", worst))
	c.Note("barneshut.worst_moment_ratio", fmt.Sprintf("%.4f", bhMomentWorst.r))
}

func bhCase(c *vrt.Ctx, r *vrt.Rand, s *bhSystem, idx int) (worst float64) {
	tn := s.typeName()
	desc := fmt.Sprintf("%s case %d class=%s mass=%s n=%d", tn, idx, s.class, s.mass, len(s.parts))
	var fld bhField
	var err error
	c.LastCase(desc)
	if p := vrt.Try(func() { fld, err = s.build() }); p != nil {
		if strings.Contains(p.Msg, "out of range") {
			// Only reachable under -tags bounds: a particle was handed to a
			// cell whose bounds do not contain it.
			c.Violationf("barneshut.New"+tn[10:]+"|bounds-tag|particle-outside-cell-bounds", s.replay(nil, 0), "%s: %s", desc, p.Msg)
		} else {
			c.Violationf("barneshut.New"+tn[10:]+"|unexpected-panic", s.replay(nil, 0), "%s: panic %q\n%s", desc, p.Msg, p.Stack)
		}
		return 0
	}
	key := fmt.Sprintf("%s|%s|%s|%s", tn, s.class, s.mass, sizeBucket(len(s.parts)))
	c.Eval("New"+key, len(s.parts) > 1)
	if err != nil {
		// Documented: a non-nil error when the extent is too large for the
		// coordinates to be told apart. That cannot be the case for distinct
		// particles separated by far more than an ulp of the extent (every
		// class but "clustered"; there the error is admissible and counted).
		c.Count("barneshut.new_returned_error", 1)
		if s.class != "clustered" {
			c.Violationf("barneshut.New"+tn[10:]+"|well-separated-distinct-particles|error", s.replay(nil, 0), "%s: %v", desc, err)
		}
		return 0
	}
	if c.WantSample() && len(s.parts) == 5 {
		c.Sample(map[string]any{"check": "barneshut theta=0 and theta->0+ vs direct sum", "system": s.replay(nil, 0)})
	}

	// Queries: members, an outside particle, and an outside particle sitting
	// exactly on a member.
	var qs []*bhPart
	for k := 0; k < len(s.parts) && k < 6; k++ {
		qs = append(qs, s.parts[r.Intn(len(s.parts))])
	}
	ext := &bhPart{M: r.Uniform(0.5, 2), ID: -1}
	for d := 0; d < s.dim; d++ {
		ext.X[d] = r.Uniform(-120, 120)
	}
	qs = append(qs, ext)
	if len(s.parts) > 0 {
		on := &bhPart{X: s.parts[r.Intn(len(s.parts))].X, M: 1.5, ID: -1}
		qs = append(qs, on)
	}

	clean := true // no violation witnessed on this system so far
	check := func(phase string, theta float64, tclass string) {
		for _, q := range qs {
			var f [3]float64
			var calls []bhCall
			rp := s.replay(q, theta)
			rp["phase"] = phase
			if !guard(c, tn+".ForceOn|"+tclass, desc+" "+phase, rp, func() { f, calls = fld.forceOn(q, theta) }) {
				clean = false
				return
			}
			c.Eval(tn+".ForceOn|"+tclass+"|"+phase+"|"+s.class+"|"+s.mass+"|"+sizeBucket(len(s.parts)), len(s.parts) > 1)
			want, abs := s.directSum(q)
			rp["got"], rp["direct_sum"] = f[:s.dim], want[:s.dim]

			// Ledger: with a zero opening angle every particle interacts
			// individually, exactly once, as itself.
			cnt := make(map[*bhPart]int, len(calls))
			var aggregate, badLeaf *bhCall
			for k := range calls {
				cl := &calls[k]
				if cl.P2 == nil {
					aggregate = cl
					continue
				}
				cnt[cl.P2]++
				var off [3]float64
				for d := 0; d < s.dim; d++ {
					off[d] = cl.P2.X[d] - q.X[d]
				}
				if (off != cl.V || cl.M2 != cl.P2.M) && badLeaf == nil {
					badLeaf = cl
				}
			}
			sig := tn + ".ForceOn|" + tclass
			switch {
			case aggregate != nil:
				clean = false
				c.Violationf(sig+"|aggregate-mass-centre-used", rp, "%s %s: force function called with p2=nil (aggregate, m2=%v) although the opening angle is %v", desc, phase, aggregate.M2, theta)
				continue
			case badLeaf != nil:
				clean = false
				c.Violationf(sig+"|particle-passed-with-wrong-offset-or-mass", rp,
					"%s %s: force function called for particle at %v mass %v with v=%v m2=%v; query at %v, so v should be %v (leaf centre is not the particle coordinate)",
					desc, phase, badLeaf.P2.X[:s.dim], badLeaf.P2.M, badLeaf.V[:s.dim], badLeaf.M2, q.X[:s.dim],
					[]float64{badLeaf.P2.X[0] - q.X[0], badLeaf.P2.X[1] - q.X[1], badLeaf.P2.X[2] - q.X[2]}[:s.dim])
				continue
			}
			miss := len(calls) != len(s.parts)
			for _, p := range s.parts {
				if cnt[p] != 1 {
					miss = true
				}
			}
			if miss {
				clean = false
				c.Violationf(sig+"|particles-not-each-visited-once", rp, "%s %s: %d force evaluations for %d particles", desc, phase, len(calls), len(s.parts))
				continue
			}
			for d := 0; d < s.dim; d++ {
				band := float64(len(s.parts)) * vrt.Eps64 * abs[d]
				errd := math.Abs(f[d] - want[d])
				if band > 0 {
					if ratio := errd / band; ratio > worst {
						worst = ratio
					}
				}
				if !(errd <= bhBandC*band) {
					clean = false
					c.Violationf(sig+"|differs-from-direct-pairwise-sum", rp, "%s %s: component %d: ForceOn=%v direct sum=%v |diff|=%.3g band=%.3g", desc, phase, d, f[d], want[d], errd, bhBandC*band)
					break
				}
			}
		}
	}

	check("built", 0, "theta=0")
	check("built", thetaTiny, "theta-smallest-positive")
	if clean {
		// Only on systems whose leaves were just seen to be right, so that one
		// defect keeps one signature.
		bhMoments(c, s, fld, qs, desc)
	}

	// "Reset must be called if ... elements of Particles have been altered,
	// unless ForceOn is called with theta=0": move the particles, query with
	// theta=0 without Reset, then Reset and query through the tree again.
	if len(s.parts) > 0 && s.class != "clustered" {
		for _, p := range s.parts {
			for d := 0; d < s.dim; d++ {
				if s.class == "collinear" && d > 0 {
					continue
				}
				p.X[d] += float64(r.Range(-3, 3)) * 1024 // all coordinates are < 1024 in magnitude, so distinct points stay distinct
			}
		}
		check("moved-no-reset", 0, "theta=0")
		var rerr error
		ok := true
		c.LastCase(desc + " Reset")
		if p := vrt.Try(func() { rerr = fld.reset() }); p != nil {
			ok = false
			if strings.Contains(p.Msg, "out of range") {
				c.Violationf("barneshut.New"+tn[10:]+"|bounds-tag|particle-outside-cell-bounds", s.replay(nil, 0), "%s Reset: %s", desc, p.Msg)
			} else {
				c.Violationf(tn+".Reset|unexpected-panic", s.replay(nil, 0), "%s: panic %q\n%s", desc, p.Msg, p.Stack)
			}
		}
		c.Eval(tn+".Reset|"+s.class, len(s.parts) > 1)
		if ok && rerr == nil {
			check("moved-reset", thetaTiny, "theta-smallest-positive")
		} else if rerr != nil {
			c.Count("barneshut.reset_returned_error", 1)
			c.Violationf(tn+".Reset|well-separated-distinct-particles|error", s.replay(nil, 0), "%s: Reset after moving the particles: %v", desc, rerr)
		}
	}
	return worst
}

// bhMomentBandC bounds the rounding of the mass and first-moment sums of
// bhMoments: band = c*(N+64)*u*sum_i m_i(|x_i|+|q|). The +64 covers the
// per-level rounding of the tree's own centre-of-mass recursion on deep
// trees with few particles. Worst observed ratio on the pinned tree (unit
// masses) and on the repaired scratch tree (random masses) over seeds
// {1,2,3,7,42}: see note barneshut.worst_moment_ratio (< 0.05).
const bhMomentBandC = 64.0

var bhMomentWorst struct {
	sync.Mutex
	r float64
}

// bhMoments is an extension beyond the theta=0 clause: for practical opening
// angles the force function is called once per opened leaf (p2 = the
// particle) or per accepted cell (p2 = nil, m2 = cell mass, v = cell centre
// of mass - query). Whatever cells are accepted, every particle is accounted
// for exactly once, so the calls must conserve total mass and the total
// first moment sum m_i x_i (definition of a centre of mass). This observes
// the aggregate data (summarize) that theta=0 never touches.
func bhMoments(c *vrt.Ctx, s *bhSystem, fld bhField, qs []*bhPart, desc string) {
	n := len(s.parts)
	if n < 2 {
		return
	}
	tn := s.typeName()
	var mass float64
	var mom, scale [3]float64
	for _, p := range s.parts {
		mass += p.M
		for d := 0; d < s.dim; d++ {
			mom[d] += p.M * p.X[d]
		}
	}
	for _, theta := range []float64{0.5, 1.1} {
		for _, q := range qs {
			var calls []bhCall
			rp := s.replay(q, theta)
			if !guard(c, tn+".ForceOn|theta-practical", desc+" moments", rp, func() { _, calls = fld.forceOn(q, theta) }) {
				return
			}
			aggregates := 0
			var gm float64
			var gmom [3]float64
			for _, cl := range calls {
				if cl.P2 == nil {
					aggregates++
				}
				gm += cl.M2
				for d := 0; d < s.dim; d++ {
					gmom[d] += cl.M2 * (cl.V[d] + q.X[d])
				}
			}
			c.Eval(fmt.Sprintf("%s.ForceOn|theta=%v|%s|%s|%s", tn, theta, s.class, s.mass, sizeBucket(n)), aggregates > 0)
			for d := 0; d < s.dim; d++ {
				scale[d] = 0
				for _, p := range s.parts {
					scale[d] += p.M * (math.Abs(p.X[d]) + math.Abs(q.X[d]))
				}
			}
			unit := float64(n+64) * vrt.Eps64
			bad := ""
			if e := math.Abs(gm - mass); e > bhMomentBandC*unit*mass {
				bad = fmt.Sprintf("total mass seen by the force function %v, particles have %v", gm, mass)
			} else if mass > 0 {
				noteMoment(e / (unit * mass))
			}
			for d := 0; d < s.dim && bad == ""; d++ {
				e := math.Abs(gmom[d] - mom[d])
				if e > bhMomentBandC*unit*scale[d] {
					bad = fmt.Sprintf("first moment component %d seen by the force function %v, particles have %v (band %.3g)", d, gmom[d], mom[d], bhMomentBandC*unit*scale[d])
				} else if scale[d] > 0 {
					noteMoment(e / (unit * scale[d]))
				}
			}
			if bad != "" {
				rp["calls"], rp["aggregate_calls"] = len(calls), aggregates
				c.Violationf(tn+".ForceOn|theta-practical|mass-or-first-moment-not-conserved", rp, "%s theta=%v: %d calls (%d aggregates): %s", desc, theta, len(calls), aggregates, bad)
				return
			}
		}
	}
}

func noteMoment(r float64) {
	bhMomentWorst.Lock()
	if r > bhMomentWorst.r {
		bhMomentWorst.r = r
	}
	bhMomentWorst.Unlock()
}

// runRace exercises the documented concurrency guarantee "It is safe to call
// ForceOn concurrently" under the race detector and checks that concurrent
// answers are bit-identical to serial ones.
func runRace(c *vrt.Ctx) {
	for _, dim := range []int{2, 3} {
		for rep := 0; rep < c.Pick(2, 6); rep++ {
			r := c.RNG("bh-race", dim, rep)
			s := genBHSystem(r, dim, 400)
			s.class, s.mass = "continuous", "unit"
			fld, err := s.build()
			if err != nil {
				continue
			}
			thetas := []float64{0, 0.5, 1.2}
			serial := make(map[float64][][3]float64)
			for _, th := range thetas {
				for _, q := range s.parts {
					f, _ := fld.forceOn(q, th)
					serial[th] = append(serial[th], f)
				}
			}
			var wg sync.WaitGroup
			for g := 0; g < 8; g++ {
				wg.Add(1)
				go func(g int) {
					defer wg.Done()
					for _, th := range thetas {
						for k, q := range s.parts {
							f, _ := fld.forceOn(q, th)
							c.Eval(fmt.Sprintf("%s.ForceOn|concurrent|theta=%v", s.typeName(), th), true)
							if f != serial[th][k] {
								c.Violationf(s.typeName()+".ForceOn|concurrent|differs-from-serial", s.replay(q, th), "goroutine %d: %v vs serial %v", g, f, serial[th][k])
							}
						}
					}
				}(g)
			}
			wg.Wait()
		}
	}
}
