package main

import (
	"fmt"

	"gonum.org/v1/gonum/spatial/r2"
	"gonum.org/v1/gonum/spatial/r3"
	"gonum.org/v1/gonum/verifx/vrt"
)

// runBox checks the r2/r3 Box helpers only as far as the property speaks
// about them: boxes built from points contain those points. NewBox/Canon
// must contain both defining corners, Contains must agree with the
// coordinate-wise definition on non-empty boxes, the vertices of a box lie in
// it and the Union of two non-empty boxes contains every point of either.
// (Boxes of zero volume are "Empty" by the documented definition and follow
// different, documented rules; they are not judged here.)
func runBox(c *vrt.Ctx) {
	cases := c.Pick(4000, 40000)
	vrt.Parallel(cases, func(i int) {
		r := c.RNG("box", i)
		lattice := i%2 == 0
		coord := func() float64 {
			if lattice {
				return float64(r.Intn(4))
			}
			return r.Uniform(-10, 10)
		}
		class := "continuous"
		if lattice {
			class = "lattice"
		}
		// r2
		{
			x0, y0, x1, y1 := coord(), coord(), coord(), coord()
			rp := map[string]any{"corners": []float64{x0, y0, x1, y1}}
			guard(c, "r2.Box", fmt.Sprintf("r2 box %v", rp), rp, func() {
				b := r2.NewBox(x0, y0, x1, y1)
				cb := r2.Box{Min: r2.Vec{X: x0, Y: y0}, Max: r2.Vec{X: x1, Y: y1}}.Canon()
				c.EvalN("r2.NewBox+Canon|"+class, 2, true)
				if b != cb {
					c.Violationf("r2.Box.Canon|differs-from-NewBox", rp, "NewBox=%v Canon=%v", b, cb)
				}
				if b.Empty() {
					return
				}
				for _, p := range []r2.Vec{{X: x0, Y: y0}, {X: x1, Y: y1}, {X: x0, Y: y1}} {
					if !b.Contains(p) {
						c.Violationf("r2.NewBox|defining-corner-not-contained", rp, "box %v does not contain %v", b, p)
					}
				}
				for _, v := range b.Vertices() {
					if !b.Contains(v) {
						c.Violationf("r2.Box.Vertices|vertex-not-contained", rp, "box %v does not contain its vertex %v", b, v)
					}
				}
				c.EvalN("r2.Box.Contains|"+class, 7, true)
				o := r2.NewBox(coord(), coord(), coord(), coord())
				if o.Empty() {
					return
				}
				u := b.Union(o)
				c.Eval("r2.Box.Union|"+class, true)
				for k := 0; k < 6; k++ {
					p := r2.Vec{X: coord(), Y: coord()}
					in := func(q r2.Box) bool {
						return q.Min.X <= p.X && p.X <= q.Max.X && q.Min.Y <= p.Y && p.Y <= q.Max.Y
					}
					c.EvalN("r2.Box.Contains|"+class, 3, true)
					if b.Contains(p) != in(b) {
						c.Violationf("r2.Box.Contains|differs-from-coordinatewise-definition", rp, "box %v point %v: Contains=%v", b, p, b.Contains(p))
					}
					if (b.Contains(p) || o.Contains(p)) && !u.Contains(p) {
						c.Violationf("r2.Box.Union|point-of-operand-not-contained", rp, "Union(%v,%v)=%v does not contain %v", b, o, u, p)
					}
				}
			})
		}
		// r3
		{
			x0, y0, z0, x1, y1, z1 := coord(), coord(), coord(), coord(), coord(), coord()
			rp := map[string]any{"corners": []float64{x0, y0, z0, x1, y1, z1}}
			guard(c, "r3.Box", fmt.Sprintf("r3 box %v", rp), rp, func() {
				b := r3.NewBox(x0, y0, z0, x1, y1, z1)
				cb := r3.Box{Min: r3.Vec{X: x0, Y: y0, Z: z0}, Max: r3.Vec{X: x1, Y: y1, Z: z1}}.Canon()
				c.EvalN("r3.NewBox+Canon|"+class, 2, true)
				if b != cb {
					c.Violationf("r3.Box.Canon|differs-from-NewBox", rp, "NewBox=%v Canon=%v", b, cb)
				}
				if b.Empty() {
					return
				}
				for _, p := range []r3.Vec{{X: x0, Y: y0, Z: z0}, {X: x1, Y: y1, Z: z1}, {X: x0, Y: y1, Z: z0}} {
					if !b.Contains(p) {
						c.Violationf("r3.NewBox|defining-corner-not-contained", rp, "box %v does not contain %v", b, p)
					}
				}
				for _, v := range b.Vertices() {
					if !b.Contains(v) {
						c.Violationf("r3.Box.Vertices|vertex-not-contained", rp, "box %v does not contain its vertex %v", b, v)
					}
				}
				c.EvalN("r3.Box.Contains|"+class, 11, true)
				o := r3.NewBox(coord(), coord(), coord(), coord(), coord(), coord())
				if o.Empty() {
					return
				}
				u := b.Union(o)
				c.Eval("r3.Box.Union|"+class, true)
				for k := 0; k < 6; k++ {
					p := r3.Vec{X: coord(), Y: coord(), Z: coord()}
					in := func(q r3.Box) bool {
						return q.Min.X <= p.X && p.X <= q.Max.X && q.Min.Y <= p.Y && p.Y <= q.Max.Y && q.Min.Z <= p.Z && p.Z <= q.Max.Z
					}
					c.EvalN("r3.Box.Contains|"+class, 3, true)
					if b.Contains(p) != in(b) {
						c.Violationf("r3.Box.Contains|differs-from-coordinatewise-definition", rp, "box %v point %v: Contains=%v", b, p, b.Contains(p))
					}
					if (b.Contains(p) || o.Contains(p)) && !u.Contains(p) {
						c.Violationf("r3.Box.Union|point-of-operand-not-contained", rp, "Union(%v,%v)=%v does not contain %v", b, o, u, p)
					}
				}
			})
		}
	})
}
