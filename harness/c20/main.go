// Command c20 is the runtime monitor for property C20: spatial indexes equal
// a linear scan; curves and enumerations are bijections.
//
// It drives the real gonum code of spatial/kdtree, spatial/vptree,
// spatial/barneshut, spatial/curve, spatial/r2, spatial/r3 and stat/combin
// with exhaustive small scopes and seeded hostile generators and compares
// every observed answer with a brute-force reference (linear scan with the
// tree's own distance function, direct O(N^2) force sum, bitmap/adjacency
// enumeration, naive recursive generators, big.Int counts).
package main

import (
	"flag"
	"fmt"
	"time"

	"gonum.org/v1/gonum/verifx/vrt"
)

var mode = flag.String("mode", "all", "all | bounds (Barnes-Hut under -tags bounds) | race (concurrent ForceOn / queries under -race)")

func main() { vrt.Main("C20", run) }

type section struct {
	name string
	f    func(*vrt.Ctx)
}

func run(c *vrt.Ctx) {
	var secs []section
	switch *mode {
	case "bounds":
		secs = []section{{"barneshut", runBarnesHut}}
	case "race":
		secs = []section{{"race", runRace}}
	default:
		secs = []section{
			{"hilbert", runHilbert},
			{"combin", runCombin},
			{"medians", runMedians},
			{"box", runBox},
			{"barneshut", runBarnesHut},
			{"kdtree", runKD},
			{"vptree", runVP},
		}
	}
	for _, s := range secs {
		t0 := time.Now()
		s.f(c)
		// Wall time is reported for budgeting only; no oracle depends on it.
		c.Note("section_wall_s."+s.name, fmt.Sprintf("%.2f", time.Since(t0).Seconds()))
	}
	bandWorst.Lock()
	c.Note("vptree.rounding_band_worst_fraction_used", fmt.Sprintf("%.4f", bandWorst.ratio))
	bandWorst.Unlock()
}

// guard runs f and turns an unexpected panic of gonum code into a violation
// with signature sig+"|unexpected-panic". It returns true when f completed.
func guard(c *vrt.Ctx, sig, desc string, replay any, f func()) bool {
	c.LastCase(desc)
	p := vrt.Try(f)
	if p == nil {
		return true
	}
	c.Violationf(sig+"|unexpected-panic", replay, "%s: panic %q\n%s", desc, p.Msg, p.Stack)
	return false
}

// panics reports whether f panicked (used for documented rejections).
func panics(f func()) (bool, string) {
	p := vrt.Try(f)
	if p == nil {
		return false, ""
	}
	return true, p.Msg
}

func dimBucket(d int) string { return fmt.Sprintf("d%d", d) }

func sizeBucket(n int) string {
	switch {
	case n == 0:
		return "n0"
	case n == 1:
		return "n1"
	case n <= 4:
		return "n2-4"
	case n <= 16:
		return "n5-16"
	case n <= 64:
		return "n17-64"
	case n <= 256:
		return "n65-256"
	default:
		return "n257+"
	}
}

func equalInts(a, b []int) bool {
	if len(a) != len(b) {
		return false
	}
	for i := range a {
		if a[i] != b[i] {
			return false
		}
	}
	return true
}

func cloneInts(a []int) []int { return append([]int(nil), a...) }

func cloneFloats(a []float64) []float64 { return append([]float64(nil), a...) }

// capPoints returns at most max points as plain slices for a replay object.
func capPoints(p [][]float64, max int) [][]float64 {
	if len(p) > max {
		p = p[:max]
	}
	out := make([][]float64, len(p))
	for i := range p {
		out[i] = cloneFloats(p[i])
	}
	return out
}
