#!/bin/bash
# Mutation self-test for the C20 monitor.
#
# The pinned tree carries 7 genuine defects that keep the monitor firing, so
# mutants are applied on top of a repaired scratch copy, on which the monitor
# is silent:
#
#   git -C /repo worktree add /tmp/c20-wt HEAD
#   git -C /tmp/c20-wt apply /verif/harness/c20/selftest/fixes.diff
#   /verif/harness/c20/selftest/runmut.sh M1-kd-searchSet-prune-lt [quick|thorough]
#   ...
#   git -C /repo worktree remove --force /tmp/c20-wt; rm -rf /tmp/c20-mut
#
# mutate.py copies /tmp/c20-wt to /tmp/c20-mut and applies the named mutation
# (the names are the keys of MUTS in mutate.py).
export GOFLAGS=-mod=mod GOPROXY=off GOSUMDB=off GOTOOLCHAIN=local
name=$1; tier=${2:-quick}
python3 "$(dirname "$0")/mutate.py" "$name" >/dev/null || { echo "$name APPLY-FAILED"; exit 1; }
out=$(VERIF_REPO=/tmp/c20-mut VERIF_SEED=1 /verif/bin/vctl run C20 --tier "$tier" 2>&1)
echo "== $name [$tier] $(echo "$out" | grep -E '^SUMMARY' | sed 's/.*violations=/violations=/')"
echo "$out" | grep -E "witness|BUILD-FAILED|HARNESS|crash" | sed 's/^  witness \[[a-z]*\] //' | cut -c1-170
