import sys,subprocess,os,re
MUTS = {
 "M1-kd-searchSet-prune-lt": ("spatial/kdtree/kdtree.go", [("""	n.Right.searchSet(q, k)
	if c*c <= k.Max().Dist {""","""	n.Right.searchSet(q, k)
	if c*c < k.Max().Dist {""")]),
 "M2-kd-search-unsquared-plane-dist": ("spatial/kdtree/kdtree.go", [("""		if ld < dist {
			bn, dist = ln, ld
		}
		if c*c < dist {
			rn, rd := n.Right.search(q, dist)""","""		if ld < dist {
			bn, dist = ln, ld
		}
		if -c < dist {
			rn, rd := n.Right.search(q, dist)""")]),
 "M3-kd-NKeeper-no-heap-fix": ("spatial/kdtree/kdtree.go", [("""			k.Heap[0] = c
			heap.Fix(k, 0)""","""			k.Heap[0] = c""")]),
 "M4-kd-insert-extends-only-new-leaf": ("spatial/kdtree/kdtree.go", [("""	if bounding {
		n.Bounding = c.Extend(n.Bounding)
	}
	d = (n.Plane + 1) % Dim(c.Dims())""","""	if bounding && n.Bounding == nil {
		n.Bounding = c.Extend(n.Bounding)
	}
	d = (n.Plane + 1) % Dim(c.Dims())""")]),
 "M5-vp-searchSet-prune-gt": ("spatial/vptree/vptree.go", [("""		n.Closer.searchSet(q, k)
		if d+k.Max().Dist >= n.Radius {""","""		n.Closer.searchSet(q, k)
		if d+k.Max().Dist > n.Radius {""")]),
 "M6-vp-radius-median-off-by-one": ("spatial/vptree/vptree.go", [("radius = b.work[len(b.work)/2]","radius = b.work[(len(b.work)+1)/2]")]),
 "M7-hilbert3d-rot-state": ("spatial/curve/hilbert.go", [("""	case 5, 6:
		do2(reverse, n, v, flip{0, 2}, flip{1, 2})
	case 7:
		do2(reverse, n, v, flip{1, 2}, flip{0, 2})
	}
}

// Pos returns the linear position of the 4-spatial""","""	case 5, 6:
		do2(reverse, n, v, flip{1, 2}, flip{0, 2})
	case 7:
		do2(reverse, n, v, flip{1, 2}, flip{0, 2})
	}
}

// Pos returns the linear position of the 4-spatial""")]),
 "M8-combin-IndexToCombination-off-by-one": ("stat/combin/combin.go", [("""		if m >= k-i {
			idx -= Binomial(m, k-i)""","""		if m > k-i {
			idx -= Binomial(m, k-i)""")]),
 "M9-combin-CombinationIndex-off-by-one": ("stat/combin/combin.go", [("""		if v >= i+1 {
			idx += Binomial(v, i+1)""","""		if v > i+1 {
			idx += Binomial(v, i+1)""")]),
 "M10-bh-theta0-uses-tree": ("spatial/barneshut/barneshut2.go", [("if theta > 0 && q.root != empty {","if theta >= 0 && q.root != empty {")]),
 "M11-kd-insert-ties-go-right": ("spatial/kdtree/kdtree.go", [("""	d = (n.Plane + 1) % Dim(c.Dims())
	if c.Compare(n.Point, n.Plane) <= 0 {
		n.Left = n.Left.insertBounded(c, d, bounding)""","""	d = (n.Plane + 1) % Dim(c.Dims())
	if c.Compare(n.Point, n.Plane) < 0 {
		n.Left = n.Left.insertBounded(c, d, bounding)""")]),
 "M12-kd-DistKeeper-strict": ("spatial/kdtree/kdtree.go", [("""func (k *DistKeeper) Keep(c ComparableDist) {
	if c.Dist <= k.Heap[0].Dist {""","""func (k *DistKeeper) Keep(c ComparableDist) {
	if c.Dist < k.Heap[0].Dist {""")]),
 "M13-hilbert4d-coord-gray-shift": ("spatial/curve/hilbert.go", [("""	case 9, 10:
		do2(reverse, n, v, flip{1, 2}, flip{2, 3})""","""	case 9, 10:
		do2(reverse, n, v, flip{2, 3}, flip{1, 2})""")]),
 "M15-combin-SubFor-stride": ("stat/combin/combin.go", [("""	for i := len(dims) - 1; i >= 1; i-- {
		stride *= dims[i]
	}""","""	for i := len(dims) - 1; i > 1; i-- {
		stride *= dims[i]
	}
	if len(dims) > 1 {
		stride *= dims[len(dims)-1]
	}""")]),
 "M16-partition-skips-first": ("spatial/kdtree/medians.go", [("""	for i := 0; i < last; i++ {
		if !list.Less(last, i) {""","""	for i := 1; i < last; i++ {
		if !list.Less(last, i) {""")]),
 "M19-vp-NKeeper-evicts-last-not-farthest": ("spatial/vptree/vptree.go", [("""		if len(k.Heap) == cap(k.Heap) {
			heap.Pop(k)
		}""","""		if len(k.Heap) == cap(k.Heap) {
			k.Heap = k.Heap[:len(k.Heap)-1]
		}""")]),
 "M22-bh-quadrant-swapped": ("spatial/barneshut/barneshut2.go", [("""		if c.Y < center.Y {
			return nw
		} else {
			return sw
		}""","""		if c.Y < center.Y {
			return sw
		} else {
			return nw
		}""")]),
 "M25-kd-Extend-max-uses-min": ("spatial/kdtree/points.go", [("""		min[d] = math.Min(min[d], v)
		max[d] = math.Max(max[d], v)
	}
	*b = Bounding{Min: min, Max: max}""","""		min[d] = math.Min(min[d], v)
		max[d] = math.Min(max[d], v)
	}
	*b = Bounding{Min: min, Max: max}""")]),
 "M26-bh3-summarize-unweighted": ("spatial/barneshut/barneshut3.go", [("""		b.center.Z += c.Z * m
		b.mass += m""","""		b.center.Z += c.Z
		b.mass += m""")]),
 "M17-perm-index-factorial": ("stat/combin/combin.go", [("idx += less * factorial(len(perm)-i-1)","idx += less * factorial(len(perm)-i)")]),
 "M18-kd-Do-skip-right-of-leafless": ("spatial/kdtree/kdtree.go", [("""	if n.Right != nil {
		done = n.Right.do(fn, depth+1)
	}
	return
}""","""	if n.Right != nil && n.Left != nil {
		done = n.Right.do(fn, depth+1)
	}
	return
}""")]),
}
name=sys.argv[1]
path,edits=MUTS[name]
subprocess.check_call(["rsync","-a","--delete","--exclude",".git","/tmp/c20-wt/","/tmp/c20-mut/"])
p=os.path.join("/tmp/c20-mut",path)
s=open(p).read()
for old,new in edits:
    assert s.count(old)==1,(name,s.count(old))
    s=s.replace(old,new)
open(p,'w').write(s)
print("applied",name)
