package main

import (
	"errors"
	"fmt"
	"math/bits"

	"gonum.org/v1/gonum/spatial/curve"
	"gonum.org/v1/gonum/verifx/vrt"
)

// hcurve is the common method set of curve.Hilbert2D/3D/4D.
type hcurve interface {
	Dims() []int
	Len() int
	Pos(v []int) int
	Coord(dst []int, pos int) []int
}

func newHilbert(dim, order int) (hcurve, error) {
	switch dim {
	case 2:
		h, err := curve.NewHilbert2D(order)
		return h, err
	case 3:
		h, err := curve.NewHilbert3D(order)
		return h, err
	case 4:
		h, err := curve.NewHilbert4D(order)
		return h, err
	}
	panic("bad dim")
}

func hname(dim int) string { return fmt.Sprintf("curve.Hilbert%dD", dim) }

// maxHilbertOrder is the largest order accepted by the constructors:
// n*k <= bits.UintSize-1. Package doc: "Len will overflow if n*k >=
// bits.UintSize-1. Curve [Pos] will overflow if n*k > bits.UintSize-1", and
// the constructors reject only orders for which "Len and Pos" overflow. For
// n*k == bits.UintSize-1 (3-D order 21 on 64-bit) every position 0..2^63-1
// still fits in an int, so the curve is a legal input whose bijection is
// checked on sampled positions; only its Len() is documented to overflow
// (oracle exclusion; gonum's TestConstructors asserts that this order is
// accepted).
func maxHilbertOrder(dim int) int { return (bits.UintSize - 1) / dim }

// lastPos returns the largest position 2^(dim*order)-1 of a legal curve.
func lastPos(dim, order int) int { return int(uint64(1)<<(dim*order) - 1) }

type hilbertReplay struct {
	Dim, Order int
	Pos        int
	Coord      []int `json:",omitempty"`
	Other      []int `json:",omitempty"`
	Got        int   `json:",omitempty"`
}

func runHilbert(c *vrt.Ctx) {
	hilbertConstructors(c)

	// Exhaustive scope. The quick tier already covers the whole scope named in
	// the property (2D <= 8, 3D <= 5, 4D <= 4); thorough goes beyond it.
	maxOrd := map[int]int{2: 8, 3: 5, 4: 4}
	if c.Thorough() {
		maxOrd = map[int]int{2: 11, 3: 7, 4: 5}
	}
	type task struct{ dim, order int }
	var tasks []task
	for _, dim := range []int{2, 3, 4} {
		for o := maxOrd[dim]; o >= 1; o-- {
			tasks = append(tasks, task{dim, o})
		}
	}
	vrt.Parallel(len(tasks), func(i int) {
		hilbertExhaustive(c, tasks[i].dim, tasks[i].order)
	})

	// Sampled positions at every legal order up to the largest one.
	var st []task
	for _, dim := range []int{2, 3, 4} {
		for o := 1; o <= maxHilbertOrder(dim); o++ {
			st = append(st, task{dim, o})
		}
	}
	perOrder := c.Pick(1500, 20000)
	atMax := c.Pick(20000, 100000)
	vrt.Parallel(len(st), func(i int) {
		n := perOrder
		if st[i].order == maxHilbertOrder(st[i].dim) {
			n = atMax
		}
		hilbertSampled(c, st[i].dim, st[i].order, n)
	})
}

// hilbertConstructors checks the documented accept/reject behaviour of the
// constructors: ErrUnderflow for order < 1, ErrOverflow (wrapped) when Len
// and Pos would overflow int, and a usable curve (Len == 2^(n*k) > 0)
// otherwise.
func hilbertConstructors(c *vrt.Ctx) {
	for _, dim := range []int{2, 3, 4} {
		for order := -2; order <= bits.UintSize+2; order++ {
			var h hcurve
			var err error
			rp := hilbertReplay{Dim: dim, Order: order}
			if !guard(c, fmt.Sprintf("curve.NewHilbert%dD", dim), fmt.Sprintf("NewHilbert%dD(%d)", dim, order), rp,
				func() { h, err = newHilbert(dim, order) }) {
				continue
			}
			c.Eval(fmt.Sprintf("NewHilbert%dD|order=%d", dim, order), true)
			sig := fmt.Sprintf("curve.NewHilbert%dD", dim)
			switch {
			case order < 1:
				if !errors.Is(err, curve.ErrUnderflow) {
					c.Violationf(sig+"|order<1|no-ErrUnderflow", rp, "NewHilbert%dD(%d) returned err=%v, want ErrUnderflow", dim, order, err)
				}
			case dim*order > bits.UintSize-1:
				// Positions up to 2^(dim*order)-1 do not fit in int: Len and Pos overflow.
				if !errors.Is(err, curve.ErrOverflow) {
					c.Violationf(sig+"|Len-and-Pos-overflow-int|accepted", rp,
						"NewHilbert%dD(%d) returned err=%v although positions up to 2^(%d*%d)-1 overflow int (doc: returns ErrOverflow if the order would cause Len and Pos to overflow)",
						dim, order, err, dim, order)
				}
			default:
				if err != nil {
					c.Violationf(sig+"|legal-order|rejected", rp, "NewHilbert%dD(%d) returned err=%v for a representable curve", dim, order, err)
					continue
				}
				if dim*order == bits.UintSize-1 {
					// Documented: Len overflows, Pos does not (see maxHilbertOrder).
					c.Count("hilbert.legal_order_with_documented_Len_overflow", 1)
					continue
				}
				want := 1 << (dim * order)
				if h.Len() != want {
					c.Violationf(hname(dim)+".Len|not-2^(n*k)", rp, "Len()=%d want %d", h.Len(), want)
				}
				ds := h.Dims()
				ok := len(ds) == dim
				for _, d := range ds {
					ok = ok && d == 1<<order
				}
				if !ok {
					c.Violationf(hname(dim)+".Dims|not-2^k", rp, "Dims()=%v want %d x %d", ds, dim, 1<<order)
				}
			}
		}
	}
}

func l1(a, b []int) int {
	s := 0
	for i := range a {
		d := a[i] - b[i]
		if d < 0 {
			d = -d
		}
		s += d
	}
	return s
}

func inRange(v []int, dim, order int) bool {
	if len(v) != dim {
		return false
	}
	for _, x := range v {
		if x < 0 || x >= 1<<order {
			return false
		}
	}
	return true
}

// hilbertExhaustive enumerates every position of the curve: Coord must map
// [0,Len) onto the whole grid (bitmap), Pos must invert it, consecutive
// positions must be at L1 distance 1, and Coord into a caller-supplied dst
// must give the same answer as Coord(nil, .).
func hilbertExhaustive(c *vrt.Ctx, dim, order int) {
	name := hname(dim)
	h, err := newHilbert(dim, order)
	if err != nil {
		return // reported by hilbertConstructors
	}
	L := 1 << (dim * order)
	bitmap := make([]uint64, (L+63)/64)
	prev := make([]int, dim)
	w := make([]int, dim)
	dirty := make([]int, dim)
	zero := make([]int, dim)
	seen := 0
	key := fmt.Sprintf("%s|exhaustive|order=%d", name, order)
	bad := func(clause string, rp hilbertReplay, f string, a ...any) {
		c.Violationf(name+clause, rp, "order %d: "+f, append([]any{order}, a...)...)
	}
	c.LastCase(key)
	p := vrt.Try(func() {
		for pos := 0; pos < L; pos++ {
			v := h.Coord(nil, pos)
			if !inRange(v, dim, order) {
				bad(".Coord|coordinate-out-of-grid", hilbertReplay{Dim: dim, Order: order, Pos: pos, Coord: v}, "Coord(nil,%d)=%v outside [0,2^k)^n", pos, v)
				return
			}
			cell := 0
			for i := dim - 1; i >= 0; i-- {
				cell = cell<<order | v[i]
			}
			if bitmap[cell>>6]&(1<<(cell&63)) != 0 {
				bad(".Coord|not-injective", hilbertReplay{Dim: dim, Order: order, Pos: pos, Coord: v}, "Coord(nil,%d)=%v was already produced by a smaller position", pos, v)
				return
			}
			bitmap[cell>>6] |= 1 << (cell & 63)
			seen++
			if pos > 0 && l1(v, prev) != 1 {
				bad("|consecutive-positions-not-adjacent", hilbertReplay{Dim: dim, Order: order, Pos: pos, Coord: v, Other: cloneInts(prev)},
					"Coord(%d)=%v and Coord(%d)=%v are at L1 distance %d", pos-1, prev, pos, v, l1(v, prev))
				return
			}
			copy(w, v)
			if got := h.Pos(w); got != pos {
				bad(".Pos|not-inverse-of-Coord", hilbertReplay{Dim: dim, Order: order, Pos: pos, Coord: v, Got: got}, "Pos(Coord(%d)=%v)=%d", pos, v, got)
				return
			}
			// Coord with a caller supplied destination: first a zeroed one,
			// then one still holding the previous answer (the documented
			// allocation-free usage pattern).
			if pos%61 == 0 || pos < 16 {
				copy(w, zero)
				if got := h.Coord(w, pos); !equalInts(got, v) {
					bad(".Coord|dst-zeroed|differs-from-nil-dst", hilbertReplay{Dim: dim, Order: order, Pos: pos, Coord: v, Other: cloneInts(got)}, "Coord(zeroed dst,%d)=%v want %v", pos, got, v)
					return
				}
				copy(dirty, prev)
				in := cloneInts(dirty)
				if got := h.Coord(dirty, pos); !equalInts(got, v) {
					c.Violationf(name+".Coord|dst-holds-old-values|coords-not-overwritten",
						map[string]any{"Dim": dim, "Order": order, "Pos": pos, "DstIn": in, "Got": cloneInts(got), "Want": v},
						"order %d: Coord(dst=%v, %d) = %v, but Coord(nil, %d) = %v (doc: \"Coord writes the spatial coordinates of pos to dst\"; dst is not cleared first)",
						order, in, pos, got, pos, v)
				}
				c.EvalN(key+"|dst", 2, true)
			}
			copy(prev, v)
		}
	})
	if p != nil {
		c.Violationf(name+"|exhaustive|unexpected-panic", hilbertReplay{Dim: dim, Order: order}, "order %d: panic %q\n%s", order, p.Msg, p.Stack)
		return
	}
	c.EvalN(key, 2*seen, true)
	c.Count("hilbert.positions_enumerated", int64(seen))
	if c.WantSample() && order == 2 {
		var c5 []int
		vrt.Try(func() { c5 = h.Coord(nil, 5) })
		c.Sample(map[string]any{"check": "hilbert-exhaustive", "dim": dim, "order": order, "len": L, "coord_of_5": c5})
	}
}

// hilbertSampled checks the same clauses on sampled positions of curves too
// long to enumerate, including the positions next to the ends and to the
// sub-curve junctions (multiples of large powers of two).
func hilbertSampled(c *vrt.Ctx, dim, order, n int) {
	name := hname(dim)
	h, err := newHilbert(dim, order)
	if err != nil {
		return
	}
	last := lastPos(dim, order) // positions are 0..last; last+1 may overflow int
	half := last/2 + 1
	quarter := half / 2
	r := c.RNG("hilbert-sampled", dim, order)
	key := fmt.Sprintf("%s|sampled|order=%d", name, order)
	w := make([]int, dim)
	checkPos := func(pos int) bool {
		if pos < 0 || pos > last {
			return true
		}
		v := h.Coord(nil, pos)
		if !inRange(v, dim, order) {
			c.Violationf(name+".Coord|coordinate-out-of-grid", hilbertReplay{Dim: dim, Order: order, Pos: pos, Coord: v}, "order %d: Coord(nil,%d)=%v outside the grid", order, pos, v)
			return false
		}
		copy(w, v)
		if got := h.Pos(w); got != pos {
			c.Violationf(name+".Pos|not-inverse-of-Coord", hilbertReplay{Dim: dim, Order: order, Pos: pos, Coord: v, Got: got}, "order %d: Pos(Coord(%d)=%v)=%d", order, pos, v, got)
			return false
		}
		c.EvalN(key, 2, true)
		if pos < last {
			v2 := h.Coord(nil, pos+1)
			c.Eval(key, true)
			if l1(v, v2) != 1 {
				c.Violationf(name+"|consecutive-positions-not-adjacent", hilbertReplay{Dim: dim, Order: order, Pos: pos + 1, Coord: v2, Other: v},
					"order %d: Coord(%d)=%v and Coord(%d)=%v are at L1 distance %d", order, pos, v, pos+1, v2, l1(v, v2))
				return false
			}
		}
		return true
	}
	c.LastCase(key)
	p := vrt.Try(func() {
		// Ends and junctions.
		for _, pos := range []int{0, 1, 2, last - 2, last - 1, last, half - 1, half, quarter - 1, quarter, half + quarter - 1, half + quarter} {
			if !checkPos(pos) {
				return
			}
		}
		for b := 0; b < dim*order; b++ {
			for _, pos := range []int{1<<b - 1, 1 << b, last - 1<<b, last - 1<<b + 1} {
				if !checkPos(pos) {
					return
				}
			}
		}
		for i := 0; i < n; i++ {
			pos := int(r.Uint64() % (uint64(last) + 1))
			if i%4 == 0 {
				// Just before a junction of sub-curves of random level.
				lvl := uint(r.Intn(dim * order))
				pos = pos>>lvl<<lvl - 1
			}
			if !checkPos(pos) {
				return
			}
		}
		// Coordinates first: Pos must land in [0,Len) and Coord must invert it.
		v := make([]int, dim)
		for i := 0; i < n/2; i++ {
			for j := range v {
				v[j] = int(r.Uint64() % uint64(1<<order))
				if r.Intn(8) == 0 {
					v[j] = r.PickInt(0, 1<<order-1)
				}
			}
			copy(w, v)
			pos := h.Pos(w)
			if pos < 0 || pos > last {
				c.Violationf(name+".Pos|position-out-of-range", hilbertReplay{Dim: dim, Order: order, Coord: cloneInts(v), Got: pos}, "order %d: Pos(%v)=%d outside [0,%d]", order, v, pos, last)
				return
			}
			if back := h.Coord(nil, pos); !equalInts(back, v) {
				c.Violationf(name+".Coord|not-inverse-of-Pos", hilbertReplay{Dim: dim, Order: order, Pos: pos, Coord: cloneInts(v), Other: back}, "order %d: Coord(Pos(%v)=%d)=%v", order, v, pos, back)
				return
			}
			c.EvalN(key+"|coord-first", 2, true)
		}
	})
	if p != nil {
		c.Violationf(name+"|sampled|unexpected-panic", hilbertReplay{Dim: dim, Order: order}, "order %d: panic %q\n%s", order, p.Msg, p.Stack)
	}
}
