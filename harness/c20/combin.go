package main

import (
	"fmt"
	"math"
	"math/big"

	"gonum.org/v1/gonum/stat/combin"
	"gonum.org/v1/gonum/verifx/vrt"
)

// ---------------------------------------------------------------------------
// Reference enumerations (naive, recursive, obviously correct).

// refCombinations lists the k-subsets of [0,n) as increasing sequences in
// lexicographic order (the order shown by ExampleCombinations).
func refCombinations(n, k int) [][]int {
	var out [][]int
	cur := make([]int, 0, k)
	var rec func(start int)
	rec = func(start int) {
		if len(cur) == k {
			out = append(out, cloneInts(cur))
			return
		}
		for v := start; v < n; v++ {
			cur = append(cur, v)
			rec(v + 1)
			cur = cur[:len(cur)-1]
		}
	}
	rec(0)
	return out
}

// refOrderings lists the permutations of [0,k) in lexicographic order.
func refOrderings(k int) [][]int {
	var out [][]int
	cur := make([]int, 0, k)
	used := make([]bool, k)
	var rec func()
	rec = func() {
		if len(cur) == k {
			out = append(out, cloneInts(cur))
			return
		}
		for v := 0; v < k; v++ {
			if used[v] {
				continue
			}
			used[v] = true
			cur = append(cur, v)
			rec()
			cur = cur[:len(cur)-1]
			used[v] = false
		}
	}
	rec()
	return out
}

// refPermutations lists the k-permutations of [0,n) in the order shown by
// ExamplePermutations: combinations in lexicographic order, and for each
// combination its arrangements comb[o[0]], comb[o[1]], ... for the orderings
// o of [0,k) in lexicographic order.
func refPermutations(n, k int) [][]int {
	ords := refOrderings(k)
	var out [][]int
	for _, cb := range refCombinations(n, k) {
		for _, o := range ords {
			p := make([]int, k)
			for i, v := range o {
				p[i] = cb[v]
			}
			out = append(out, p)
		}
	}
	return out
}

func bigBinomial(n, k int) *big.Int { return new(big.Int).Binomial(int64(n), int64(k)) }

func bigFallingFactorial(n, k int) *big.Int {
	p := big.NewInt(1)
	for i := n - k + 1; i <= n; i++ {
		p.Mul(p, big.NewInt(int64(i)))
	}
	return p
}

var maxInt = big.NewInt(math.MaxInt64)

// binomialInDomain reports whether combin.Binomial(n,k) can be computed
// without any intermediate product of its documented-unchecked recurrence
// b <- (n-k+i)*b/i leaving int ("No check is made for overflow"): the largest
// intermediate is k'*C(n,k') with k' = min(k, n-k).
func binomialInDomain(n, k int) bool {
	if k > n/2 {
		k = n - k
	}
	t := bigBinomial(n, k)
	t.Mul(t, big.NewInt(int64(max(k, 1))))
	return t.Cmp(maxInt) <= 0
}

type combinReplay struct {
	N, K  int
	Index int   `json:",omitempty"`
	Got   any   `json:",omitempty"`
	Want  any   `json:",omitempty"`
	Dims  []int `json:",omitempty"`
}

func runCombin(c *vrt.Ctx) {
	// Exhaustive (n,k).
	maxComb := c.Pick(14, 20)
	maxPerm := c.Pick(8, 10)
	type nk struct{ n, k int }
	var tasks []nk
	for n := maxComb; n >= 0; n-- {
		for k := 0; k <= n; k++ {
			tasks = append(tasks, nk{n, k})
		}
	}
	vrt.Parallel(len(tasks), func(i int) { combinationsExhaustive(c, tasks[i].n, tasks[i].k) })
	tasks = tasks[:0]
	for n := maxPerm; n >= 0; n-- {
		for k := n; k >= 0; k-- {
			tasks = append(tasks, nk{n, k})
		}
	}
	vrt.Parallel(len(tasks), func(i int) { permutationsExhaustive(c, tasks[i].n, tasks[i].k) })

	binomialCounts(c)
	combinRejections(c)
	indexMapsSampled(c)
	cartesianChecks(c)
}

// ---------------------------------------------------------------------------
// Combinations.

func combinationsExhaustive(c *vrt.Ctx, n, k int) {
	rp := combinReplay{N: n, K: k}
	desc := fmt.Sprintf("combinations n=%d k=%d", n, k)
	ref := refCombinations(n, k)
	key := fmt.Sprintf("combin.Combinations|n=%d|k=%d", n, k)
	nontriv := k > 0 && k < n

	guard(c, "combin.Binomial", desc, rp, func() {
		got := combin.Binomial(n, k)
		c.Eval("combin.Binomial|exhaustive", nontriv)
		if got != len(ref) || bigBinomial(n, k).Cmp(big.NewInt(int64(got))) != 0 {
			c.Violationf("combin.Binomial|small-n|not-exact", combinReplay{N: n, K: k, Got: got, Want: len(ref)}, "Binomial(%d,%d)=%d want %d", n, k, got, len(ref))
		}
	})

	guard(c, "combin.Combinations", desc, rp, func() {
		got := combin.Combinations(n, k)
		c.Eval(key, nontriv)
		if i, why := compareLists(got, ref); why != "" {
			c.Violationf("combin.Combinations|"+why, combinReplay{N: n, K: k, Index: i, Got: at(got, i), Want: at(ref, i)},
				"Combinations(%d,%d): %s at index %d: got %v want %v (len got %d want %d)", n, k, why, i, at(got, i), at(ref, i), len(got), len(ref))
		}
		if k > 0 && aliased(got) {
			c.Violationf("combin.Combinations|rows-share-storage", rp, "Combinations(%d,%d): two rows share their backing array", n, k)
		}
	})

	guard(c, "combin.CombinationGenerator", desc, rp, func() {
		g := combin.NewCombinationGenerator(n, k)
		if ok, _ := panics(func() { g.Combination(nil) }); !ok {
			c.Violationf("combin.CombinationGenerator.Combination|before-Next|no-panic", rp, "Combination before the first Next did not panic (n=%d k=%d)", n, k)
		}
		var got [][]int
		dst := make([]int, k)
		for i := 0; g.Next(); i++ {
			if i > len(ref)+2 {
				break
			}
			a := g.Combination(nil)
			b := g.Combination(dst)
			if !equalInts(a, b) {
				c.Violationf("combin.CombinationGenerator.Combination|dst-differs-from-nil", combinReplay{N: n, K: k, Index: i, Got: cloneInts(b), Want: a}, "n=%d k=%d step %d: Combination(dst)=%v Combination(nil)=%v", n, k, i, b, a)
			}
			got = append(got, a)
		}
		c.EvalN("combin.CombinationGenerator|"+fmt.Sprintf("n=%d|k=%d", n, k), len(got)+1, nontriv)
		if i, why := compareLists(got, ref); why != "" {
			c.Violationf("combin.CombinationGenerator|"+why, combinReplay{N: n, K: k, Index: i, Got: at(got, i), Want: at(ref, i)},
				"CombinationGenerator(%d,%d): %s at step %d: got %v want %v (steps got %d want %d)", n, k, why, i, at(got, i), at(ref, i), len(got), len(ref))
		}
		if g.Next() {
			c.Violationf("combin.CombinationGenerator.Next|true-after-exhaustion", rp, "Next returned true after having returned false (n=%d k=%d)", n, k)
		}
		if ok, _ := panics(func() { g.Combination(nil) }); !ok {
			c.Violationf("combin.CombinationGenerator.Combination|after-exhaustion|no-panic", rp, "Combination after Next()==false did not panic (n=%d k=%d)", n, k)
		}
	})

	guard(c, "combin.IndexToCombination", desc, rp, func() {
		dst := make([]int, k)
		for i, want := range ref {
			a := combin.IndexToCombination(nil, i, n, k)
			if !equalInts(a, want) {
				c.Violationf("combin.IndexToCombination|not-ith-combination", combinReplay{N: n, K: k, Index: i, Got: a, Want: want}, "IndexToCombination(nil,%d,%d,%d)=%v want %v", i, n, k, a, want)
				break
			}
			for j := range dst {
				dst[j] = -7
			}
			b := combin.IndexToCombination(dst, i, n, k)
			if !equalInts(b, want) {
				c.Violationf("combin.IndexToCombination|dst-differs-from-nil", combinReplay{N: n, K: k, Index: i, Got: cloneInts(b), Want: want}, "IndexToCombination(dst,%d,%d,%d)=%v want %v", i, n, k, b, want)
				break
			}
			if idx := combin.CombinationIndex(want, n, k); idx != i {
				c.Violationf("combin.CombinationIndex|not-inverse", combinReplay{N: n, K: k, Index: i, Got: idx, Want: want}, "CombinationIndex(%v,%d,%d)=%d want %d", want, n, k, idx, i)
				break
			}
		}
		c.EvalN(fmt.Sprintf("combin.IndexToCombination+CombinationIndex|n=%d|k=%d", n, k), 3*len(ref), nontriv)
	})
	if n == 5 && k == 3 && c.WantSample() {
		c.Sample(map[string]any{"check": "combinations-exhaustive", "n": n, "k": k, "count": len(ref), "first": ref[0], "last": ref[len(ref)-1]})
	}
}

func at(l [][]int, i int) []int {
	if i < 0 || i >= len(l) {
		return nil
	}
	return l[i]
}

// compareLists compares an observed enumeration with the reference and
// classifies the first discrepancy.
func compareLists(got, ref [][]int) (int, string) {
	for i := 0; i < len(got) && i < len(ref); i++ {
		if !equalInts(got[i], ref[i]) {
			// Is it a valid object in the wrong place, a duplicate, or garbage?
			seen := map[string]int{}
			for j, g := range got {
				seen[fmt.Sprint(g)]++
				_ = j
			}
			for _, rf := range ref {
				if seen[fmt.Sprint(rf)] == 0 {
					return i, "object-missing"
				}
			}
			for _, n := range seen {
				if n > 1 {
					return i, "object-duplicated"
				}
			}
			return i, "order-differs-from-documented"
		}
	}
	if len(got) < len(ref) {
		return len(got), "object-missing"
	}
	if len(got) > len(ref) {
		return len(ref), "too-many-objects"
	}
	return -1, ""
}

func aliased(l [][]int) bool {
	seen := make(map[*int]bool, len(l))
	for _, r := range l {
		if len(r) == 0 {
			continue
		}
		if seen[&r[0]] {
			return true
		}
		seen[&r[0]] = true
	}
	return false
}

// ---------------------------------------------------------------------------
// Permutations.

func permutationsExhaustive(c *vrt.Ctx, n, k int) {
	rp := combinReplay{N: n, K: k}
	desc := fmt.Sprintf("permutations n=%d k=%d", n, k)
	ref := refPermutations(n, k)
	nontriv := k > 1
	nk := fmt.Sprintf("n=%d|k=%d", n, k)

	guard(c, "combin.NumPermutations", desc, rp, func() {
		got := combin.NumPermutations(n, k)
		c.Eval("combin.NumPermutations|exhaustive", nontriv)
		if got != len(ref) || bigFallingFactorial(n, k).Cmp(big.NewInt(int64(got))) != 0 {
			c.Violationf("combin.NumPermutations|small-n|not-exact", combinReplay{N: n, K: k, Got: got, Want: len(ref)}, "NumPermutations(%d,%d)=%d want %d", n, k, got, len(ref))
		}
	})

	guard(c, "combin.Permutations", desc, rp, func() {
		got := combin.Permutations(n, k)
		c.Eval("combin.Permutations|"+nk, nontriv)
		if i, why := compareLists(got, ref); why != "" {
			c.Violationf("combin.Permutations|"+why, combinReplay{N: n, K: k, Index: i, Got: at(got, i), Want: at(ref, i)},
				"Permutations(%d,%d): %s at index %d: got %v want %v (len got %d want %d)", n, k, why, i, at(got, i), at(ref, i), len(got), len(ref))
		}
		if k > 0 && aliased(got) {
			c.Violationf("combin.Permutations|rows-share-storage", rp, "Permutations(%d,%d): two rows share their backing array", n, k)
		}
	})

	guard(c, "combin.PermutationGenerator", desc, rp, func() {
		g := combin.NewPermutationGenerator(n, k)
		if ok, _ := panics(func() { g.Permutation(nil) }); !ok {
			c.Violationf("combin.PermutationGenerator.Permutation|before-Next|no-panic", rp, "Permutation before the first Next did not panic (n=%d k=%d)", n, k)
		}
		steps := 0
		dst := make([]int, k)
		firstBad, why := -1, ""
		var gotBad []int
		for g.Next() {
			if steps > len(ref)+2 {
				break
			}
			b := g.Permutation(dst)
			if firstBad < 0 && (steps >= len(ref) || !equalInts(b, ref[steps])) {
				firstBad, gotBad = steps, cloneInts(b)
			}
			if steps%97 == 0 {
				if a := g.Permutation(nil); !equalInts(a, b) {
					c.Violationf("combin.PermutationGenerator.Permutation|dst-differs-from-nil", combinReplay{N: n, K: k, Index: steps, Got: cloneInts(b), Want: a}, "n=%d k=%d step %d", n, k, steps)
				}
			}
			steps++
		}
		c.EvalN("combin.PermutationGenerator|"+nk, steps+1, nontriv)
		switch {
		case firstBad >= 0 && firstBad < len(ref):
			why = "sequence-differs-from-documented-order"
		case firstBad >= len(ref):
			why = "too-many-objects"
		case steps < len(ref):
			firstBad, why = steps, "object-missing"
		}
		if why != "" {
			c.Violationf("combin.PermutationGenerator|"+why, combinReplay{N: n, K: k, Index: firstBad, Got: gotBad, Want: at(ref, firstBad)},
				"PermutationGenerator(%d,%d): %s at step %d: got %v want %v (steps got %d want %d)", n, k, why, firstBad, gotBad, at(ref, firstBad), steps, len(ref))
		}
		if g.Next() {
			c.Violationf("combin.PermutationGenerator.Next|true-after-exhaustion", rp, "Next returned true after having returned false (n=%d k=%d)", n, k)
		}
		if ok, _ := panics(func() { g.Permutation(nil) }); !ok {
			c.Violationf("combin.PermutationGenerator.Permutation|after-exhaustion|no-panic", rp, "Permutation after Next()==false did not panic (n=%d k=%d)", n, k)
		}
	})

	guard(c, "combin.IndexToPermutation", desc, rp, func() {
		dst := make([]int, k)
		for i, want := range ref {
			for j := range dst {
				dst[j] = -7
			}
			b := combin.IndexToPermutation(dst, i, n, k)
			if !equalInts(b, want) {
				c.Violationf("combin.IndexToPermutation|not-ith-permutation", combinReplay{N: n, K: k, Index: i, Got: cloneInts(b), Want: want}, "IndexToPermutation(dst,%d,%d,%d)=%v want %v", i, n, k, b, want)
				break
			}
			if i%89 == 0 {
				if a := combin.IndexToPermutation(nil, i, n, k); !equalInts(a, want) {
					c.Violationf("combin.IndexToPermutation|nil-dst-differs", combinReplay{N: n, K: k, Index: i, Got: a, Want: want}, "IndexToPermutation(nil,%d,%d,%d)=%v want %v", i, n, k, a, want)
					break
				}
			}
			if idx := combin.PermutationIndex(want, n, k); idx != i {
				c.Violationf("combin.PermutationIndex|not-inverse", combinReplay{N: n, K: k, Index: i, Got: idx, Want: want}, "PermutationIndex(%v,%d,%d)=%d want %d", want, n, k, idx, i)
				break
			}
		}
		c.EvalN("combin.IndexToPermutation+PermutationIndex|"+nk, 2*len(ref), nontriv)
	})
	if n == 4 && k == 3 && c.WantSample() {
		c.Sample(map[string]any{"check": "permutations-exhaustive", "n": n, "k": k, "count": len(ref), "index7": ref[7]})
	}
}

// ---------------------------------------------------------------------------
// Counts.

// genBinomRelTol is the admitted relative error of GeneralizedBinomial
// (= exp(lgamma differences)) against the exact integer binomial. The error
// of exp(a-b-c) is about u*(|a|+|b|+|c|) relative; the worst ratio
// |rel err| / (u*(|a|+|b|+|c|+1)) observed on the pinned tree over seeds
// {1,2,3,7,42} is 2.1 for integer arguments (all n<=170) and 2.6 for real
// arguments; the constant is >100x that.
const genBinomRelTol = 512.0

func binomialCounts(c *vrt.Ctx) {
	// Binomial against big.Int for every (n,k) whose recurrence stays in int.
	inDomain, outDomain := 0, 0
	for n := 0; n <= 70; n++ {
		for k := 0; k <= n; k++ {
			if !binomialInDomain(n, k) {
				outDomain++
				continue
			}
			inDomain++
			want := bigBinomial(n, k)
			guard(c, "combin.Binomial", fmt.Sprintf("Binomial(%d,%d)", n, k), combinReplay{N: n, K: k}, func() {
				got := combin.Binomial(n, k)
				c.Eval("combin.Binomial|big|"+sizeBucket(n), k > 0 && k < n)
				if want.Cmp(big.NewInt(int64(got))) != 0 {
					c.Violationf("combin.Binomial|no-intermediate-overflow|not-exact", combinReplay{N: n, K: k, Got: got, Want: want.String()}, "Binomial(%d,%d)=%d want %s", n, k, got, want)
				}
			})
		}
	}
	c.Count("combin.binomial_pairs_checked", int64(inDomain))
	c.Count("combin.binomial_pairs_excluded_overflow_domain", int64(outDomain))

	// NumPermutations while n!/(n-k)! fits in int.
	for n := 0; n <= 25; n++ {
		for k := 0; k <= n; k++ {
			want := bigFallingFactorial(n, k)
			if want.Cmp(maxInt) > 0 {
				continue
			}
			guard(c, "combin.NumPermutations", fmt.Sprintf("NumPermutations(%d,%d)", n, k), combinReplay{N: n, K: k}, func() {
				got := combin.NumPermutations(n, k)
				c.Eval("combin.NumPermutations|big|"+sizeBucket(n), k > 1)
				if want.Cmp(big.NewInt(int64(got))) != 0 {
					c.Violationf("combin.NumPermutations|fits-int|not-exact", combinReplay{N: n, K: k, Got: got, Want: want.String()}, "NumPermutations(%d,%d)=%d want %s", n, k, got, want)
				}
			})
		}
	}

	// GeneralizedBinomial / LogGeneralizedBinomial at integer arguments
	// against the exact value.
	worst := 0.0
	for n := 0; n <= 170; n++ {
		for k := 0; k <= n; k++ {
			exact, _ := new(big.Float).SetInt(bigBinomial(n, k)).Float64()
			if math.IsInf(exact, 0) {
				continue
			}
			guard(c, "combin.GeneralizedBinomial", fmt.Sprintf("GeneralizedBinomial(%d,%d)", n, k), combinReplay{N: n, K: k}, func() {
				got := combin.GeneralizedBinomial(float64(n), float64(k))
				lg := combin.LogGeneralizedBinomial(float64(n), float64(k))
				c.EvalN("combin.GeneralizedBinomial|integer-args|"+sizeBucket(n), 2, k > 0 && k < n)
				a, _ := math.Lgamma(float64(n) + 1)
				b, _ := math.Lgamma(float64(k) + 1)
				d, _ := math.Lgamma(float64(n-k) + 1)
				scale := vrt.Eps64 * (math.Abs(a) + math.Abs(b) + math.Abs(d) + 1)
				rel := math.Abs(got-exact) / exact
				if r := rel / scale; r > worst {
					worst = r
				}
				if !(rel <= genBinomRelTol*scale) {
					c.Violationf("combin.GeneralizedBinomial|integer-args|outside-rounding-band", combinReplay{N: n, K: k, Got: got, Want: exact},
						"GeneralizedBinomial(%d,%d)=%v exact %v rel err %.3g band %.3g", n, k, got, exact, rel, genBinomRelTol*scale)
				}
				if labs := math.Abs(lg - math.Log(exact)); !(labs <= genBinomRelTol*scale) {
					c.Violationf("combin.LogGeneralizedBinomial|integer-args|outside-rounding-band", combinReplay{N: n, K: k, Got: lg, Want: math.Log(exact)},
						"LogGeneralizedBinomial(%d,%d)=%v want %v abs err %.3g band %.3g", n, k, lg, math.Log(exact), labs, genBinomRelTol*scale)
				}
			})
		}
	}
	c.Note("combin.generalized_binomial_worst_ratio", fmt.Sprintf("%.3f", worst))

	// Non-integer arguments against the Gamma-function definition evaluated
	// directly with math.Gamma (independent of Lgamma), for moderate n.
	r := c.RNG("genbinom")
	worstG := 0.0
	for i := 0; i < c.Pick(2000, 20000); i++ {
		n := r.Uniform(0, 30)
		k := r.Uniform(0, n)
		if i%10 == 0 {
			k = math.Floor(k)
		}
		guard(c, "combin.GeneralizedBinomial", fmt.Sprintf("GeneralizedBinomial(%v,%v)", n, k), map[string]float64{"n": n, "k": k}, func() {
			got := combin.GeneralizedBinomial(n, k)
			c.Eval("combin.GeneralizedBinomial|real-args", true)
			want := math.Gamma(n+1) / (math.Gamma(k+1) * math.Gamma(n-k+1))
			a, _ := math.Lgamma(n + 1)
			b, _ := math.Lgamma(k + 1)
			d, _ := math.Lgamma(n - k + 1)
			scale := vrt.Eps64 * (math.Abs(a) + math.Abs(b) + math.Abs(d) + 16)
			rel := math.Abs(got-want) / want
			if rr := rel / scale; rr > worstG {
				worstG = rr
			}
			if !(rel <= genBinomRelTol*scale) {
				c.Violationf("combin.GeneralizedBinomial|real-args|differs-from-gamma-definition", map[string]float64{"n": n, "k": k, "got": got, "want": want},
					"GeneralizedBinomial(%v,%v)=%v, Gamma definition gives %v (rel %.3g band %.3g)", n, k, got, want, rel, genBinomRelTol*scale)
			}
		})
	}
	c.Note("combin.generalized_binomial_real_worst_ratio", fmt.Sprintf("%.3f", worstG))
}

// combinRejections checks the documented panics that delimit the domains of
// the index maps (a bijection needs both maps to reject what is outside).
func combinRejections(c *vrt.Ctx) {
	must := func(sig, what string, rp any, f func()) {
		ok, _ := panics(f)
		c.Eval("combin.rejection|"+sig, true)
		if !ok {
			c.Violationf(sig, rp, "%s did not panic although the doc comment says it does", what)
		}
	}
	for n := 0; n <= 6; n++ {
		for k := 0; k <= n; k++ {
			var N, P int
			rp := combinReplay{N: n, K: k}
			if !guard(c, "combin.Binomial", fmt.Sprintf("Binomial/NumPermutations(%d,%d)", n, k), rp, func() {
				N = combin.Binomial(n, k)
				P = combin.NumPermutations(n, k)
			}) {
				continue
			}
			must("combin.IndexToCombination|idx=Binomial(n,k)|accepted", fmt.Sprintf("IndexToCombination(nil,%d,%d,%d)", N, n, k), rp, func() { combin.IndexToCombination(nil, N, n, k) })
			must("combin.IndexToCombination|idx=-1|accepted", fmt.Sprintf("IndexToCombination(nil,-1,%d,%d)", n, k), rp, func() { combin.IndexToCombination(nil, -1, n, k) })
			must("combin.IndexToPermutation|idx=NumPermutations(n,k)|accepted", fmt.Sprintf("IndexToPermutation(nil,%d,%d,%d)", P, n, k), rp, func() { combin.IndexToPermutation(nil, P, n, k) })
			must("combin.IndexToPermutation|idx=-1|accepted", fmt.Sprintf("IndexToPermutation(nil,-1,%d,%d)", n, k), rp, func() { combin.IndexToPermutation(nil, -1, n, k) })
			if k >= 1 {
				bad := make([]int, k)
				for i := range bad {
					bad[i] = i
				}
				bad[k-1] = n // out of [0,n)
				must("combin.PermutationIndex|element=n|accepted", fmt.Sprintf("PermutationIndex(%v,%d,%d)", bad, n, k), rp, func() { combin.PermutationIndex(bad, n, k) })
			}
			if k >= 2 {
				dup := make([]int, k)
				for i := range dup {
					dup[i] = i
				}
				dup[1] = dup[0]
				must("combin.PermutationIndex|repeated-element|accepted", fmt.Sprintf("PermutationIndex(%v,%d,%d)", dup, n, k), rp, func() { combin.PermutationIndex(dup, n, k) })
				must("combin.CombinationIndex|repeated-element|accepted", fmt.Sprintf("CombinationIndex(%v,%d,%d)", dup, n, k), rp, func() { combin.CombinationIndex(dup, n, k) })
				uns := make([]int, k)
				for i := range uns {
					uns[i] = k - 1 - i
				}
				must("combin.CombinationIndex|unsorted|accepted", fmt.Sprintf("CombinationIndex(%v,%d,%d)", uns, n, k), rp, func() { combin.CombinationIndex(uns, n, k) })
			}
		}
	}
	must("combin.Binomial|n<k|accepted", "Binomial(3,4)", nil, func() { combin.Binomial(3, 4) })
	must("combin.Binomial|negative|accepted", "Binomial(3,-1)", nil, func() { combin.Binomial(3, -1) })
	must("combin.NumPermutations|n<k|accepted", "NumPermutations(3,4)", nil, func() { combin.NumPermutations(3, 4) })
	must("combin.GeneralizedBinomial|n<k|accepted", "GeneralizedBinomial(3,4)", nil, func() { combin.GeneralizedBinomial(3, 4) })
	must("combin.Cartesian|length<1|accepted", "Cartesian([2 0 3])", nil, func() { combin.Cartesian([]int{2, 0, 3}) })
}

// ---------------------------------------------------------------------------
// Index maps for n up to 60 (sampled).

// lexRank returns the rank of the increasing sequence comb among the
// k-subsets of [0,n) in lexicographic order, computed with big.Int:
// rank = C(n,k) - 1 - sum_i C(n-1-comb[i], k-i).
func lexRank(comb []int, n int) *big.Int {
	k := len(comb)
	r := bigBinomial(n, k)
	r.Sub(r, big.NewInt(1))
	for i, v := range comb {
		if n-1-v >= k-i {
			r.Sub(r, bigBinomial(n-1-v, k-i))
		}
	}
	return r
}

// lexSuccessor overwrites comb with its successor in lexicographic order and
// reports false if comb was the last combination.
func lexSuccessor(comb []int, n int) bool {
	k := len(comb)
	for j := k - 1; j >= 0; j-- {
		if comb[j] < n-k+j {
			comb[j]++
			for l := j + 1; l < k; l++ {
				comb[l] = comb[l-1] + 1
			}
			return true
		}
	}
	return false
}

func validCombination(cb []int, n, k int) bool {
	if len(cb) != k {
		return false
	}
	for i, v := range cb {
		if v < 0 || v >= n || (i > 0 && cb[i-1] >= v) {
			return false
		}
	}
	return true
}

func validPermutation(p []int, n, k int) bool {
	if len(p) != k {
		return false
	}
	seen := make(map[int]bool, k)
	for _, v := range p {
		if v < 0 || v >= n || seen[v] {
			return false
		}
		seen[v] = true
	}
	return true
}

func indexMapsSampled(c *vrt.Ctx) {
	cases := c.Pick(3000, 40000)
	vrt.Parallel(cases, func(i int) {
		r := c.RNG("index-maps", i)
		// Combinations, n up to 60.
		n := r.Range(11, 60)
		k := r.Range(0, n)
		if !binomialInDomain(n, k) {
			return
		}
		var N, P int
		pn := r.Range(9, 20)
		pk := r.Range(0, pn)
		if !guard(c, "combin.Binomial", fmt.Sprintf("Binomial(%d,%d)/NumPermutations(%d,%d)", n, k, pn, pk), combinReplay{N: n, K: k}, func() {
			N = combin.Binomial(n, k)
			P = combin.NumPermutations(pn, pk)
		}) || N <= 0 || P <= 0 {
			return
		}
		idx := int(r.Uint64() % uint64(N))
		switch r.Intn(6) {
		case 0:
			idx = 0
		case 1:
			idx = N - 1
		}
		rp := combinReplay{N: n, K: k, Index: idx}
		guard(c, "combin.IndexToCombination", fmt.Sprintf("IndexToCombination idx=%d n=%d k=%d", idx, n, k), rp, func() {
			cb := combin.IndexToCombination(nil, idx, n, k)
			c.Eval("combin.IndexToCombination|sampled|"+sizeBucket(n), k > 0 && k < n)
			if !validCombination(cb, n, k) {
				c.Violationf("combin.IndexToCombination|large-n|not-a-sorted-combination", combinReplay{N: n, K: k, Index: idx, Got: cb}, "IndexToCombination(nil,%d,%d,%d)=%v", idx, n, k, cb)
				return
			}
			if want := lexRank(cb, n); want.Cmp(big.NewInt(int64(idx))) != 0 {
				c.Violationf("combin.IndexToCombination|large-n|not-the-idx-th-in-lexicographic-order", combinReplay{N: n, K: k, Index: idx, Got: cb, Want: want.String()},
					"IndexToCombination(nil,%d,%d,%d)=%v whose lexicographic rank is %s", idx, n, k, cb, want)
				return
			}
			back := combin.CombinationIndex(cb, n, k)
			c.Eval("combin.CombinationIndex|sampled|"+sizeBucket(n), k > 0 && k < n)
			if back != idx {
				c.Violationf("combin.CombinationIndex|large-n|not-inverse", combinReplay{N: n, K: k, Index: idx, Got: back, Want: cb}, "CombinationIndex(%v,%d,%d)=%d want %d", cb, n, k, back, idx)
				return
			}
			if idx+1 < N {
				nx := combin.IndexToCombination(nil, idx+1, n, k)
				c.Eval("combin.IndexToCombination|sampled|"+sizeBucket(n), k > 0 && k < n)
				succ := cloneInts(cb)
				lexSuccessor(succ, n)
				if !equalInts(nx, succ) {
					c.Violationf("combin.IndexToCombination|large-n|idx+1-not-lexicographic-successor", combinReplay{N: n, K: k, Index: idx + 1, Got: nx, Want: succ}, "IndexToCombination(%d)=%v but successor of %v is %v", idx+1, nx, cb, succ)
				}
			}
		})

		// Generator started at a far position is not possible; instead check
		// the first steps of the generator for large n.
		if i%20 == 0 {
			guard(c, "combin.CombinationGenerator", fmt.Sprintf("CombinationGenerator n=%d k=%d", n, k), rp, func() {
				g := combin.NewCombinationGenerator(n, k)
				cur := make([]int, k)
				for j := range cur {
					cur[j] = j
				}
				steps := 0
				for s := 0; s < 200 && g.Next(); s++ {
					got := g.Combination(nil)
					steps++
					if !equalInts(got, cur) {
						c.Violationf("combin.CombinationGenerator|large-n|order-differs-from-documented", combinReplay{N: n, K: k, Index: s, Got: got, Want: cloneInts(cur)}, "step %d: got %v want %v", s, got, cur)
						return
					}
					if !lexSuccessor(cur, n) {
						break
					}
				}
				c.EvalN("combin.CombinationGenerator|sampled|"+sizeBucket(n), steps, k > 0 && k < n)
			})
		}

		// Permutations, n up to 20 (20! fits in int64).
		pidx := int(r.Uint64() % uint64(P))
		switch r.Intn(6) {
		case 0:
			pidx = 0
		case 1:
			pidx = P - 1
		}
		prp := combinReplay{N: pn, K: pk, Index: pidx}
		guard(c, "combin.IndexToPermutation", fmt.Sprintf("IndexToPermutation idx=%d n=%d k=%d", pidx, pn, pk), prp, func() {
			p := combin.IndexToPermutation(nil, pidx, pn, pk)
			c.Eval("combin.IndexToPermutation|sampled|"+sizeBucket(pn), pk > 1)
			if !validPermutation(p, pn, pk) {
				c.Violationf("combin.IndexToPermutation|large-n|not-a-permutation", combinReplay{N: pn, K: pk, Index: pidx, Got: p}, "IndexToPermutation(nil,%d,%d,%d)=%v", pidx, pn, pk, p)
				return
			}
			back := combin.PermutationIndex(p, pn, pk)
			c.Eval("combin.PermutationIndex|sampled|"+sizeBucket(pn), pk > 1)
			if back != pidx {
				c.Violationf("combin.PermutationIndex|large-n|not-inverse", combinReplay{N: pn, K: pk, Index: pidx, Got: back, Want: p}, "PermutationIndex(%v,%d,%d)=%d want %d", p, pn, pk, back, pidx)
				return
			}
			// Documented order: index = rank(sorted elements)*k! + rank of the
			// arrangement among the orderings of [0,k).
			sorted := cloneInts(p)
			for a := 1; a < len(sorted); a++ {
				for b := a; b > 0 && sorted[b-1] > sorted[b]; b-- {
					sorted[b-1], sorted[b] = sorted[b], sorted[b-1]
				}
			}
			ord := make([]int, pk)
			for a, v := range p {
				for b, s := range sorted {
					if s == v {
						ord[a] = b
					}
				}
			}
			// Lehmer rank of ord.
			rank := big.NewInt(0)
			for a := range ord {
				less := 0
				for _, v := range ord[a+1:] {
					if v < ord[a] {
						less++
					}
				}
				rank.Mul(rank, big.NewInt(int64(pk-a)))
				rank.Add(rank, big.NewInt(int64(less)))
			}
			want := lexRank(sorted, pn)
			want.Mul(want, bigFallingFactorial(pk, pk))
			want.Add(want, rank)
			if want.Cmp(big.NewInt(int64(pidx))) != 0 {
				c.Violationf("combin.IndexToPermutation|large-n|not-the-idx-th-in-documented-order", combinReplay{N: pn, K: pk, Index: pidx, Got: p, Want: want.String()},
					"IndexToPermutation(nil,%d,%d,%d)=%v whose rank in the documented order is %s", pidx, pn, pk, p, want)
			}
		})
	})
}

// ---------------------------------------------------------------------------
// Cartesian products, IdxFor/SubFor.

// dimsVectors enumerates every vector of entries >= minEntry with length in
// [1,maxLen] and product <= maxProd.
func dimsVectors(minEntry, maxLen, maxProd int, f func(dims []int, prod int)) {
	cur := make([]int, 0, maxLen)
	var rec func(prod int)
	rec = func(prod int) {
		if len(cur) > 0 {
			f(cur, prod)
		}
		if len(cur) == maxLen {
			return
		}
		for d := minEntry; prod*d <= maxProd; d++ {
			cur = append(cur, d)
			rec(prod * d)
			cur = cur[:len(cur)-1]
		}
	}
	rec(1)
}

func cartesianChecks(c *vrt.Ctx) {
	var all [][]int
	collect := func(dims []int, _ int) { all = append(all, cloneInts(dims)) }
	// Every dims vector with entries >= 2 (any length) and product <= P, and
	// every vector with entries >= 1 (unit dimensions exercise the stride
	// updates) of length <= 5 and product <= P1. Vectors with product <= full
	// are checked at every index, the others at sampled indices (the ends,
	// every carry boundary of the last two subscripts, random ones).
	P := c.Pick(400, 10000)
	P1 := c.Pick(40, 200)
	full := c.Pick(400, 2500)
	dimsVectors(2, 14, P, collect)
	nGe2 := len(all)
	dimsVectors(1, 5, P1, func(dims []int, prod int) {
		for _, d := range dims {
			if d == 1 {
				collect(dims, prod)
				return
			}
		}
	})
	c.Count("combin.dims_vectors_entries_ge2", int64(nGe2))
	c.Count("combin.dims_vectors_with_unit_entries", int64(len(all)-nGe2))
	if !c.Thorough() {
		// Sampled vectors with product up to 10^4 in the quick tier.
		r := c.RNG("dims-sampled")
		for i := 0; i < 600; i++ {
			var dims []int
			prod := 1
			for len(dims) < 8 {
				d := r.Range(1, 12)
				if r.Intn(4) == 0 {
					d = r.Range(1, 100)
				}
				if prod*d > 10000 {
					break
				}
				prod *= d
				dims = append(dims, d)
			}
			if len(dims) > 0 {
				all = append(all, dims)
			}
		}
	}
	vrt.Parallel(len(all), func(i int) { cartesianOne(c, all[i], i, full) })
	if c.WantSample() {
		var sub []int
		vrt.Try(func() { sub = combin.SubFor(nil, 4, []int{2, 3, 1}) })
		c.Sample(map[string]any{"check": "cartesian", "dims_example": []int{2, 3, 1}, "SubFor(4)": sub, "vectors": len(all)})
	}
}

// quietPanics reports whether f panics, without capturing a stack.
func quietPanics(f func()) (p bool) {
	defer func() {
		if recover() != nil {
			p = true
		}
	}()
	f()
	return false
}

func cartesianOne(c *vrt.Ctx, dims []int, caseIdx, full int) {
	prod := 1
	for _, d := range dims {
		prod *= d
	}
	rp := combinReplay{Dims: dims}
	desc := fmt.Sprintf("cartesian dims=%v", dims)
	lb := fmt.Sprintf("len%d", len(dims))
	if len(dims) > 6 {
		lb = "len7+"
	}
	pb := sizeBucket(prod)
	nontriv := len(dims) > 1 && prod > 1

	guard(c, "combin.Card", desc, rp, func() {
		c.Eval("combin.Card|"+lb, nontriv)
		if got := combin.Card(dims); got != prod {
			c.Violationf("combin.Card|not-product", combinReplay{Dims: dims, Got: got, Want: prod}, "Card(%v)=%d want %d", dims, got, prod)
		}
	})

	// Reference: row-major mixed radix, last subscript fastest (documented by
	// the Cartesian example and by the IdxFor comment).
	ref := make([]int, len(dims))
	setRef := func(idx int) {
		for j := len(dims) - 1; j >= 0; j-- {
			ref[j] = idx % dims[j]
			idx /= dims[j]
		}
	}
	next := func() {
		for j := len(ref) - 1; j >= 0; j-- {
			ref[j]++
			if ref[j] < dims[j] {
				return
			}
			ref[j] = 0
		}
	}
	sub := make([]int, len(dims))
	checkIdx := func(idx int) bool {
		for j := range sub {
			sub[j] = -5
		}
		got := combin.SubFor(sub, idx, dims)
		if !equalInts(got, ref) {
			c.Violationf("combin.SubFor|not-row-major-subscript", combinReplay{Dims: dims, Index: idx, Got: cloneInts(got), Want: cloneInts(ref)}, "SubFor(dst,%d,%v)=%v want %v", idx, dims, got, ref)
			return false
		}
		if back := combin.IdxFor(ref, dims); back != idx {
			c.Violationf("combin.IdxFor|not-inverse-of-SubFor", combinReplay{Dims: dims, Index: idx, Got: back, Want: cloneInts(ref)}, "IdxFor(%v,%v)=%d want %d", ref, dims, back, idx)
			return false
		}
		return true
	}

	if prod <= full {
		guard(c, "combin.SubFor", desc, rp, func() {
			g := combin.NewCartesianGenerator(dims)
			gdst := make([]int, len(dims))
			for idx := 0; idx < prod; idx++ {
				if !checkIdx(idx) {
					return
				}
				if !g.Next() {
					c.Violationf("combin.CartesianGenerator|object-missing", combinReplay{Dims: dims, Index: idx}, "Next()==false after %d of %d products", idx, prod)
					return
				}
				if p := g.Product(gdst); !equalInts(p, ref) {
					c.Violationf("combin.CartesianGenerator|order-differs-from-documented", combinReplay{Dims: dims, Index: idx, Got: cloneInts(p), Want: cloneInts(ref)}, "step %d of %v: got %v want %v", idx, dims, p, ref)
					return
				}
				next()
			}
			c.EvalN("combin.SubFor+IdxFor|all-indices|"+lb+"|"+pb, 2*prod, nontriv)
			c.EvalN("combin.CartesianGenerator|"+lb+"|"+pb, prod+1, nontriv)
			if g.Next() {
				c.Violationf("combin.CartesianGenerator|too-many-objects", rp, "Next()==true after all %d products of %v", prod, dims)
			} else if g.Next() {
				c.Violationf("combin.CartesianGenerator.Next|true-after-exhaustion", rp, "Next returned true after false (%v)", dims)
			}
		})
	} else {
		guard(c, "combin.SubFor", desc, rp, func() {
			r := c.RNG("cartesian-idx", caseIdx)
			n := 0
			try := func(idx int) bool {
				if idx < 0 || idx >= prod {
					return true
				}
				setRef(idx)
				n++
				return checkIdx(idx)
			}
			last := dims[len(dims)-1]
			stride2 := last
			if len(dims) > 1 {
				stride2 *= dims[len(dims)-2]
			}
			for _, base := range []int{0, prod - 1, prod / 2, last, stride2, prod - last, prod - stride2, int(r.Uint64()%uint64(prod)) / last * last} {
				for d := -2; d <= 2; d++ {
					if !try(base + d) {
						return
					}
				}
			}
			for i := 0; i < 150; i++ {
				if !try(int(r.Uint64() % uint64(prod))) {
					return
				}
			}
			c.EvalN("combin.SubFor+IdxFor|sampled-indices|"+lb+"|"+pb, 2*n, nontriv)
		})
	}

	// Cartesian (allocating) on the smaller spaces.
	if prod <= 1000 {
		guard(c, "combin.Cartesian", desc, rp, func() {
			rows := combin.Cartesian(dims)
			c.Eval("combin.Cartesian|"+lb+"|"+pb, nontriv)
			if len(rows) != prod {
				c.Violationf("combin.Cartesian|wrong-number-of-rows", combinReplay{Dims: dims, Got: len(rows), Want: prod}, "Cartesian(%v) has %d rows want %d", dims, len(rows), prod)
				return
			}
			setRef(0)
			for idx, row := range rows {
				if !equalInts(row, ref) {
					c.Violationf("combin.Cartesian|order-differs-from-documented", combinReplay{Dims: dims, Index: idx, Got: row, Want: cloneInts(ref)}, "Cartesian(%v)[%d]=%v want %v", dims, idx, row, ref)
					return
				}
				next()
			}
			if aliased(rows) {
				c.Violationf("combin.Cartesian|rows-share-storage", rp, "Cartesian(%v): rows share storage", dims)
			}
		})
	}

	// Domain edges: the documented rejections that make SubFor/IdxFor a
	// bijection between [0,prod) and the subscripts. Checked on every small
	// space, every 1-dimensional space and a fixed 1-in-16 selection of the rest.
	if prod > 150 && len(dims) > 1 && caseIdx%16 != 0 {
		return
	}
	c.EvalN("combin.SubFor|rejections|"+lb, 2, true)
	if !quietPanics(func() { combin.SubFor(nil, prod, dims) }) {
		var got []int
		vrt.Try(func() { got = combin.SubFor(nil, prod, dims) })
		cls := "multi-dim"
		if len(dims) == 1 {
			cls = "1-dim"
		}
		c.Violationf("combin.SubFor|idx=product-of-dims "+cls+"|accepted", combinReplay{Dims: dims, Index: prod, Got: got},
			"SubFor(nil,%d,%v)=%v did not panic (doc: \"SubFor panics if idx < 0 or if idx is greater than or equal to the product of the dimensions\"); IdxFor rejects that subscript", prod, dims, got)
	}
	if !quietPanics(func() { combin.SubFor(nil, -1, dims) }) {
		c.Violationf("combin.SubFor|idx=-1|accepted", combinReplay{Dims: dims, Index: -1}, "SubFor(nil,-1,%v) did not panic", dims)
	}
	for j := range dims {
		s := make([]int, len(dims))
		s[j] = dims[j]
		c.EvalN("combin.IdxFor|rejections|"+lb, 2, true)
		if !quietPanics(func() { combin.IdxFor(s, dims) }) {
			c.Violationf("combin.IdxFor|sub[i]=dims[i]|accepted", combinReplay{Dims: dims, Got: s}, "IdxFor(%v,%v) did not panic", s, dims)
		}
		s[j] = -1
		if !quietPanics(func() { combin.IdxFor(s, dims) }) {
			c.Violationf("combin.IdxFor|sub[i]=-1|accepted", combinReplay{Dims: dims, Got: s}, "IdxFor(%v,%v) did not panic", s, dims)
		}
	}
}
