// Command c05 is the runtime monitor for property C05: mat never mutates
// inputs and never returns a result corrupted by aliasing.
//
// See variants.json ("rule", "assumptions") for what a case is and what the
// oracle trusts; geom.go for the ground truth of overlap; exec.go for the
// judge.
package main

import (
	"flag"
	"os"
	"runtime/pprof"
	"strings"

	"gonum.org/v1/gonum/verifx/vrt"
)

var only = flag.String("families", "", "comma-separated family groups to run (dense,vec,symtri,cdense,solve,random); empty = all")

var light = flag.Bool("light", false, "use the quick tier's sampling even in the thorough tier (race build: every family and kind combination, thinner geometry)")

// thorough reports whether the exhaustive enumeration is in force.
func thorough(c *vrt.Ctx) bool { return c.Thorough() && !*light }

func want(g string) bool {
	if *only == "" {
		return true
	}
	for _, s := range strings.Split(*only, ",") {
		if s == g {
			return true
		}
	}
	return false
}

func main() { vrt.Main("C05", run) }

var cpuprof = flag.String("cpuprofile", "", "write a CPU profile (development aid)")

func run(c *vrt.Ctx) {
	if *cpuprof != "" {
		f, err := os.Create(*cpuprof)
		if err == nil {
			pprof.StartCPUProfile(f)
			defer pprof.StopCPUProfile()
		}
	}
	u6 := newUniverse(6, 6)
	uv := newVecUniverse()
	if want("vec") {
		runVec(c, uv)
	}
	if want("dense") {
		runDense(c, u6)
	}
	if want("symtri") {
		runSymTri(c, u6)
	}
	if want("cdense") {
		runCDense(c, u6)
	}
	if want("random") {
		runRandom(c)
	}
	if want("solve") {
		runSolveTo(c, u6, uv)
	}
	emitFindings(c)
	c.Note("max_rel_dev", globalMaxDev)
	c.Note("rel_tol", relTol)
}
