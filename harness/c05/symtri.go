package main

import (
	"fmt"
	"gonum.org/v1/gonum/mat"
	"gonum.org/v1/gonum/verifx/vrt"
)

func sd(r any) *mat.SymDense         { return r.(*mat.SymDense) }
func td(r any) *mat.TriDense         { return r.(*mat.TriDense) }
func sy(m mat.Matrix) mat.Symmetric  { return m.(mat.Symmetric) }
func tr(m mat.Matrix) mat.Triangular { return m.(mat.Triangular) }

var (
	mSymAdd     = &method{name: "SymDense.AddSym", pos: ab, call: func(r any, o []mat.Matrix, _ *caseSpec) { sd(r).AddSym(sy(o[0]), sy(o[1])) }}
	mSymScale   = &method{name: "SymDense.ScaleSym", pos: aOnly, call: func(r any, o []mat.Matrix, cs *caseSpec) { sd(r).ScaleSym(cs.alpha, sy(o[0])) }}
	mSymCopy    = &method{name: "SymDense.CopySym", pos: aOnly, copyLike: true, call: func(r any, o []mat.Matrix, cs *caseSpec) { cs.status = fmt.Sprint(sd(r).CopySym(sy(o[0]))) }}
	mSymSubset  = &method{name: "SymDense.SubsetSym", pos: aOnly, call: func(r any, o []mat.Matrix, cs *caseSpec) { sd(r).SubsetSym(sy(o[0]), cs.idx) }}
	mSymPowPSD  = &method{name: "SymDense.PowPSD", pos: aOnly, errOp: 1, call: func(r any, o []mat.Matrix, cs *caseSpec) { cs.status = errClass(sd(r).PowPSD(sy(o[0]), 2)) }}
	mSymRankOne = &method{name: "SymDense.SymRankOne", pos: []string{"a", "x"}, call: func(r any, o []mat.Matrix, cs *caseSpec) {
		sd(r).SymRankOne(sy(o[0]), cs.alpha, vv(o[1]))
	}}
	mSymRankK = &method{name: "SymDense.SymRankK", pos: []string{"a", "x"}, call: func(r any, o []mat.Matrix, cs *caseSpec) {
		sd(r).SymRankK(sy(o[0]), cs.alpha, o[1])
	}}
	mSymOuterK = &method{name: "SymDense.SymOuterK", pos: []string{"x"}, call: func(r any, o []mat.Matrix, cs *caseSpec) {
		sd(r).SymOuterK(cs.alpha, o[0])
	}}
	mSymRankTwo = &method{name: "SymDense.RankTwo", pos: []string{"a", "x", "y"}, call: func(r any, o []mat.Matrix, cs *caseSpec) {
		sd(r).RankTwo(sy(o[0]), cs.alpha, vv(o[1]), vv(o[2]))
	}}

	mTriMul     = &method{name: "TriDense.MulTri", pos: ab, call: func(r any, o []mat.Matrix, _ *caseSpec) { td(r).MulTri(tr(o[0]), tr(o[1])) }}
	mTriScale   = &method{name: "TriDense.ScaleTri", pos: aOnly, call: func(r any, o []mat.Matrix, cs *caseSpec) { td(r).ScaleTri(cs.alpha, tr(o[0])) }}
	mTriInverse = &method{name: "TriDense.InverseTri", pos: aOnly, errOp: 1, call: func(r any, o []mat.Matrix, cs *caseSpec) { cs.status = errClass(td(r).InverseTri(tr(o[0]))) }}
	mTriCopy    = &method{name: "TriDense.Copy", pos: aOnly, copyLike: true, call: func(r any, o []mat.Matrix, cs *caseSpec) { cs.status = fmt.Sprint(td(r).Copy(o[0])) }}
)

var otherSym = []kind{kSym, kBasicSym, kDiag}

// squares lists the indices of the square windows of the universe.
func (u *universe) squares() []int {
	var s []int
	n := u.R
	if u.C < n {
		n = u.C
	}
	for k := 1; k <= n; k++ {
		s = append(s, u.byShape[k][k]...)
	}
	return s
}

func genSym(sq []int) func(e *emitter, i int) {
	return func(e *emitter, i int) {
		u := e.u
		recv := e.sh(kSym, u.wins[sq[i]])
		n := recv.w.r
		id := identical(recv, false)
		// AddSym
		for _, ok := range otherSym {
			e.run(mSymAdd, recv, []opnd{id, privateLogical(ok, n, n, 1)}, caseSpec{})
			e.run(mSymAdd, recv, []opnd{privateLogical(ok, n, n, 1), id}, caseSpec{})
		}
		e.run(mSymAdd, recv, []opnd{id, id}, caseSpec{})
		// unary forms with the receiver / private operands
		for _, m := range []*method{mSymScale, mSymCopy} {
			e.run(m, recv, []opnd{id}, caseSpec{})
			for _, ok := range otherSym {
				e.run(m, recv, []opnd{privateLogical(ok, n, n, 1)}, caseSpec{})
			}
		}
		e.run(mSymPowPSD, recv, []opnd{id}, caseSpec{cond: []int{0}})
		e.run(mSymPowPSD, recv, []opnd{privateLogical(kSym, n, n, 1)}, caseSpec{cond: []int{0}})
		// SubsetSym of the receiver itself: EVERY index set in [0,n)^n for
		// n <= 5 (repeats, sorted with repeats, reversed, constant, ...); for
		// n == 6 all 46656 in the thorough tier, the hostile classes plus a
		// sample in the quick tier.
		forAllIndexSets(n, n, func(set []int, hostile bool) {
			if n == 6 && !hostile && !e.keep(8) {
				return
			}
			e.run(mSymSubset, recv, []opnd{id}, caseSpec{idx: append([]int(nil), set...)})
		})
		for _, set := range indexClasses(n, n) {
			e.run(mSymSubset, recv, []opnd{privateLogical(kSym, n, n, 1)}, caseSpec{idx: set})
			e.run(mSymSubset, recv, []opnd{privateLogical(kBasicSym, n, n, 1)}, caseSpec{idx: set})
		}
		// rank updates on the receiver itself
		e.cross(mSymRankOne, recv, []opnd{id, {}}, caseSpec{}, vslot(1, n, 1))
		e.cross(mSymRankTwo, recv, []opnd{id, {}, {}}, caseSpec{}, vslot(1, n, 1), vslot(2, n, 2))
		for k := 1; k <= 3; k++ {
			for _, xk := range e.pickOthers([]kind{kDense, kDenseT, kBasic, kRawWrap}, n, k, 4) {
				e.run(mSymRankK, recv, []opnd{id, privateLogical(xk, n, k, 1)}, caseSpec{})
				e.run(mSymOuterK, recv, []opnd{privateLogical(xk, n, k, 1)}, caseSpec{})
			}
		}
		e.run(mSymOuterK, recv, []opnd{id}, caseSpec{})

		// alias: another symmetric view
		for _, al := range u.sharedOps(kSym, n, n) {
			for _, ok := range otherSym {
				e.run(mSymAdd, recv, []opnd{al, privateLogical(ok, n, n, 1)}, caseSpec{})
				e.run(mSymAdd, recv, []opnd{privateLogical(ok, n, n, 1), al}, caseSpec{})
			}
			e.run(mSymAdd, recv, []opnd{id, al}, caseSpec{})
			e.run(mSymScale, recv, []opnd{al}, caseSpec{})
			e.run(mSymCopy, recv, []opnd{al}, caseSpec{})
			e.run(mSymPowPSD, recv, []opnd{al}, caseSpec{cond: []int{0}})
			e.cross(mSymRankOne, recv, []opnd{al, {}}, caseSpec{}, vslot(1, n, 1))
			e.cross(mSymRankTwo, recv, []opnd{al, {}, {}}, caseSpec{}, vslot(1, n, 1), vslot(2, n, 2))
			e.run(mSymRankK, recv, []opnd{al, privateLogical(kDense, n, 2, 1)}, caseSpec{})
			e.run(mSymRankK, recv, []opnd{al, privateLogical(kBasic, n, 2, 1)}, caseSpec{})
			e.run(mSymOuterK, recv, []opnd{al}, caseSpec{})
		}
		// SubsetSym from a larger symmetric view
		for na := n; na <= u.R && na <= n+2; na++ {
			for _, al := range u.sharedOps(kSym, na, na) {
				if !e.keep(e.div(kSym, 2, 2)) {
					continue
				}
				for _, idx := range indexClasses(n, na) {
					e.run(mSymSubset, recv, []opnd{al}, caseSpec{idx: idx})
				}
			}
		}
		// CopySym from a symmetric view of another size
		for na := 1; na <= u.R; na++ {
			if na == n {
				continue
			}
			for _, al := range u.sharedOps(kSym, na, na) {
				if e.keep(e.div(kSym, 3, 3)) {
					e.run(mSymCopy, recv, []opnd{al}, caseSpec{})
				}
			}
		}
		// alias: vector x / y
		for _, vk := range aliasVec {
			for _, al := range u.sharedOps(kVec, n, 1) {
				al.k = vk
				e.run(mSymRankOne, recv, []opnd{id, al}, caseSpec{})
				e.cross(mSymRankOne, recv, []opnd{{}, al}, caseSpec{}, symslot(0, n, 1))
				e.cross(mSymRankTwo, recv, []opnd{id, al, {}}, caseSpec{}, vslot(2, n, 2))
				e.cross(mSymRankTwo, recv, []opnd{{}, {}, al}, caseSpec{}, symslot(0, n, 1), vslot(1, n, 2))
			}
		}
		// alias: matrix x of SymRankK / SymOuterK (n x k)
		for k := 1; k <= u.C; k++ {
			for _, xk := range []kind{kDense, kDenseT, kRawWrap, kSym, kTriU, kTriLT, kVec} {
				for _, al := range u.sharedOps(xk, n, k) {
					if !e.keep(e.div(xk, 3, 3)) {
						continue
					}
					e.run(mSymRankK, recv, []opnd{id, al}, caseSpec{})
					e.cross(mSymRankK, recv, []opnd{{}, al}, caseSpec{}, symslot(0, n, 1))
					e.run(mSymOuterK, recv, []opnd{al}, caseSpec{})
				}
			}
		}
	}
}

func genTri(sq []int, rk kind) func(e *emitter, i int) {
	// Triangular operands logically of the receiver's kind.
	same := []kind{kTriU, kTriLT}
	if rk == kTriL {
		same = []kind{kTriL, kTriUT}
	}
	return func(e *emitter, i int) {
		u := e.u
		recv := e.sh(rk, u.wins[sq[i]])
		n := recv.w.r
		id := identical(recv, false)
		others := append([]kind{}, same...)
		if rk == kTriU {
			others = append(others, kDiag)
		}
		for _, ok := range others {
			e.run(mTriMul, recv, []opnd{id, privateLogical(ok, n, n, 1)}, caseSpec{})
			e.run(mTriMul, recv, []opnd{privateLogical(ok, n, n, 1), id}, caseSpec{})
			e.run(mTriScale, recv, []opnd{privateLogical(ok, n, n, 1)}, caseSpec{})
			e.run(mTriInverse, recv, []opnd{privateLogical(ok, n, n, 1)}, caseSpec{cond: []int{0}})
		}
		e.run(mTriMul, recv, []opnd{id, id}, caseSpec{})
		e.run(mTriScale, recv, []opnd{id}, caseSpec{})
		e.run(mTriInverse, recv, []opnd{id}, caseSpec{cond: []int{0}})
		e.run(mTriCopy, recv, []opnd{id}, caseSpec{})
		for _, ck := range []kind{kDense, kDenseT, kBasic, kSym, kTriU, kTriL, kTriUT, kRawWrap} {
			e.run(mTriCopy, recv, []opnd{privateLogical(ck, n, n, 1)}, caseSpec{})
		}
		for _, ak := range same {
			for _, al := range u.sharedOps(ak, n, n) {
				for _, ok := range others {
					e.run(mTriMul, recv, []opnd{al, privateLogical(ok, n, n, 1)}, caseSpec{})
					e.run(mTriMul, recv, []opnd{privateLogical(ok, n, n, 1), al}, caseSpec{})
				}
				e.run(mTriMul, recv, []opnd{id, al}, caseSpec{})
				e.run(mTriMul, recv, []opnd{al, id}, caseSpec{})
				e.run(mTriScale, recv, []opnd{al}, caseSpec{})
				e.run(mTriInverse, recv, []opnd{al}, caseSpec{cond: []int{0}})
			}
		}
		// Copy from any matrix view (Copy accepts a Matrix of any shape).
		for _, ck := range []kind{kDense, kDenseT, kRawWrap, kSym, kTriU, kTriL, kTriUT, kTriLT} {
			for nn := 1; nn <= u.R; nn++ {
				for _, al := range u.sharedOps(ck, nn, nn) {
					if nn != n && !e.keep(e.div(ck, 4, 4)) {
						continue
					}
					e.run(mTriCopy, recv, []opnd{al}, caseSpec{})
				}
			}
		}
	}
}

func runSymTri(c *vrt.Ctx, u *universe) {
	sq := u.squares()
	family(c, u, "sym", len(sq), genSym(sq))
	family(c, u, "tri.upper", len(sq), genTri(sq, kTriU))
	family(c, u, "tri.lower", len(sq), genTri(sq, kTriL))
}

// indexClasses returns hostile index sets of length n into [0,na): identity
// prefix, reversed, constant (first / last), sorted with repeats (two
// variants), a stride map with repeats, and rotated.
func indexClasses(n, na int) [][]int {
	mk := func(f func(t int) int) []int {
		s := make([]int, n)
		for t := range s {
			s[t] = f(t)
		}
		return s
	}
	return [][]int{
		mk(func(t int) int { return t % na }),
		mk(func(t int) int { return na - 1 - t%na }),
		mk(func(t int) int { return 0 }),
		mk(func(t int) int { return na - 1 }),
		mk(func(t int) int { return (t / 2) % na }),
		mk(func(t int) int { return ((t + 1) / 2) % na }),
		mk(func(t int) int { return (t*3 + 1) % na }),
		mk(func(t int) int { return (t + 1) % na }),
	}
}

// forAllIndexSets calls f with every index set of length n into [0,na), in
// lexicographic order; hostile marks the sets that are also in indexClasses.
func forAllIndexSets(n, na int, f func(set []int, hostile bool)) {
	hostile := map[string]bool{}
	key := func(s []int) string {
		b := make([]byte, len(s))
		for i, v := range s {
			b[i] = byte(v)
		}
		return string(b)
	}
	for _, c := range indexClasses(n, na) {
		hostile[key(c)] = true
	}
	set := make([]int, n)
	for {
		f(set, hostile[key(set)])
		i := n - 1
		for ; i >= 0; i-- {
			set[i]++
			if set[i] < na {
				break
			}
			set[i] = 0
		}
		if i < 0 {
			return
		}
	}
}
