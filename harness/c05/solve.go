package main

import (
	"fmt"
	"gonum.org/v1/gonum/mat"
	"gonum.org/v1/gonum/verifx/vrt"
)

// The SolveTo / SolveVecTo family: dst plays the receiver's role and may
// alias b. The factorised matrix is a fixed, well-conditioned private
// matrix (it never shares storage with dst or b).
//
// dst is an argument, not a receiver, and the C05 statement's "panics
// instead of returning" clause speaks about receivers; QR/LQ document that
// they need no overlap protection because they solve in private workspace.
// For this family an overlapping dst/b must therefore either be rejected
// with a region panic or produce the right result (method.toStyle).

type factors struct {
	lu    mat.LU
	chol  mat.Cholesky
	bchol mat.BandCholesky
	pchol mat.PivotedCholesky
	qr    map[int]*mat.QR // by number of rows m >= n
	lq    map[int]*mat.LQ // by number of rows m <= n
	tri   *mat.TriDense
	band  *mat.BandDense
	sband *mat.SymBandDense
	tdiag *mat.Tridiag
	tband *mat.TriBandDense
	svd   mat.SVD
}

// facCache holds one executor's factorizations. They are NOT shared between
// goroutines: LAPACK's Dormqr/Dormlq/Dlapmr temporarily modify the
// reflector storage / pivot slice of the factorization they are given, so a
// factorization object is not safe for concurrent SolveTo calls.
type facCache map[int]*factors

func spd(n int) *mat.SymDense {
	s := mat.NewSymDense(n, nil)
	for i := 0; i < n; i++ {
		for j := i; j < n; j++ {
			d := float64(j - i)
			v := 1 / (1 + d*d)
			if i == j {
				v = float64(n) + 1 + 0.25*float64(i)
			}
			s.SetSym(i, j, v)
		}
	}
	return s
}

func rect(m, n int) *mat.Dense {
	a := mat.NewDense(m, n, nil)
	for i := 0; i < m; i++ {
		for j := 0; j < n; j++ {
			v := 1 / (1.5 + float64((i*7+j*3)%5))
			if i == j {
				v += float64(m + n)
			}
			a.Set(i, j, v)
		}
	}
	return a
}

// Value classes of the factorised matrix (and, in exec.go, of the operand
// that a method inverts or factorises): they drive the error paths.
const (
	vcWell     = 0 // well conditioned: no error
	vcIll      = 1 // condition number about 1e17: a finite Condition error, the result is still computed
	vcSingular = 2 // exactly singular / not positive definite: Condition(+Inf) or another error, the result is undefined
)

const illScale = 3e-17

// get returns the factorizations of order n for value class vc.
func (facByN facCache) get(n, vc int) *factors {
	key := n*4 + vc
	if f, ok := facByN[key]; ok {
		return f
	}
	f := &factors{qr: map[int]*mat.QR{}, lq: map[int]*mat.LQ{}}
	scale := 1.0
	switch vc {
	case vcIll:
		scale = illScale
	case vcSingular:
		scale = 0
	}
	a := rect(n, n)
	for j := 0; j < n; j++ {
		a.Set(n-1, j, a.At(n-1, j)*scale)
	}
	f.lu.Factorize(a)
	// Cholesky family: a singular matrix cannot be factorised at all (SolveTo
	// would panic), so the singular class reuses the ill conditioned matrix;
	// PivotedCholesky rejects both (rank tolerance), it keeps the well
	// conditioned one.
	s := spd(n)
	if !f.pchol.Factorize(s, -1) {
		panic("c05: pivoted cholesky failed")
	}
	d := 1.0
	if vc != vcWell {
		d = 1e-9
	}
	for i := 0; i < n-1; i++ {
		s.SetSym(i, n-1, s.At(i, n-1)*d)
	}
	s.SetSym(n-1, n-1, s.At(n-1, n-1)*d*d)
	if !f.chol.Factorize(s) {
		panic("c05: cholesky of SPD matrix failed")
	}
	k := 1
	if n == 1 {
		k = 0
	}
	sb := mat.NewSymBandDense(n, k, nil)
	for i := 0; i < n; i++ {
		v := float64(n) + 2
		if i == n-1 {
			v *= d * d
		}
		sb.SetSymBand(i, i, v)
		if i+1 < n && k > 0 {
			o := 0.5
			if i+1 == n-1 {
				o *= d
			}
			sb.SetSymBand(i, i+1, o)
		}
	}
	if !f.bchol.Factorize(sb) {
		panic("c05: band cholesky failed")
	}
	for m := n; m <= n+2; m++ {
		r := rect(m, n)
		for i := 0; i < m; i++ {
			r.Set(i, n-1, r.At(i, n-1)*scale)
		}
		q := new(mat.QR)
		q.Factorize(r)
		f.qr[m] = q
	}
	for m := 1; m <= n; m++ {
		r := rect(m, n)
		for j := 0; j < n; j++ {
			r.Set(m-1, j, r.At(m-1, j)*scale)
		}
		l := new(mat.LQ)
		l.Factorize(r)
		f.lq[m] = l
	}
	f.tri = mat.NewTriDense(n, mat.Upper, nil)
	for i := 0; i < n; i++ {
		for j := i; j < n; j++ {
			v := rect(n, n).At(i, j)
			if i == n-1 {
				v *= scale
			}
			f.tri.SetTri(i, j, v)
		}
	}
	// Band, symmetric band, tridiagonal and triangular band matrices (band
	// width 1) and an SVD, with the same treatment of the last diagonal entry.
	kb := k
	f.band = mat.NewBandDense(n, n, kb, kb, nil)
	f.tband = mat.NewTriBandDense(n, kb, mat.Upper, nil)
	dl, dd, du := make([]float64, max(n-1, 0)), make([]float64, n), make([]float64, max(n-1, 0))
	for i := 0; i < n; i++ {
		v := float64(n) + 3 + 0.5*float64(i)
		if i == n-1 {
			v *= scale
		}
		dd[i] = v
		f.band.SetBand(i, i, v)
		f.tband.SetTriBand(i, i, v)
		if i+1 < n {
			dl[i], du[i] = 0.75, -0.5
			f.band.SetBand(i+1, i, 0.75)
			f.band.SetBand(i, i+1, -0.5)
			f.tband.SetTriBand(i, i+1, -0.5)
		}
	}
	f.sband = sb
	f.tdiag = mat.NewTridiag(n, dl, dd, du)
	if !f.svd.Factorize(a, mat.SVDFull) {
		panic("c05: svd failed")
	}
	facByN[key] = f
	return f
}

var bOnly = []string{"b"}

// Matrix forms: recv is dst (*mat.Dense). cs.n is the order of the
// factorised matrix (columns of A); cs.idx[0] its number of rows for QR/LQ.
var (
	mLUSolveTo = &method{name: "LU.SolveTo", pos: bOnly, toStyle: true, call: func(r any, o []mat.Matrix, cs *caseSpec) {
		cs.status = errClass(cs.fac.get(cs.n, cs.vclass).lu.SolveTo(dn(r), cs.trans, o[0]))
	}}
	mCholSolveTo = &method{name: "Cholesky.SolveTo", pos: bOnly, toStyle: true, call: func(r any, o []mat.Matrix, cs *caseSpec) {
		cs.status = errClass(cs.fac.get(cs.n, cs.vclass).chol.SolveTo(dn(r), o[0]))
	}}
	mBCholSolveTo = &method{name: "BandCholesky.SolveTo", pos: bOnly, toStyle: true, call: func(r any, o []mat.Matrix, cs *caseSpec) {
		cs.status = errClass(cs.fac.get(cs.n, cs.vclass).bchol.SolveTo(dn(r), o[0]))
	}}
	mPCholSolveTo = &method{name: "PivotedCholesky.SolveTo", pos: bOnly, toStyle: true, call: func(r any, o []mat.Matrix, cs *caseSpec) {
		cs.status = errClass(cs.fac.get(cs.n, cs.vclass).pchol.SolveTo(dn(r), o[0]))
	}}
	mTriSolveTo = &method{name: "TriDense.SolveTo", pos: bOnly, toStyle: true, call: func(r any, o []mat.Matrix, cs *caseSpec) {
		cs.status = errClass(cs.fac.get(cs.n, cs.vclass).tri.SolveTo(dn(r), cs.trans, o[0]))
	}}
	mQRSolveTo = &method{name: "QR.SolveTo", pos: bOnly, toStyle: true, call: func(r any, o []mat.Matrix, cs *caseSpec) {
		cs.status = errClass(cs.fac.get(cs.n, cs.vclass).qr[cs.idx[0]].SolveTo(dn(r), cs.trans, o[0]))
	}}
	mLQSolveTo = &method{name: "LQ.SolveTo", pos: bOnly, toStyle: true, call: func(r any, o []mat.Matrix, cs *caseSpec) {
		cs.status = errClass(cs.fac.get(cs.n, cs.vclass).lq[cs.idx[0]].SolveTo(dn(r), cs.trans, o[0]))
	}}

	mLUSolveVecTo = &method{name: "LU.SolveVecTo", pos: bOnly, toStyle: true, call: func(r any, o []mat.Matrix, cs *caseSpec) {
		cs.status = errClass(cs.fac.get(cs.n, cs.vclass).lu.SolveVecTo(vd(r), cs.trans, vv(o[0])))
	}}
	mCholSolveVecTo = &method{name: "Cholesky.SolveVecTo", pos: bOnly, toStyle: true, call: func(r any, o []mat.Matrix, cs *caseSpec) {
		cs.status = errClass(cs.fac.get(cs.n, cs.vclass).chol.SolveVecTo(vd(r), vv(o[0])))
	}}
	mBCholSolveVecTo = &method{name: "BandCholesky.SolveVecTo", pos: bOnly, toStyle: true, call: func(r any, o []mat.Matrix, cs *caseSpec) {
		cs.status = errClass(cs.fac.get(cs.n, cs.vclass).bchol.SolveVecTo(vd(r), vv(o[0])))
	}}
	mPCholSolveVecTo = &method{name: "PivotedCholesky.SolveVecTo", pos: bOnly, toStyle: true, call: func(r any, o []mat.Matrix, cs *caseSpec) {
		cs.status = errClass(cs.fac.get(cs.n, cs.vclass).pchol.SolveVecTo(vd(r), vv(o[0])))
	}}
	mQRSolveVecTo = &method{name: "QR.SolveVecTo", pos: bOnly, toStyle: true, call: func(r any, o []mat.Matrix, cs *caseSpec) {
		cs.status = errClass(cs.fac.get(cs.n, cs.vclass).qr[cs.idx[0]].SolveVecTo(vd(r), cs.trans, vv(o[0])))
	}}
	mLQSolveVecTo = &method{name: "LQ.SolveVecTo", pos: bOnly, toStyle: true, call: func(r any, o []mat.Matrix, cs *caseSpec) {
		cs.status = errClass(cs.fac.get(cs.n, cs.vclass).lq[cs.idx[0]].SolveVecTo(vd(r), cs.trans, vv(o[0])))
	}}
)

// Further dst-style methods: band matrix times vector, band / tridiagonal
// solves, SVD least squares (status = the returned residuals).
var xOnly = []string{"x"}
var (
	mBandMulVecTo = &method{name: "BandDense.MulVecTo", pos: xOnly, toStyle: true, call: func(r any, o []mat.Matrix, cs *caseSpec) {
		cs.fac.get(cs.n, cs.vclass).band.MulVecTo(vd(r), cs.trans, vv(o[0]))
	}}
	mSBandMulVecTo = &method{name: "SymBandDense.MulVecTo", pos: xOnly, toStyle: true, call: func(r any, o []mat.Matrix, cs *caseSpec) {
		cs.fac.get(cs.n, cs.vclass).sband.MulVecTo(vd(r), cs.trans, vv(o[0]))
	}}
	mTdiagMulVecTo = &method{name: "Tridiag.MulVecTo", pos: xOnly, toStyle: true, call: func(r any, o []mat.Matrix, cs *caseSpec) {
		cs.fac.get(cs.n, cs.vclass).tdiag.MulVecTo(vd(r), cs.trans, vv(o[0]))
	}}
	mTBandSolveTo = &method{name: "TriBandDense.SolveTo", pos: bOnly, toStyle: true, call: func(r any, o []mat.Matrix, cs *caseSpec) {
		cs.status = errClass(cs.fac.get(cs.n, cs.vclass).tband.SolveTo(dn(r), cs.trans, o[0]))
	}}
	mTBandSolveVecTo = &method{name: "TriBandDense.SolveVecTo", pos: bOnly, toStyle: true, call: func(r any, o []mat.Matrix, cs *caseSpec) {
		cs.status = errClass(cs.fac.get(cs.n, cs.vclass).tband.SolveVecTo(vd(r), cs.trans, vv(o[0])))
	}}
	mTdiagSolveTo = &method{name: "Tridiag.SolveTo", pos: bOnly, toStyle: true, call: func(r any, o []mat.Matrix, cs *caseSpec) {
		cs.status = errClass(cs.fac.get(cs.n, cs.vclass).tdiag.SolveTo(dn(r), cs.trans, o[0]))
	}}
	mTdiagSolveVecTo = &method{name: "Tridiag.SolveVecTo", pos: bOnly, toStyle: true, call: func(r any, o []mat.Matrix, cs *caseSpec) {
		cs.status = errClass(cs.fac.get(cs.n, cs.vclass).tdiag.SolveVecTo(vd(r), cs.trans, vv(o[0])))
	}}
	mSVDSolveTo = &method{name: "SVD.SolveTo", pos: bOnly, toStyle: true, call: func(r any, o []mat.Matrix, cs *caseSpec) {
		cs.status = fmt.Sprint(cs.fac.get(cs.n, vcWell).svd.SolveTo(dn(r), o[0], cs.n))
	}}
	mSVDSolveVecTo = &method{name: "SVD.SolveVecTo", pos: bOnly, toStyle: true, call: func(r any, o []mat.Matrix, cs *caseSpec) {
		cs.status = fmt.Sprint(cs.fac.get(cs.n, vcWell).svd.SolveVecTo(vd(r), vv(o[0]), cs.n))
	}}
)

type solveForm struct {
	m     *method
	trans bool
}

// genSolveTo: dst is an n x c window; b has the rows the factorization wants.
func genSolveTo(e *emitter, i int) {
	u := e.u
	recv := e.sh(kDense, u.wins[i])
	n, c := recv.w.r, recv.w.c
	bKinds := []kind{kDense, kDenseT, kRawWrap, kVec}
	privKinds := []kind{kDense, kDenseT, kBasic, kVec, kRawWrap}
	// square systems: b is n x c like dst
	sq := []solveForm{{mLUSolveTo, false}, {mLUSolveTo, true}, {mCholSolveTo, false}, {mBCholSolveTo, false},
		{mPCholSolveTo, false}, {mTriSolveTo, false}, {mTriSolveTo, true},
		{mTBandSolveTo, false}, {mTBandSolveTo, true}, {mTdiagSolveTo, false}, {mTdiagSolveTo, true}, {mSVDSolveTo, false}}
	for _, f := range sq {
		opt := caseSpec{n: n, trans: f.trans}
		e.run(f.m, recv, []opnd{identical(recv, false)}, opt)
		if n == c {
			e.run(f.m, recv, []opnd{identical(recv, true)}, opt)
		}
		for _, pk := range privKinds {
			if fits(pk, n, c) {
				e.run(f.m, recv, []opnd{privateLogical(pk, n, c, 1)}, opt)
			}
		}
		for _, bk := range bKinds {
			for _, al := range u.sharedOps(bk, n, c) {
				if e.keep(e.div(bk, 2, 3)) {
					e.run(f.m, recv, []opnd{al}, opt)
				}
			}
		}
	}
	// QR: A is m x n (m >= n). trans=false: b m x c, dst n x c. trans=true: b n x c, dst m x c.
	// LQ: A is m x n (m <= n). trans=false: b m x c, dst n x c. trans=true: b n x c, dst m x c.
	type rectForm struct {
		m      *method
		trans  bool
		nA, mA int // order (cols) and rows of A
		bRows  int
	}
	var forms []rectForm
	for extra := 0; extra <= 2; extra++ {
		if n+extra <= u.R {
			forms = append(forms, rectForm{mQRSolveTo, false, n, n + extra, n + extra}) // dst rows = cols of A = n
		}
		if n-extra >= 1 {
			forms = append(forms, rectForm{mQRSolveTo, true, n - extra, n, n - extra}) // dst rows = rows of A = n
			forms = append(forms, rectForm{mLQSolveTo, false, n, n - extra, n - extra})
		}
		if n+extra <= u.R {
			forms = append(forms, rectForm{mLQSolveTo, true, n + extra, n, n + extra})
		}
	}
	for _, f := range forms {
		opt := caseSpec{n: f.nA, idx: []int{f.mA}, trans: f.trans}
		if f.bRows == n {
			e.run(f.m, recv, []opnd{identical(recv, false)}, opt)
		}
		e.run(f.m, recv, []opnd{privateLogical(kDense, f.bRows, c, 1)}, opt)
		for _, bk := range bKinds {
			for _, al := range u.sharedOps(bk, f.bRows, c) {
				if e.keep(e.div(bk, 4, 6)) {
					e.run(f.m, recv, []opnd{al}, opt)
				}
			}
		}
	}
}

// genSolveVecTo: dst and b vector windows of the 24-word backing.
func genSolveVecTo(e *emitter, i int) {
	u := e.u
	recv := e.sh(kVec, u.vwins[i])
	n := recv.w.r
	sq := []solveForm{{mLUSolveVecTo, false}, {mLUSolveVecTo, true}, {mCholSolveVecTo, false}, {mBCholSolveVecTo, false}, {mPCholSolveVecTo, false},
		{mTBandSolveVecTo, false}, {mTBandSolveVecTo, true}, {mTdiagSolveVecTo, false}, {mTdiagSolveVecTo, true}, {mSVDSolveVecTo, false},
		{mBandMulVecTo, false}, {mBandMulVecTo, true}, {mSBandMulVecTo, false}, {mTdiagMulVecTo, false}, {mTdiagMulVecTo, true}}
	for _, f := range sq {
		opt := caseSpec{n: n, trans: f.trans}
		e.run(f.m, recv, []opnd{identical(recv, false)}, opt)
		e.run(f.m, recv, []opnd{privateLogical(kVec, n, 1, 1)}, opt)
		e.run(f.m, recv, []opnd{privateLogical(kBasicVec, n, 1, 1)}, opt)
		for _, al := range u.sharedOps(kVec, n, 1) {
			if e.keep(e.div(kVec, 2, 2)) {
				e.run(f.m, recv, []opnd{al}, opt)
			}
		}
	}
	for extra := 0; extra <= 1; extra++ {
		type vf struct {
			m      *method
			trans  bool
			nA, mA int
			bLen   int
		}
		var forms []vf
		if n+extra <= 5 {
			forms = append(forms, vf{mQRSolveVecTo, false, n, n + extra, n + extra}, vf{mLQSolveVecTo, true, n + extra, n, n + extra})
		}
		if n-extra >= 1 {
			forms = append(forms, vf{mQRSolveVecTo, true, n - extra, n, n - extra}, vf{mLQSolveVecTo, false, n, n - extra, n - extra})
		}
		for _, f := range forms {
			opt := caseSpec{n: f.nA, idx: []int{f.mA}, trans: f.trans}
			if f.bLen == n {
				e.run(f.m, recv, []opnd{identical(recv, false)}, opt)
			}
			e.run(f.m, recv, []opnd{privateLogical(kVec, f.bLen, 1, 1)}, opt)
			for _, al := range u.sharedOps(kVec, f.bLen, 1) {
				if e.keep(e.div(kVec, 4, 4)) {
					e.run(f.m, recv, []opnd{al}, opt)
				}
			}
		}
	}
}

func runSolveTo(c *vrt.Ctx, u6, uv *universe) {
	family(c, u6, "solveto", len(u6.wins), genSolveTo)
	family(c, uv, "solvevecto", len(uv.vwins), genSolveVecTo)
}
