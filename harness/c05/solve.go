package main

import (
	"gonum.org/v1/gonum/mat"
	"gonum.org/v1/gonum/verifx/vrt"
)

// The SolveTo / SolveVecTo family: dst plays the receiver's role and may
// alias b. The factorised matrix is a fixed, well-conditioned private
// matrix (it never shares storage with dst or b).
//
// dst is an argument, not a receiver, and the C05 statement's "panics
// instead of returning" clause speaks about receivers; QR/LQ document that
// they need no overlap protection because they solve in private workspace.
// For this family an overlapping dst/b must therefore either be rejected
// with a region panic or produce the right result (method.toStyle).

type factors struct {
	lu    mat.LU
	chol  mat.Cholesky
	bchol mat.BandCholesky
	pchol mat.PivotedCholesky
	qr    map[int]*mat.QR // by number of rows m >= n
	lq    map[int]*mat.LQ // by number of rows m <= n
	tri   *mat.TriDense
}

// facCache holds one executor's factorizations. They are NOT shared between
// goroutines: LAPACK's Dormqr/Dormlq/Dlapmr temporarily modify the
// reflector storage / pivot slice of the factorization they are given, so a
// factorization object is not safe for concurrent SolveTo calls.
type facCache map[int]*factors

func spd(n int) *mat.SymDense {
	s := mat.NewSymDense(n, nil)
	for i := 0; i < n; i++ {
		for j := i; j < n; j++ {
			d := float64(j - i)
			v := 1 / (1 + d*d)
			if i == j {
				v = float64(n) + 1 + 0.25*float64(i)
			}
			s.SetSym(i, j, v)
		}
	}
	return s
}

func rect(m, n int) *mat.Dense {
	a := mat.NewDense(m, n, nil)
	for i := 0; i < m; i++ {
		for j := 0; j < n; j++ {
			v := 1 / (1.5 + float64((i*7+j*3)%5))
			if i == j {
				v += float64(m + n)
			}
			a.Set(i, j, v)
		}
	}
	return a
}

// get returns the factorizations of order n.
func (facByN facCache) get(n int) *factors {
	if f, ok := facByN[n]; ok {
		return f
	}
	f := &factors{qr: map[int]*mat.QR{}, lq: map[int]*mat.LQ{}}
	s := spd(n)
	f.lu.Factorize(rect(n, n))
	if !f.chol.Factorize(s) {
		panic("c05: cholesky of SPD matrix failed")
	}
	k := 1
	if n == 1 {
		k = 0
	}
	sb := mat.NewSymBandDense(n, k, nil)
	for i := 0; i < n; i++ {
		sb.SetSymBand(i, i, float64(n)+2)
		if i+1 < n && k > 0 {
			sb.SetSymBand(i, i+1, 0.5)
		}
	}
	if !f.bchol.Factorize(sb) {
		panic("c05: band cholesky failed")
	}
	if !f.pchol.Factorize(s, -1) {
		panic("c05: pivoted cholesky failed")
	}
	for m := n; m <= n+2; m++ {
		q := new(mat.QR)
		q.Factorize(rect(m, n))
		f.qr[m] = q
	}
	for m := 1; m <= n; m++ {
		l := new(mat.LQ)
		l.Factorize(rect(m, n))
		f.lq[m] = l
	}
	f.tri = mat.NewTriDense(n, mat.Upper, nil)
	for i := 0; i < n; i++ {
		for j := i; j < n; j++ {
			f.tri.SetTri(i, j, rect(n, n).At(i, j))
		}
	}
	facByN[n] = f
	return f
}

var bOnly = []string{"b"}

// Matrix forms: recv is dst (*mat.Dense). cs.n is the order of the
// factorised matrix (columns of A); cs.idx[0] its number of rows for QR/LQ.
var (
	mLUSolveTo    = &method{name: "LU.SolveTo", pos: bOnly, toStyle: true, call: func(r any, o []mat.Matrix, cs *caseSpec) { _ = cs.fac.get(cs.n).lu.SolveTo(dn(r), cs.trans, o[0]) }}
	mCholSolveTo  = &method{name: "Cholesky.SolveTo", pos: bOnly, toStyle: true, call: func(r any, o []mat.Matrix, cs *caseSpec) { _ = cs.fac.get(cs.n).chol.SolveTo(dn(r), o[0]) }}
	mBCholSolveTo = &method{name: "BandCholesky.SolveTo", pos: bOnly, toStyle: true, call: func(r any, o []mat.Matrix, cs *caseSpec) { _ = cs.fac.get(cs.n).bchol.SolveTo(dn(r), o[0]) }}
	mPCholSolveTo = &method{name: "PivotedCholesky.SolveTo", pos: bOnly, toStyle: true, call: func(r any, o []mat.Matrix, cs *caseSpec) { _ = cs.fac.get(cs.n).pchol.SolveTo(dn(r), o[0]) }}
	mTriSolveTo   = &method{name: "TriDense.SolveTo", pos: bOnly, toStyle: true, call: func(r any, o []mat.Matrix, cs *caseSpec) { _ = cs.fac.get(cs.n).tri.SolveTo(dn(r), cs.trans, o[0]) }}
	mQRSolveTo    = &method{name: "QR.SolveTo", pos: bOnly, toStyle: true, call: func(r any, o []mat.Matrix, cs *caseSpec) {
		_ = cs.fac.get(cs.n).qr[cs.idx[0]].SolveTo(dn(r), cs.trans, o[0])
	}}
	mLQSolveTo = &method{name: "LQ.SolveTo", pos: bOnly, toStyle: true, call: func(r any, o []mat.Matrix, cs *caseSpec) {
		_ = cs.fac.get(cs.n).lq[cs.idx[0]].SolveTo(dn(r), cs.trans, o[0])
	}}

	mLUSolveVecTo = &method{name: "LU.SolveVecTo", pos: bOnly, toStyle: true, call: func(r any, o []mat.Matrix, cs *caseSpec) {
		_ = cs.fac.get(cs.n).lu.SolveVecTo(vd(r), cs.trans, vv(o[0]))
	}}
	mCholSolveVecTo  = &method{name: "Cholesky.SolveVecTo", pos: bOnly, toStyle: true, call: func(r any, o []mat.Matrix, cs *caseSpec) { _ = cs.fac.get(cs.n).chol.SolveVecTo(vd(r), vv(o[0])) }}
	mBCholSolveVecTo = &method{name: "BandCholesky.SolveVecTo", pos: bOnly, toStyle: true, call: func(r any, o []mat.Matrix, cs *caseSpec) { _ = cs.fac.get(cs.n).bchol.SolveVecTo(vd(r), vv(o[0])) }}
	mPCholSolveVecTo = &method{name: "PivotedCholesky.SolveVecTo", pos: bOnly, toStyle: true, call: func(r any, o []mat.Matrix, cs *caseSpec) { _ = cs.fac.get(cs.n).pchol.SolveVecTo(vd(r), vv(o[0])) }}
	mQRSolveVecTo    = &method{name: "QR.SolveVecTo", pos: bOnly, toStyle: true, call: func(r any, o []mat.Matrix, cs *caseSpec) {
		_ = cs.fac.get(cs.n).qr[cs.idx[0]].SolveVecTo(vd(r), cs.trans, vv(o[0]))
	}}
	mLQSolveVecTo = &method{name: "LQ.SolveVecTo", pos: bOnly, toStyle: true, call: func(r any, o []mat.Matrix, cs *caseSpec) {
		_ = cs.fac.get(cs.n).lq[cs.idx[0]].SolveVecTo(vd(r), cs.trans, vv(o[0]))
	}}
)

type solveForm struct {
	m     *method
	trans bool
}

// genSolveTo: dst is an n x c window; b has the rows the factorization wants.
func genSolveTo(e *emitter, i int) {
	u := e.u
	recv := e.sh(kDense, u.wins[i])
	n, c := recv.w.r, recv.w.c
	bKinds := []kind{kDense, kDenseT, kRawWrap, kVec}
	privKinds := []kind{kDense, kDenseT, kBasic, kVec, kRawWrap}
	// square systems: b is n x c like dst
	sq := []solveForm{{mLUSolveTo, false}, {mLUSolveTo, true}, {mCholSolveTo, false}, {mBCholSolveTo, false},
		{mPCholSolveTo, false}, {mTriSolveTo, false}, {mTriSolveTo, true}}
	for _, f := range sq {
		opt := caseSpec{n: n, trans: f.trans}
		e.run(f.m, recv, []opnd{identical(recv, false)}, opt)
		if n == c {
			e.run(f.m, recv, []opnd{identical(recv, true)}, opt)
		}
		for _, pk := range privKinds {
			if fits(pk, n, c) {
				e.run(f.m, recv, []opnd{privateLogical(pk, n, c, 1)}, opt)
			}
		}
		for _, bk := range bKinds {
			for _, al := range u.sharedOps(bk, n, c) {
				if e.keep(e.div(bk, 2, 3)) {
					e.run(f.m, recv, []opnd{al}, opt)
				}
			}
		}
	}
	// QR: A is m x n (m >= n). trans=false: b m x c, dst n x c. trans=true: b n x c, dst m x c.
	// LQ: A is m x n (m <= n). trans=false: b m x c, dst n x c. trans=true: b n x c, dst m x c.
	type rectForm struct {
		m      *method
		trans  bool
		nA, mA int // order (cols) and rows of A
		bRows  int
	}
	var forms []rectForm
	for extra := 0; extra <= 2; extra++ {
		if n+extra <= u.R {
			forms = append(forms, rectForm{mQRSolveTo, false, n, n + extra, n + extra}) // dst rows = cols of A = n
		}
		if n-extra >= 1 {
			forms = append(forms, rectForm{mQRSolveTo, true, n - extra, n, n - extra}) // dst rows = rows of A = n
			forms = append(forms, rectForm{mLQSolveTo, false, n, n - extra, n - extra})
		}
		if n+extra <= u.R {
			forms = append(forms, rectForm{mLQSolveTo, true, n + extra, n, n + extra})
		}
	}
	for _, f := range forms {
		opt := caseSpec{n: f.nA, idx: []int{f.mA}, trans: f.trans}
		if f.bRows == n {
			e.run(f.m, recv, []opnd{identical(recv, false)}, opt)
		}
		e.run(f.m, recv, []opnd{privateLogical(kDense, f.bRows, c, 1)}, opt)
		for _, bk := range bKinds {
			for _, al := range u.sharedOps(bk, f.bRows, c) {
				if e.keep(e.div(bk, 4, 6)) {
					e.run(f.m, recv, []opnd{al}, opt)
				}
			}
		}
	}
}

// genSolveVecTo: dst and b vector windows of the 24-word backing.
func genSolveVecTo(e *emitter, i int) {
	u := e.u
	recv := e.sh(kVec, u.vwins[i])
	n := recv.w.r
	sq := []solveForm{{mLUSolveVecTo, false}, {mLUSolveVecTo, true}, {mCholSolveVecTo, false}, {mBCholSolveVecTo, false}, {mPCholSolveVecTo, false}}
	for _, f := range sq {
		opt := caseSpec{n: n, trans: f.trans}
		e.run(f.m, recv, []opnd{identical(recv, false)}, opt)
		e.run(f.m, recv, []opnd{privateLogical(kVec, n, 1, 1)}, opt)
		e.run(f.m, recv, []opnd{privateLogical(kBasicVec, n, 1, 1)}, opt)
		for _, al := range u.sharedOps(kVec, n, 1) {
			if e.keep(e.div(kVec, 2, 2)) {
				e.run(f.m, recv, []opnd{al}, opt)
			}
		}
	}
	for extra := 0; extra <= 1; extra++ {
		type vf struct {
			m      *method
			trans  bool
			nA, mA int
			bLen   int
		}
		var forms []vf
		if n+extra <= 5 {
			forms = append(forms, vf{mQRSolveVecTo, false, n, n + extra, n + extra}, vf{mLQSolveVecTo, true, n + extra, n, n + extra})
		}
		if n-extra >= 1 {
			forms = append(forms, vf{mQRSolveVecTo, true, n - extra, n, n - extra}, vf{mLQSolveVecTo, false, n, n - extra, n - extra})
		}
		for _, f := range forms {
			opt := caseSpec{n: f.nA, idx: []int{f.mA}, trans: f.trans}
			if f.bLen == n {
				e.run(f.m, recv, []opnd{identical(recv, false)}, opt)
			}
			e.run(f.m, recv, []opnd{privateLogical(kVec, f.bLen, 1, 1)}, opt)
			for _, al := range u.sharedOps(kVec, f.bLen, 1) {
				if e.keep(e.div(kVec, 4, 4)) {
					e.run(f.m, recv, []opnd{al}, opt)
				}
			}
		}
	}
}

func runSolveTo(c *vrt.Ctx, u6, uv *universe) {
	family(c, u6, "solveto", len(u6.wins), genSolveTo)
	family(c, uv, "solvevecto", len(uv.vwins), genSolveVecTo)
}
