package main

// Ground truth for "do two views share elements" is computed here from
// explicit sets of backing-array word indices. Nothing in this file uses
// modular column arithmetic or offsets between slice heads: a window is
// expanded into the list of words it addresses and two windows intersect
// iff their lists share a word.

// bset is a set of word indices of one backing array.
type bset []uint64

func newBset(n int) bset { return make(bset, (n+63)/64) }

func (b bset) add(i int)      { b[i>>6] |= 1 << uint(i&63) }
func (b bset) has(i int) bool { return b[i>>6]&(1<<uint(i&63)) != 0 }

func (b bset) intersects(o bset) bool {
	for i := range b {
		if b[i]&o[i] != 0 {
			return true
		}
	}
	return false
}

func (b bset) equal(o bset) bool {
	for i := range b {
		if b[i] != o[i] {
			return false
		}
	}
	return true
}

func (b bset) union(o bset) bset {
	r := make(bset, len(b))
	for i := range b {
		r[i] = b[i] | o[i]
	}
	return r
}

// win is a strided window of a backing array: element (i,j), 0<=i<r,
// 0<=j<c, lives in word off+i*st+j. Vectors are windows with c==1 and
// st==inc.
type win struct{ off, r, c, st int }

// span is the number of words from the first to the last addressed word.
func (w win) span() int { return (w.r-1)*w.st + w.c }

// shape of storage a kind addresses inside its window.
type tri uint8

const (
	full tri = iota
	upper
	lower
)

// wordsOf returns the set of words of window w restricted to the triangle t
// (full = the whole rectangle).
func wordsOf(w win, t tri, size int) bset {
	s := newBset(size)
	for i := 0; i < w.r; i++ {
		for j := 0; j < w.c; j++ {
			if t == upper && j < i || t == lower && j > i {
				continue
			}
			s.add(w.off + i*w.st + j)
		}
	}
	return s
}

// allWins returns every rectangular window of an R x C row-major backing
// (stride C) in a fixed order.
func allWins(R, C int) []win {
	var ws []win
	for r := 1; r <= R; r++ {
		for c := 1; c <= C; c++ {
			for i := 0; i+r <= R; i++ {
				for j := 0; j+c <= C; j++ {
					ws = append(ws, win{off: i*C + j, r: r, c: c, st: C})
				}
			}
		}
	}
	return ws
}

// vecWins returns every vector window (off, n, inc) with 1<=n<=maxN,
// 1<=inc<=maxInc that fits in L words.
func vecWins(L, maxN, maxInc int) []win {
	var ws []win
	for n := 1; n <= maxN; n++ {
		for inc := 1; inc <= maxInc; inc++ {
			for off := 0; off+(n-1)*inc < L; off++ {
				ws = append(ws, win{off: off, r: n, c: 1, st: inc})
			}
		}
	}
	return ws
}

// rel is the ground-truth relation between the receiver and one operand.
type rel uint8

const (
	relNone      rel = iota // operand lives in a private array
	relDisjoint             // same backing, no shared word, same stride
	relDisjointX            // same backing, no shared word, different stride
	relAmbig                // rectangles share words, addressed triangles do not
	relIdent                // the operand is the receiver Go value (possibly under T)
	relSame                 // distinct Go value addressing exactly the receiver's words
	relPartial              // shares some addressed word, not the same Go value
)

var relName = [...]string{"private", "disjoint", "disjoint-diffstride", "rect-only", "identical", "same-region", "partial"}

func (r rel) String() string { return relName[r] }
