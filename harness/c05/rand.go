package main

import (
	"gonum.org/v1/gonum/verifx/vrt"
)

// Sampled geometry beyond the exhaustive bound. Only kind combinations that
// the exhaustive 6x6 / 24-word families also enumerate are used here, so
// these families add geometry (other strides, windows that are offset by
// less than a row against each other, 40x40 backings, longer vectors with
// larger increments) but no new dispatch paths.

// randWin draws an r x c window of stride st that fits in size words, with
// its first word in [lo, hi].
func randWin(rng *vrt.Rand, r, c, st, size, lo, hi int) (win, bool) {
	w := win{r: r, c: c, st: st}
	maxOff := size - w.span()
	if maxOff < 0 {
		return w, false
	}
	if lo < 0 {
		lo = 0
	}
	if hi > maxOff {
		hi = maxOff
	}
	if hi < lo {
		return w, false
	}
	w.off = rng.Range(lo, hi)
	return w, true
}

// strideWins lists every window (off, r<=3, c<=min(3,st), st) with st in
// {2,3,4,5,7} that fits in size words. Windows of one stride may start at
// any word, so two of them can be offset by less than a row against each
// other (views made by NewDense over different sub-slices of one array).
func strideWins(size int) []win {
	var ws []win
	for _, st := range []int{2, 3, 4, 5, 7} {
		for r := 1; r <= 3; r++ {
			for c := 1; c <= 3 && c <= st; c++ {
				w := win{r: r, c: c, st: st}
				for off := 0; off+w.span() <= size; off++ {
					w.off = off
					ws = append(ws, w)
				}
			}
		}
	}
	return ws
}

// genStrides: exhaustive pairs of windows with equal and unequal strides in
// a 24-word backing (both tiers; the quick tier samples the pairs).
func genStrides(ws []win) func(e *emitter, i int) {
	return func(e *emitter, i int) {
		size := e.u.size
		recv := shared(kDense, ws[i], size)
		r, c := recv.w.r, recv.w.c
		for _, w := range ws {
			if w.r == r && w.c == c && e.keep(3) {
				al := shared(kDense, w, size)
				e.run(mDenseAdd, recv, []opnd{al, privateLogical(kDense, r, c, 1)}, caseSpec{})
				e.run(mDenseSub, recv, []opnd{privateLogical(kDense, r, c, 1), al}, caseSpec{})
				e.run(mDenseScale, recv, []opnd{al}, caseSpec{})
				e.run(mDenseCopy, recv, []opnd{al}, caseSpec{})
			}
			if w.r == c && w.c == r && e.keep(6) {
				al := shared(kDenseT, w, size)
				e.run(mDenseAdd, recv, []opnd{al, privateLogical(kDense, r, c, 1)}, caseSpec{})
				e.run(mDenseCopy, recv, []opnd{al}, caseSpec{})
			}
			if w.r == r && e.keep(6) {
				e.run(mDenseMul, recv, []opnd{shared(kDense, w, size), privateLogical(kDense, w.c, c, 1)}, caseSpec{})
			}
			if w.c == c && e.keep(6) {
				e.run(mDenseMul, recv, []opnd{privateLogical(kDense, r, w.r, 1), shared(kDense, w, size)}, caseSpec{})
			}
		}
	}
}

// genBig: random windows of a 40x40 backing (stride 40) and its column /
// row vector views; longer strided vectors.
func genBig(nPer int) func(e *emitter, i int) {
	return func(e *emitter, i int) {
		size := e.u.size
		C := e.u.C
		rng := e.rng
		for n := 0; n < nPer; n++ {
			r, c := rng.Range(1, 9), rng.Range(1, 9)
			i0, j0 := rng.Intn(e.u.R-r+1), rng.Intn(C-c+1)
			wr := win{off: i0*C + j0, r: r, c: c, st: C}
			recv := shared(kDense, wr, size)
			place := func(rr, cc int) (win, bool) {
				if rr > e.u.R || cc > C {
					return win{}, false
				}
				// near the receiver so that overlaps are frequent
				i1 := i0 + rng.Range(-rr, r)
				j1 := j0 + rng.Range(-cc, c)
				if rng.Intn(5) == 0 {
					i1, j1 = rng.Intn(e.u.R), rng.Intn(C)
				}
				if i1 < 0 || j1 < 0 || i1+rr > e.u.R || j1+cc > C {
					return win{}, false
				}
				return win{off: i1*C + j1, r: rr, c: cc, st: C}, true
			}
			if w, ok := place(r, c); ok {
				al := shared(kDense, w, size)
				e.run(mDenseAdd, recv, []opnd{al, privateLogical(kDense, r, c, 1)}, caseSpec{})
				e.run(mDenseMulElem, recv, []opnd{privateLogical(kDense, r, c, 1), al}, caseSpec{})
				e.run(mDenseScale, recv, []opnd{al}, caseSpec{})
				e.run(mDenseApply, recv, []opnd{al}, caseSpec{})
				e.run(mDenseCopy, recv, []opnd{al}, caseSpec{})
			}
			if w, ok := place(c, r); ok {
				al := shared(kDenseT, w, size)
				e.run(mDenseAdd, recv, []opnd{al, privateLogical(kDense, r, c, 1)}, caseSpec{})
				e.run(mDenseScale, recv, []opnd{al}, caseSpec{})
			}
			k := rng.Range(1, 9)
			if w, ok := place(r, k); ok {
				e.run(mDenseMul, recv, []opnd{shared(kDense, w, size), privateLogical(kDense, k, c, 1)}, caseSpec{})
			}
			if w, ok := place(k, c); ok {
				e.run(mDenseMul, recv, []opnd{privateLogical(kDense, r, k, 1), shared(kDense, w, size)}, caseSpec{})
			}
			// vectors: longer, larger increments, inside the first 400 words
			vn, inc := rng.Range(1, 12), rng.Range(1, 9)
			if vw, ok := randWin(rng, vn, 1, inc, 400, 0, 400); ok {
				vrecv := shared(kVec, vw, size)
				inc2 := inc
				if rng.Intn(4) == 0 {
					inc2 = rng.Range(1, 9)
				}
				if aw, ok := randWin(rng, vn, 1, inc2, 400, vw.off-3*inc*vn, vw.off+3*inc*vn); ok {
					al := shared(kVec, aw, size)
					e.run(mVecAdd, vrecv, []opnd{al, privateLogical(kVec, vn, 1, 1)}, caseSpec{})
					e.run(mVecSub, vrecv, []opnd{privateLogical(kVec, vn, 1, 1), al}, caseSpec{})
					e.run(mVecScale, vrecv, []opnd{al}, caseSpec{})
					e.run(mVecMulElem, vrecv, []opnd{al, privateLogical(kVec, vn, 1, 1)}, caseSpec{})
				}
			}
		}
	}
}

func runRandom(c *vrt.Ctx) {
	u24 := &universe{size: 24, R: 4, C: 6}
	sw := strideWins(24)
	family(c, u24, "strides", len(sw), genStrides(sw))
	u40 := &universe{size: 1600, R: 40, C: 40}
	family(c, u40, "big", 64, genBig(pick(c, 60, 1500)))
}

func pick(c *vrt.Ctx, q, t int) int {
	if thorough(c) {
		return t
	}
	return q
}
