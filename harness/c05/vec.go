package main

import (
	"fmt"
	"sync"

	"gonum.org/v1/gonum/mat"
	"gonum.org/v1/gonum/verifx/vrt"
)

func vd(r any) *mat.VecDense     { return r.(*mat.VecDense) }
func vv(m mat.Matrix) mat.Vector { return m.(mat.Vector) }

var (
	mVecAdd     = &method{name: "VecDense.AddVec", pos: ab, call: func(r any, o []mat.Matrix, _ *caseSpec) { vd(r).AddVec(vv(o[0]), vv(o[1])) }}
	mVecSub     = &method{name: "VecDense.SubVec", pos: ab, call: func(r any, o []mat.Matrix, _ *caseSpec) { vd(r).SubVec(vv(o[0]), vv(o[1])) }}
	mVecMulElem = &method{name: "VecDense.MulElemVec", pos: ab, call: func(r any, o []mat.Matrix, _ *caseSpec) { vd(r).MulElemVec(vv(o[0]), vv(o[1])) }}
	mVecDivElem = &method{name: "VecDense.DivElemVec", pos: ab, call: func(r any, o []mat.Matrix, _ *caseSpec) { vd(r).DivElemVec(vv(o[0]), vv(o[1])) }}
	mVecScale   = &method{name: "VecDense.ScaleVec", pos: aOnly, call: func(r any, o []mat.Matrix, cs *caseSpec) { vd(r).ScaleVec(cs.alpha, vv(o[0])) }}
	mVecCopy    = &method{name: "VecDense.CopyVec", pos: aOnly, copyLike: true, call: func(r any, o []mat.Matrix, cs *caseSpec) { cs.status = fmt.Sprint(vd(r).CopyVec(vv(o[0]))) }}
	mVecAddSc   = &method{name: "VecDense.AddScaledVec", pos: ab, call: func(r any, o []mat.Matrix, cs *caseSpec) { vd(r).AddScaledVec(vv(o[0]), cs.alpha, vv(o[1])) }}
	mVecMulVec  = &method{name: "VecDense.MulVec", pos: ab, call: func(r any, o []mat.Matrix, _ *caseSpec) { vd(r).MulVec(o[0], vv(o[1])) }}
	mVecSolve   = &method{name: "VecDense.SolveVec", pos: ab, errOp: 1, call: func(r any, o []mat.Matrix, cs *caseSpec) { cs.status = errClass(vd(r).SolveVec(o[0], vv(o[1]))) }}
)

var mVecPermute = &method{name: "VecDense.Permute", call: func(r any, _ []mat.Matrix, cs *caseSpec) { vd(r).Permute(append([]int(nil), cs.idx...), cs.trans) }}

const (
	sigGeomVecFalse = "geom|VecDense.checkOverlap|disjoint-same-inc|region-panic"
	sigGeomVecMiss  = "geom|VecDense.checkOverlap|partial-overlap|no-panic"
)

// newVecUniverse is the 24-word backing of the vector geometry: every
// (offset, n<=5, inc<=4) vector window, plus the rectangular windows of its
// 4 x 6 matrix reading for the matrix operands of MulVec / SolveVec.
func newVecUniverse() *universe {
	u := newUniverse(4, 6)
	u.vwins = vecWins(24, 5, 4)
	u.vbyN = make([][]int, 7)
	for i, w := range u.vwins {
		u.vbyN[w.r] = append(u.vbyN[w.r], i)
	}
	return u
}

// canonicalVecPanics reports whether the canonical probes of
// (*VecDense).checkOverlap raise a region panic for receiver window wr and
// operand window wa (distinct values, every other operand private). Two
// independent methods are asked (AddVec and SubVec for equal lengths, MulVec
// and SolveVec otherwise); agree is false when they differ, in which case
// nothing is attributed to the predicate.
func canonicalVecPanics(wr, wa win, size int) (panics, agree bool) {
	key := [2]win{wr, wa}
	canonMu.Lock()
	v, ok := canonCache[key]
	canonMu.Unlock()
	if ok {
		return v&1 != 0, v&2 != 0
	}
	probe := func(f func(recv, op *mat.VecDense)) bool {
		a := make([]float64, size)
		fill(a, 12345, 0)
		recv := buildBase(kVec, wr, a).(*mat.VecDense)
		op := buildBase(kVec, wa, a).(*mat.VecDense)
		return isRegionPanic(try(func() { f(recv, op) }))
	}
	var p1, p2 bool
	if wr.r == wa.r {
		b := mat.NewVecDense(wr.r, nil)
		p1 = probe(func(recv, op *mat.VecDense) { recv.AddVec(op, b) })
		p2 = probe(func(recv, op *mat.VecDense) { recv.SubVec(b, op) })
	} else {
		am := mat.NewDense(wr.r, wa.r, nil)
		at := mat.NewDense(wa.r, wr.r, nil)
		for i := 0; i < wr.r; i++ {
			for j := 0; j < wa.r; j++ {
				am.Set(i, j, fillVal(99, 1, i*8+j))
				at.Set(j, i, fillVal(99, 2, i*8+j))
			}
		}
		p1 = probe(func(recv, op *mat.VecDense) { recv.MulVec(am, op) })
		p2 = probe(func(recv, op *mat.VecDense) { _ = recv.SolveVec(at, op) })
	}
	var enc uint8
	if p1 {
		enc |= 1
	}
	if p1 == p2 {
		enc |= 2
	}
	canonMu.Lock()
	canonCache[key] = enc
	canonMu.Unlock()
	return p1, p1 == p2
}

var (
	canonMu    sync.Mutex
	canonCache = map[[2]win]uint8{}
)

// attribute maps a misbehaviour of a VecDense-receiver method to the
// overlap predicate itself when the canonical probes misjudge the very same
// pair of windows: then the method is innocent and the witness is counted
// under the predicate's signature. panicked: a legal call was rejected;
// otherwise an overlapping call returned.
func (x *executor) attribute(cs *caseSpec, rels []rel, panicked bool) string {
	if cs.recv.k != kVec {
		return ""
	}
	hit := false
	for i := range cs.ops {
		o := &cs.ops[i]
		if o.arr != 0 || o.same {
			continue
		}
		if o.k != kVec && o.k != kVecT {
			return ""
		}
		pp, agree := canonicalVecPanics(cs.recv.w, o.w, cs.size)
		if !agree {
			return ""
		}
		if panicked {
			if rels[i] == relDisjoint && pp {
				hit = true
			}
		} else {
			if rels[i] == relPartial {
				if pp {
					return "" // the predicate is right here; the method did not ask it
				}
				hit = true
			}
		}
	}
	if !hit {
		return ""
	}
	if panicked {
		return sigGeomVecFalse
	}
	return sigGeomVecMiss
}

var aliasVec = []kind{kVec, kVecT}

// genVecBinary: recv, a, b all of length n.
func genVecBinary(ms []*method, alphas []float64) func(e *emitter, i int) {
	return func(e *emitter, i int) {
		u := e.u
		recv := e.sh(kVec, u.vwins[i])
		n := recv.w.r
		for _, m := range ms {
			for _, alpha := range alphas {
				opt := caseSpec{alpha: alpha, zero: alpha == 0}
				// receiver in either or both positions
				for _, t := range []bool{false, true} {
					if t && !e.thor && !e.keep(2) {
						continue
					}
					for _, ok := range []kind{kVec, kVecT, kBasicVec} {
						e.run(m, recv, []opnd{identical(recv, t), privateLogical(ok, sel(ok == kVecT, 1, n), sel(ok == kVecT, n, 1), 1)}, opt)
						e.run(m, recv, []opnd{privateLogical(ok, sel(ok == kVecT, 1, n), sel(ok == kVecT, n, 1), 1), identical(recv, t)}, opt)
					}
				}
				e.run(m, recv, []opnd{identical(recv, false), identical(recv, false)}, opt)
				e.cross(m, recv, []opnd{{}, {}}, opt, vslot(0, n, 1), vslot(1, n, 2))
				for _, ak := range aliasVec {
					d := 1
					if !e.thor {
						d = 4 * len(alphas)
					}
					for _, al := range u.sharedOps(kVec, n, 1) {
						al.k = ak
						if !e.keep(d) {
							// geometry layer: the first method of the family with a
							// private VecDense, every window pair, both positions.
							if m == ms[0] && ak == kVec && alpha == alphas[0] {
								e.run(m, recv, []opnd{al, privateLogical(kVec, n, 1, 1)}, opt)
								e.run(m, recv, []opnd{privateLogical(kVec, n, 1, 1), al}, opt)
							}
							continue
						}
						for p := 0; p < 2; p++ {
							for _, ok := range otherVec {
								ops := make([]opnd, 2)
								ops[p] = al
								ops[1-p] = privateLogical(ok, sel(ok == kVecT, 1, n), sel(ok == kVecT, n, 1), 1)
								e.run(m, recv, ops, opt)
							}
						}
						if e.keep(4) {
							e.run(m, recv, []opnd{identical(recv, false), al}, opt)
							e.run(m, recv, []opnd{al, identical(recv, false)}, opt)
						}
					}
				}
			}
		}
	}
}

func sel(c bool, a, b int) int {
	if c {
		return a
	}
	return b
}

// genVecUnary: ScaleVec, CopyVec, CloneFromVec.
func genVecUnary(ms []*method) func(e *emitter, i int) {
	return func(e *emitter, i int) {
		u := e.u
		recv := e.sh(kVec, u.vwins[i])
		n := recv.w.r
		for _, inv := range []bool{false, true} {
			for _, p := range permClasses(n) {
				e.run(mVecPermute, recv, nil, caseSpec{idx: p, trans: inv})
			}
		}
		for _, m := range ms {
			e.run(m, recv, []opnd{identical(recv, false)}, caseSpec{})
			e.run(m, recv, []opnd{identical(recv, true)}, caseSpec{})
			for _, ok := range otherVec {
				e.run(m, recv, []opnd{privateLogical(ok, sel(ok == kVecT, 1, n), sel(ok == kVecT, n, 1), 1)}, caseSpec{})
			}
			for _, ak := range aliasVec {
				for _, al := range u.sharedOps(kVec, n, 1) {
					al.k = ak
					e.run(m, recv, []opnd{al}, caseSpec{})
				}
			}
		}
		// CopyVec with a source of another length.
		for nn := 1; nn <= 5; nn++ {
			if nn == n {
				continue
			}
			for _, al := range u.sharedOps(kVec, nn, 1) {
				if e.keep(e.div(kVec, 4, 4)) {
					e.run(mVecCopy, recv, []opnd{al}, caseSpec{})
				}
			}
		}
	}
}

// genVecMulVec: recv (n) = a (n x k) * b (k); SolveVec: recv (n) solves a (m x n) x = b (m).
func genVecMulVec(e *emitter, i int) {
	u := e.u
	recv := e.sh(kVec, u.vwins[i])
	n := recv.w.r
	matOthers := []kind{kDense, kDenseT, kBasic, kSym, kTriU, kTriLT, kRawWrap, kVec, kDiag}
	for k := 1; k <= 5; k++ {
		// alias in b (MulVec requires a column b)
		for _, bk := range []kind{kVec} {
			for _, al := range u.sharedOps(kVec, k, 1) {
				if !e.keep(e.div(kVec, 6, 6)) {
					continue
				}
				al.k = bk
				for _, ak := range e.pickOthers(matOthers, n, k, 1) {
					e.run(mVecMulVec, recv, []opnd{privateLogical(ak, n, k, 1), al}, caseSpec{})
				}
			}
		}
		// alias in a: rectangular windows of the 4 x 6 reading, and vectors.
		for _, ak := range []kind{kDense, kDenseT, kRawWrap, kSym, kTriU, kTriL, kTriUT, kVec, kVecT} {
			for _, al := range u.sharedOps(ak, n, k) {
				if !e.keep(e.div(kVec, 6, 6)) {
					continue
				}
				e.cross(mVecMulVec, recv, []opnd{al, {}}, caseSpec{}, colslot(1, k, 1))
			}
		}
	}
	// receiver itself as b (a square) and as a (n x 1 times 1 x 1).
	for _, ak := range e.pickOthers(matOthers, n, n, 3) {
		e.run(mVecMulVec, recv, []opnd{privateLogical(ak, n, n, 1), identical(recv, false)}, caseSpec{})
	}
	e.cross(mVecMulVec, recv, []opnd{identical(recv, false), {}}, caseSpec{}, colslot(1, 1, 1))

	// SolveVec
	for m := 1; m <= 5; m++ {
		opt := caseSpec{}
		if m == n {
			opt.cond = []int{0}
		}
		for _, bk := range aliasVec {
			if bk == kVecT {
				continue // SolveVec requires a column b
			}
			for _, al := range u.sharedOps(kVec, m, 1) {
				if !e.keep(e.div(kVec, 8, 8)) {
					continue
				}
				for _, ak := range e.pickOthers([]kind{kDense, kDenseT, kBasic, kTriU, kSym}, m, n, 1) {
					e.run(mVecSolve, recv, []opnd{privateLogical(ak, m, n, 1), al}, opt)
				}
			}
		}
		for _, ak := range []kind{kDense, kDenseT, kRawWrap, kTriU, kSym} {
			for _, al := range u.sharedOps(ak, m, n) {
				if !e.keep(e.div(kVec, 8, 8)) {
					continue
				}
				e.cross(mVecSolve, recv, []opnd{al, {}}, opt, colslot(1, m, 1))
			}
		}
		if m == n {
			for _, ak := range e.pickOthers([]kind{kDense, kDenseT, kBasic, kTriU, kSym}, n, n, 2) {
				e.run(mVecSolve, recv, []opnd{privateLogical(ak, n, n, 1), identical(recv, false)}, opt)
			}
		}
	}
}

func runVec(c *vrt.Ctx, u *universe) {
	n := len(u.vwins)
	family(c, u, "vec.binary", n, genVecBinary([]*method{mVecAdd, mVecSub, mVecMulElem, mVecDivElem}, []float64{1.75}))
	family(c, u, "vec.addscaled", n, genVecBinary([]*method{mVecAddSc}, []float64{1.75, 1, -1, 0}))
	family(c, u, "vec.unary", n, genVecUnary([]*method{mVecScale, mVecCopy}))
	family(c, u, "vec.mulvec", n, genVecMulVec)
}
