// Command repro prints minimal reproducers of the main C05 root causes on
// the tree it is built against (go run ./c05/tools/repro from /verif/harness).

package main

import (
	"fmt"

	"gonum.org/v1/gonum/mat"
)

type bv struct{ v *mat.VecDense } // a Vector without RawVector

func (b bv) Dims() (int, int)    { return b.v.Dims() }
func (b bv) At(i, j int) float64 { return b.v.At(i, j) }
func (b bv) T() mat.Matrix       { return mat.Transpose{Matrix: b} }
func (b bv) AtVec(i int) float64 { return b.v.AtVec(i) }
func (b bv) Len() int            { return b.v.Len() }

func try(name string, f func()) {
	defer func() {
		if r := recover(); r != nil {
			fmt.Printf("%-34s panic: %v\n", name, r)
		}
	}()
	f()
}

func main() {
	// RC03: AddVec with a non-VecDense second operand never checks the first.
	try("RC03 AddVec(w, opaque)", func() {
		d := []float64{1, 2, 3, 4, 5}
		v := mat.NewVecDense(4, d[1:5]) // words 1..4
		w := mat.NewVecDense(4, d[0:4]) // words 0..3, overlaps v
		v.AddVec(w, bv{mat.NewVecDense(4, []float64{10, 10, 10, 10})})
		fmt.Println("RC03 AddVec(w, opaque)             got", d[1:5], "want [11 12 13 14]")
	})
	// RC06: ScaleVec of an overlapping vector under TVec().
	try("RC06 ScaleVec(2, w.TVec())", func() {
		d := []float64{1, 2, 3, 4, 5}
		v := mat.NewVecDense(4, d[1:5])
		w := mat.NewVecDense(4, d[0:4])
		v.ScaleVec(2, w.TVec())
		fmt.Println("RC06 ScaleVec(2, w.TVec())         got", d[1:5], "want [2 4 6 8]")
	})
	// RC05: CopyVec from an overlapping source that starts earlier.
	try("RC05 CopyVec(w)", func() {
		d := []float64{1, 2, 3, 4, 5, 6, 7, 8}
		m := mat.NewDense(4, 2, d)
		col := m.ColView(0).(*mat.VecDense)     // words 0,2,4,6
		v := col.SliceVec(1, 4).(*mat.VecDense) // words 2,4,6
		w := col.SliceVec(0, 3).(*mat.VecDense) // words 0,2,4
		v.CopyVec(w)
		fmt.Println("RC05 CopyVec(w)                    got", []float64{d[2], d[4], d[6]}, "want [1 3 5]")
	})
	// RC04: the receiver under TVec() is rejected.
	try("RC04 v.AddVec(v.TVec(), b)", func() {
		v := mat.NewVecDense(3, []float64{1, 2, 3})
		v.AddVec(v.TVec(), mat.NewVecDense(3, []float64{1, 1, 1}))
		fmt.Println("RC04 ok", v.RawVector().Data)
	})
	// RC09: Solve with a triangular a that overlaps the receiver.
	try("RC09 m.Solve(tri, b)", func() {
		d := []float64{2, 1, 0, 4, 9, 9}
		t := mat.NewTriDense(2, mat.Upper, d[0:4]) // [[2 1] [. 4]]
		m := mat.NewDense(2, 1, d[2:4])            // overlaps t's second row
		b := mat.NewDense(2, 1, []float64{4, 8})
		var want mat.Dense
		want.Solve(mat.NewTriDense(2, mat.Upper, []float64{2, 1, 0, 4}), b)
		err := m.Solve(t, b)
		fmt.Println("RC09 m.Solve(tri, b)               got", d[2:4], err, "want", want.RawMatrix().Data)
	})
	// RC16: Scale by a transposed triangular operand that overlaps the receiver.
	try("RC16 m.Scale(2, t.T())", func() {
		d := []float64{1, 2, 3, 4, 5, 6, 7, 8, 9}
		t := mat.NewTriDense(2, mat.Upper, d[0:4]) // words 0..3
		m := mat.NewDense(2, 2, d[2:6])            // words 2..5
		var want mat.Dense
		want.Scale(2, mat.NewTriDense(2, mat.Upper, []float64{1, 2, 3, 4}).T())
		m.Scale(2, t.T())
		fmt.Println("RC16 m.Scale(2, t.T())             got", d[2:6], "want", want.RawMatrix().Data)
	})
	// RC20: Mul with a symmetric operand that overlaps the receiver.
	try("RC20 m.Mul(a, sym)", func() {
		d := []float64{1, 2, 3, 4, 5, 6, 7, 8, 9}
		s := mat.NewSymDense(2, d[0:4])
		m := mat.NewDense(2, 2, d[2:6])
		a := mat.NewDense(2, 2, []float64{1, 1, 1, 1})
		var want mat.Dense
		want.Mul(a, mat.NewSymDense(2, []float64{1, 2, 3, 4}))
		m.Mul(a, s)
		fmt.Println("RC20 m.Mul(a, sym)                 got", d[2:6], "want", want.RawMatrix().Data)
	})
	// RC18: Stack with b overlapping the part of m that a is copied into.
	try("RC18 m.Stack(a, b)", func() {
		d := []float64{1, 2, 3, 4, 5, 6}
		m := mat.NewDense(2, 2, d[0:4])
		b := mat.NewDense(1, 2, d[1:3])
		a := mat.NewDense(1, 2, []float64{7, 8})
		m.Stack(a, b)
		fmt.Println("RC18 m.Stack(a, b)                 got", d[0:4], "want [7 8 2 3]")
	})
	// RC13: Pow / Exp of the receiver's own transpose.
	try("RC13 m.Pow(m.T(), 1)", func() {
		m := mat.NewDense(2, 2, []float64{1, 2, 3, 4})
		m.Pow(m.T(), 1)
		fmt.Println("RC13 ok")
	})
	// RC23: Outer zeroes the operand before panicking.
	try("RC23 m.Outer(1, x, y)", func() {
		d := []float64{1, 2, 3, 4, 5, 6}
		m := mat.NewDense(2, 2, d[0:4])
		x := mat.NewVecDense(2, d[3:5])
		defer func() { fmt.Println("RC23 x after the panic:", d[3:5], "(was [4 5])") }()
		m.Outer(1, x, mat.NewVecDense(2, []float64{1, 1}))
	})
	// RC12: Copy between views of different stride that start at the same word.
	try("RC12 m.Copy(a) strides 2 vs 3", func() {
		d := []float64{1, 2, 3, 4, 5, 6}
		m := mat.NewDense(2, 2, d[0:4])
		a := mat.NewDense(2, 3, d[0:6]).Slice(0, 2, 0, 2)
		m.Copy(a)
		fmt.Println("RC12 m.Copy(a) strides 2 vs 3      got", d[0:4], "want [1 2 4 5]")
	})
	// RC15: CDense.Copy of its own transpose.
	try("RC15 c.Copy(c.T())", func() {
		c := mat.NewCDense(2, 2, []complex128{1, 2, 3, 4})
		c.Copy(c.T())
		fmt.Println("RC15 c.Copy(c.T())                 got", c.RawCMatrix().Data, "want [1 3 2 4] (or the panic Dense.Copy documents)")
	})
}
