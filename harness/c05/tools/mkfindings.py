#!/usr/bin/env python3
"""Build c05/proposed_known_findings.json from monitor result files.

usage: mkfindings.py result1.json [result2.json ...]   (vrt result files, any tier / seed / variant)

Every signature observed in any of the inputs is emitted once as
{"signature", "description", "root_cause"}; the root cause is assigned by the
ordered rules below (first match wins). A signature no rule matches is
reported on stderr and gets root_cause "UNCLASSIFIED".
"""
import json, re, sys, os

# id -> (where, what, fix)
ROOT = {
 "RC01-vecdense-checkoverlap-bitand": ("mat/shadow.go (*VecDense).checkOverlap",
   "overlap test of two equal-inc vectors uses `off&inc == 0` (bitwise AND) instead of `off%inc == 0`: disjoint interleaved views (e.g. two columns of one matrix) are rejected, truly overlapping ones (offset a multiple of inc whose bits miss inc) are accepted",
   "-	if inc == 1 || off&inc == 0 {\n+	if inc == 1 || off%inc == 0 {"),
 "RC02-divelemvec-missing-return": ("mat/vector.go (*VecDense).DivElemVec",
   "the strided (inc != 1) loop is not followed by `return`; control falls into the generic loop and divides a second time; visible when the receiver is a or b",
   "add `return` after the strided loop (after the closing brace of `for i := 0; i < ar; i++ {...}` inside the both-VecDense branch)"),
 "RC03-vecdense-elementwise-generic-path-unchecked": ("mat/vector.go AddVec/SubVec/MulElemVec/DivElemVec (AddScaledVec via its alpha==+-1 delegation)",
   "v.checkOverlap is only called inside the branch where BOTH operands are *VecDense; if the other operand is any other Vector the generic At loop runs and the *VecDense operand that overlaps the receiver is never checked",
   "hoist the two checks out of the fast path: `if arv, ok := aU.(*VecDense); ok && v != a { v.checkOverlap(arv.mat) }` (same for b) before the type-pair test"),
 "RC04-vecdense-tvec-identity-rejected": ("mat/vector.go AddVec/SubVec/MulElemVec/DivElemVec/AddScaledVec",
   "identity is tested as `v != a` on the interface value, so the receiver under TVec() is not recognised and checkOverlap panics \"bad region: identical\" although doc.go promises pointer identity after untransposing is legal",
   "compare with the untransposed value: `if v != aU` (aU from untransposeExtract)"),
 "RC05-copyvec-no-overlap-handling": ("mat/vector.go (*VecDense).CopyVec",
   "documented as similar to the built-in copy, but copies forward with blas64.Copy (or the generic loop for TransposeVec) without any overlap check: an overlapping source ahead of the destination is clobbered while being read",
   "either `v.checkOverlap(src)` (panic like every other method) or copy backwards when the destination starts after the source"),
 "RC06-scalevec-transposevec-unchecked": ("mat/vector.go (*VecDense).ScaleVec",
   "the operand is tested with `a.(RawVectorer)` without untransposing; TransposeVec has no RawVector, so an overlapping VecDense under TVec() goes through the unchecked generic loop",
   "untransposeExtract(a) first and check the resulting *VecDense"),
 "RC07-mulvec-nonfast-path-unchecked": ("mat/vector.go (*VecDense).MulVec",
   "the overlap checks of a against the receiver sit inside `if fast` (b is a *VecDense); with any other Vector b the generic loops run unchecked and write v[i] while later rows of a are still to be read",
   "move `aU.checkOverlap(v.asGeneral())` / `v.checkOverlap(amat)` out of the `if fast` blocks"),
 "RC08-mulvec-tri-copy-before-check": ("mat/vector.go (*VecDense).MulVec, case *TriDense",
   "`v.CopyVec(b)` is executed before `aU.checkOverlap(v.asGeneral())`: the call panics as documented but has already overwritten the elements of a that overlap the receiver",
   "swap the two statements"),
 "RC09-solve-a-never-checked": ("mat/solve.go (*Dense).Solve / (*VecDense).SolveVec, mat/triangular.go (*TriDense).SolveTo",
   "the receiver is never checked against a. General a is copied by the factorization first (result right, a's shared elements overwritten); a TriDense a is used in place by TriDense.SolveTo after b has been copied into the receiver, so the solve runs on a corrupted triangle",
   "in TriDense.SolveTo: `dst.checkOverlap(generalFromTriangular(t.mat))` before `dst.Copy(b)`; in Dense.Solve: `m.checkOverlapMatrix(aU)` after reuseAsNonZeroed"),
 "RC10-qr-lq-solve-overlap-by-design": ("mat/qr.go, mat/lq.go SolveTo (reached through Dense.Solve with non-square a)",
   "dst/b overlap is deliberately not checked (source comment: the solve runs in independent workspace); the result is right, b's shared elements are overwritten. Reported only through the receiver-taking Dense.Solve, where the statement demands a panic",
   "none needed for correctness; `dst.checkOverlapMatrix(bU)` would make it uniform"),
 "RC11-solveto-vecdense-b-unchecked": ("mat/lu.go, cholesky.go, triangular.go SolveTo (and Dense.Solve through them)",
   "b is only checked `if rm, ok := bU.(RawMatrixer)` (Cholesky variants: not at all); a *VecDense b is not a RawMatrixer, so dst.Copy(b) runs on overlapping storage (Dense.Copy's VecDense arm is not overlap safe for unequal strides) and the in-place solve uses a clobbered right-hand side",
   "use `dst.checkOverlapMatrix(bU)` (it handles RawVectorer) instead of the RawMatrixer-only test"),
 "RC12-dense-copy-assumes-equal-stride": ("mat/dense.go (*Dense).Copy",
   "the direction-aware copy is only correct for equal strides: offset 0 is taken to mean 'same matrix, nothing to do' and the forward/backward choice by the sign of the offset does not protect rows of different pitch (Dense source with another stride, VecDense source)",
   "when strides differ and the data ranges overlap: panic (checkOverlap) or go through a workspace"),
 "RC13-pow-exp-transposed-self": ("mat/dense_arithmetic.go (*Dense).Pow (n==1), (*Dense).Exp",
   "both start with m.Copy(a); with a == m.T() Copy panics \"bad region: identical\" although doc.go lists a.Pow(a, n) 'or its implicit transpose' as legal",
   "copy through a workspace when a untransposes to the receiver"),
 "RC14-cholesky-solveto-transposed-self": ("mat/cholesky.go Cholesky/BandCholesky/PivotedCholesky.SolveTo",
   "`if b != dst { dst.Copy(b) }`: for b == dst.T() Copy panics; LU.SolveTo handles the same call with isolatedWorkspace",
   "untranspose b and use an isolated workspace when it is dst (as LU.SolveTo does)"),
 "RC15-cdense-copy-no-overlap-handling": ("mat/cdense.go (*CDense).Copy",
   "plain element loop (source: 'TODO(btracey): Check for overlap when complex version exists'): overlapping sources, and the receiver itself under T()/H(), are silently clobbered although the doc comment promises the Dense.Copy behaviour",
   "m.checkOverlapMatrix(aU) plus a workspace for the transposed-self case"),
 "RC16-scale-apply-check-on-transpose-wrapper": ("mat/dense_arithmetic.go (*Dense).Scale, (*Dense).Apply",
   "the fallback path calls `m.checkOverlapMatrix(a)` with the still-transposed wrapper (mat.Transpose / TransposeTri / TransposeVec has no Raw method) instead of aU, so TriDense.T and VecDense.T operands are never checked",
   "-	m.checkOverlapMatrix(a)\n+	m.checkOverlapMatrix(aU)"),
 "RC17-tri-scale-inverse-check-on-transpose-wrapper": ("mat/triangular.go (*TriDense).ScaleTri, InverseTri",
   "`t.checkOverlapMatrix(a)` is given the TransposeTri wrapper, which exposes no RawTriangular: an overlapping transposed triangular operand is not detected",
   "untransposeTri(a) before the check"),
 "RC18-stack-augment-unchecked": ("mat/dense.go (*Dense).Stack, (*Dense).Augment",
   "implemented as m.Copy(a) followed by w.Copy(b) on a sub-slice; Copy tolerates overlap, so an overlapping a is moved correctly (but not rejected), an overlapping b is read after m.Copy(a) has overwritten part of it, and a transposed overlapping b panics only after a has been copied in",
   "`m.checkOverlapMatrix(a); m.checkOverlapMatrix(b)` after reuseAsNonZeroed"),
 "RC19-kronecker-unchecked": ("mat/dense_arithmetic.go (*Dense).Kronecker",
   "each block is written with m.slice(...).Scale(a.At(i,j), b): a is never checked (its elements are read after earlier blocks were written), and b == m panics because every block is a distinct view overlapping b",
   "check m against a and b once up front; use a workspace when one of them is the receiver"),
 "RC20-mul-sym-tri-operand-unchecked": ("mat/dense_arithmetic.go (*Dense).Mul typed fast paths",
   "in the arms `aU *Dense x bU *SymDense/*TriDense` (and mirrored) only the *Dense operand is checked against the receiver; the symmetric/triangular operand is passed to Symm/Trmm unchecked",
   "add `m.checkOverlapMatrix(bU)` (resp. aU) in those arms"),
 "RC21-mul-identity-suppresses-other-check": ("mat/dense_arithmetic.go (*Dense).Mul",
   "when the receiver is one operand the product goes to an isolated workspace and `restore != nil` switches off the overlap checks of the OTHER operand as well; the result is right but the other operand's shared elements are overwritten at restore instead of the call panicking",
   "check the non-identical operand against the original receiver before swapping in the workspace"),
 "RC22-pow-exp-product-powpsd-unchecked": ("mat/dense_arithmetic.go Pow/Exp, mat/product.go Product, mat/symmetric.go PowPSD",
   "these methods compute in workspaces (or copy a first) and never check the receiver against their operands: the result is right, the overlap is not rejected",
   "m.checkOverlapMatrix(aU) after reuseAsNonZeroed"),
 "RC23-outer-zeroes-before-check": ("mat/dense_arithmetic.go (*Dense).Outer",
   "m.reuseAsZeroed(r, c) zeroes the receiver before x and y are checked: the documented panic follows, but the overlapping part of the operand has already been set to zero",
   "use reuseAsNonZeroed (the fast path zeroes again, the slow path overwrites) or run the checks first"),
 "RC24-rankone-sym-tri-a-unchecked": ("mat/dense_arithmetic.go (*Dense).RankOne",
   "a is checked only `if rm, ok := aU.(*Dense)`; with a SymDense/TriDense a and a non-VecDense x or y the element loop reads a.At while writing m",
   "m.checkOverlapMatrix(aU)"),
 "RC25-symrankk-symouterk-x-unchecked": ("mat/symmetric.go (*SymDense).SymRankK, SymOuterK",
   "SymRankK never checks x; SymOuterK switches on the dynamic type of x, which misses transposed wrappers and *VecDense",
   "s.checkOverlapMatrix(xU) with xU from untransposeExtract in both"),
 "RC26-symrankone-copy-before-check": ("mat/symmetric.go (*SymDense).SymRankOne",
   "s.CopySym(a) runs before x is checked: the panic for an overlapping x comes after the receiver (and so the overlapping part of x) has been overwritten",
   "move the x check before CopySym"),
 "RC27-copysym-no-overlap-handling": ("mat/symmetric.go (*SymDense).CopySym",
   "rows are copied first to last with the built-in copy and no overlap check: a source that starts earlier in the backing array is overwritten before it is read",
   "s.checkOverlapMatrix(a) or a direction-aware row loop as in Dense.Copy"),
 "RC28-tridense-copy-no-overlap-handling": ("mat/triangular.go (*TriDense).Copy",
   "same as CopySym: forward row loop, no overlap check, for every source type",
   "t.checkOverlapMatrix(a) or a direction-aware row loop"),
}

RULES = [
 (r"^geom\|VecDense\.checkOverlap", "RC01-vecdense-checkoverlap-bitand"),
 (r"^VecDense\.DivElemVec\|strided\|[ab]=VecDense:identical\|.*\|wrong-result$", "RC02-divelemvec-missing-return"),
 (r"^VecDense\.(AddVec|SubVec|MulElemVec|DivElemVec|AddScaledVec)\|[ab]=VecDense(\.T)?:overlap\|other=opaque\|no-panic", "RC03-vecdense-elementwise-generic-path-unchecked"),
 (r"^VecDense\.(AddVec|SubVec|MulElemVec|DivElemVec|AddScaledVec)\|[ab]=VecDense\.T:identical\|.*\|region-panic\(legal\)$", "RC04-vecdense-tvec-identity-rejected"),
 (r"^VecDense\.CopyVec\|", "RC05-copyvec-no-overlap-handling"),
 (r"^VecDense\.ScaleVec\|a=VecDense\.T:overlap", "RC06-scalevec-transposevec-unchecked"),
 (r"^VecDense\.MulVec\|a=.*\|other=opaque\|no-panic", "RC07-mulvec-nonfast-path-unchecked"),
 (r"^VecDense\.MulVec\|a=TriDense(\.T)?:overlap\|other=VecDense\|operand-modified-before-panic$", "RC08-mulvec-tri-copy-before-check"),
 (r"^(Dense\.Solve|VecDense\.SolveVec)\|a=", "RC09-solve-a-never-checked"),
 (r"^Dense\.Solve\|b=(Dense|Dense\.T|RawMatrixer|VecDense):overlap\|.*no-panic\(result-ok\)$", "RC10-qr-lq-solve-overlap-by-design"),
 (r"^Dense\.Solve\|b=VecDense:overlap", "RC11-solveto-vecdense-b-unchecked"),
 (r"^(LU|Cholesky|BandCholesky|PivotedCholesky|TriDense)\.SolveTo\|b=VecDense:overlap", "RC11-solveto-vecdense-b-unchecked"),
 (r"^Dense\.Copy\|a=(Dense|VecDense):overlap", "RC12-dense-copy-assumes-equal-stride"),
 (r"^Dense\.(Pow|Exp)\|a=Dense\.T:identical\|.*region-panic\(legal\)$", "RC13-pow-exp-transposed-self"),
 (r"^(Cholesky|BandCholesky|PivotedCholesky)\.SolveTo\|b=Dense\.T:identical", "RC14-cholesky-solveto-transposed-self"),
 (r"^CDense\.Copy\|", "RC15-cdense-copy-no-overlap-handling"),
 (r"^Dense\.(Scale|Apply)\|a=(TriDense|VecDense)\.T:overlap", "RC16-scale-apply-check-on-transpose-wrapper"),
 (r"^TriDense\.(ScaleTri|InverseTri)\|a=TriDense\.T:overlap", "RC17-tri-scale-inverse-check-on-transpose-wrapper"),
 (r"^Dense\.(Stack|Augment)\|", "RC18-stack-augment-unchecked"),
 (r"^Dense\.Kronecker\|", "RC19-kronecker-unchecked"),
 (r"^Dense\.Mul\|.*other=Dense:identical\|", "RC21-mul-identity-suppresses-other-check"),
 (r"^Dense\.Mul\|[ab]=(SymDense|TriDense|TriDense\.T):overlap", "RC20-mul-sym-tri-operand-unchecked"),
 (r"^Dense\.(Pow|Exp|Product)\|.*:overlap\|.*no-panic\(result-ok\)$", "RC22-pow-exp-product-powpsd-unchecked"),
 (r"^SymDense\.PowPSD\|", "RC22-pow-exp-product-powpsd-unchecked"),
 (r"^Dense\.Outer\|", "RC23-outer-zeroes-before-check"),
 (r"^Dense\.RankOne\|a=(SymDense|TriDense):overlap", "RC24-rankone-sym-tri-a-unchecked"),
 (r"^SymDense\.(SymRankK|SymOuterK)\|x=", "RC25-symrankk-symouterk-x-unchecked"),
 (r"^SymDense\.SymRankOne\|x=.*operand-modified-before-panic$", "RC26-symrankone-copy-before-check"),
 (r"^SymDense\.CopySym\|", "RC27-copysym-no-overlap-handling"),
 (r"^TriDense\.Copy\|", "RC28-tridense-copy-no-overlap-handling"),
]

CLAUSE = {
 "no-panic(corrupts-result)": "the receiver overlaps this operand's elements; the call returned instead of panicking and the result differs from the unaliased one (silent corruption)",
 "no-panic(result-ok)": "the receiver overlaps this operand's elements; the call returned instead of panicking, with the right result (the operand's shared elements are overwritten)",
 "region-panic(legal)": "a legal call (receiver identical to the operand, possibly under T(), or element-disjoint same-stride views) is rejected with a 'bad region' panic",
 "region-panic": "element-disjoint same-inc views rejected with a 'bad region' panic",
 "no-panic": "overlapping views accepted by the overlap test",
 "wrong-result": "the call returned a result different from the same call on unshared copies",
 "operand-modified-before-panic": "the call panics as documented, but an operand other than the receiver was already modified",
 "operand-modified": "an operand other than the receiver was modified",
}

def classify(sig):
    for pat, rc in RULES:
        if re.search(pat, sig):
            return rc
    return "UNCLASSIFIED"

def main():
    sigs = {}
    for f in sys.argv[1:]:
        r = json.load(open(f))
        for v in r.get("violations") or []:
            sigs.setdefault(v["sig"], 0)
            sigs[v["sig"]] += v["count"]
    entries = []
    bad = 0
    for s in sorted(sigs):
        rc = classify(s)
        if rc == "UNCLASSIFIED":
            bad += 1
            print("UNCLASSIFIED:", s, file=sys.stderr)
        clause = s.rsplit("|", 1)[1]
        where = ROOT.get(rc, ("?", "?", "?"))[0]
        entries.append({"signature": s,
                        "description": "%s: %s [%s]" % (s.split("|")[0], CLAUSE.get(clause, clause), where),
                        "root_cause": rc})
    out = {"property": "C05",
           "root_causes": {k: {"where": v[0], "what": v[1], "fix": v[2],
                               "signatures": sum(1 for e in entries if e["root_cause"] == k)} for k, v in ROOT.items()
                           if any(e["root_cause"] == k for e in entries)},
           "entries": entries}
    dst = os.path.join(os.path.dirname(os.path.abspath(__file__)), "..", "proposed_known_findings.json")
    json.dump(out, open(dst, "w"), indent=1)
    print("%d signatures, %d unclassified -> %s" % (len(entries), bad, os.path.normpath(dst)))

if __name__ == "__main__":
    main()
