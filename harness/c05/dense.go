package main

import (
	"fmt"
	"gonum.org/v1/gonum/mat"
	"gonum.org/v1/gonum/verifx/vrt"
)

func dn(r any) *mat.Dense { return r.(*mat.Dense) }

var ab = []string{"a", "b"}
var aOnly = []string{"a"}

// Dense methods -------------------------------------------------------------

var (
	mDenseAdd     = &method{name: "Dense.Add", pos: ab, call: func(r any, o []mat.Matrix, _ *caseSpec) { dn(r).Add(o[0], o[1]) }}
	mDenseSub     = &method{name: "Dense.Sub", pos: ab, call: func(r any, o []mat.Matrix, _ *caseSpec) { dn(r).Sub(o[0], o[1]) }}
	mDenseMulElem = &method{name: "Dense.MulElem", pos: ab, call: func(r any, o []mat.Matrix, _ *caseSpec) { dn(r).MulElem(o[0], o[1]) }}
	mDenseDivElem = &method{name: "Dense.DivElem", pos: ab, call: func(r any, o []mat.Matrix, _ *caseSpec) { dn(r).DivElem(o[0], o[1]) }}

	mDenseScale = &method{name: "Dense.Scale", pos: aOnly, call: func(r any, o []mat.Matrix, cs *caseSpec) { dn(r).Scale(cs.alpha, o[0]) }}
	mDenseApply = &method{name: "Dense.Apply", pos: aOnly, call: func(r any, o []mat.Matrix, cs *caseSpec) {
		dn(r).Apply(func(i, j int, v float64) float64 { return v*cs.alpha + float64(i) - 0.5*float64(j) }, o[0])
	}}
	mDenseCopy      = &method{name: "Dense.Copy", pos: aOnly, copyLike: true, call: func(r any, o []mat.Matrix, cs *caseSpec) { cs.status = fmt.Sprint(dn(r).Copy(o[0])) }}
	mDenseCloneFrom = &method{name: "Dense.CloneFrom", pos: aOnly, realloc: true, call: func(r any, o []mat.Matrix, _ *caseSpec) { dn(r).CloneFrom(o[0]) }}
	mDenseInverse   = &method{name: "Dense.Inverse", pos: aOnly, errOp: 1, call: func(r any, o []mat.Matrix, cs *caseSpec) { cs.status = errClass(dn(r).Inverse(o[0])) }}
	mDensePow       = &method{name: "Dense.Pow", pos: aOnly, call: func(r any, o []mat.Matrix, cs *caseSpec) { dn(r).Pow(o[0], cs.n) }}
	mDenseExp       = &method{name: "Dense.Exp", pos: aOnly, call: func(r any, o []mat.Matrix, _ *caseSpec) { dn(r).Exp(o[0]) }}

	mDenseMul     = &method{name: "Dense.Mul", pos: ab, call: func(r any, o []mat.Matrix, _ *caseSpec) { dn(r).Mul(o[0], o[1]) }}
	mDenseProduct = &method{name: "Dense.Product", pos: []string{"f0", "f1", "f2"}, call: func(r any, o []mat.Matrix, _ *caseSpec) { dn(r).Product(o...) }}
	mDenseSolve   = &method{name: "Dense.Solve", pos: ab, errOp: 1, call: func(r any, o []mat.Matrix, cs *caseSpec) { cs.status = errClass(dn(r).Solve(o[0], o[1])) }}
	mDenseKron    = &method{name: "Dense.Kronecker", pos: ab, call: func(r any, o []mat.Matrix, _ *caseSpec) { dn(r).Kronecker(o[0], o[1]) }}
	mDenseStack   = &method{name: "Dense.Stack", pos: ab, call: func(r any, o []mat.Matrix, _ *caseSpec) { dn(r).Stack(o[0], o[1]) }}
	mDenseAugment = &method{name: "Dense.Augment", pos: ab, call: func(r any, o []mat.Matrix, _ *caseSpec) { dn(r).Augment(o[0], o[1]) }}

	mDenseRankOne = &method{name: "Dense.RankOne", pos: []string{"a", "x", "y"}, call: func(r any, o []mat.Matrix, cs *caseSpec) {
		dn(r).RankOne(o[0], cs.alpha, o[1].(mat.Vector), o[2].(mat.Vector))
	}}
	// RankOne with the receiver itself as a (the documented in-place update).
	mDenseRankOneSelf = &method{name: "Dense.RankOne(recv)", pos: []string{"x", "y"}, call: func(r any, o []mat.Matrix, cs *caseSpec) {
		dn(r).RankOne(dn(r), cs.alpha, o[0].(mat.Vector), o[1].(mat.Vector))
	}}
	mDenseOuter = &method{name: "Dense.Outer", pos: []string{"x", "y"}, call: func(r any, o []mat.Matrix, cs *caseSpec) {
		dn(r).Outer(cs.alpha, o[0].(mat.Vector), o[1].(mat.Vector))
	}}
)

// In-place permutations: no matrix operand, so only the "no word outside
// the receiver's window changes" clause can fail (cs.idx = p, cs.trans =
// inverse).
var (
	mDensePermRows = &method{name: "Dense.PermuteRows", call: func(r any, _ []mat.Matrix, cs *caseSpec) { dn(r).PermuteRows(append([]int(nil), cs.idx...), cs.trans) }}
	mDensePermCols = &method{name: "Dense.PermuteCols", call: func(r any, _ []mat.Matrix, cs *caseSpec) { dn(r).PermuteCols(append([]int(nil), cs.idx...), cs.trans) }}
)

// permClasses returns identity, reversal, rotation and a single swap of n.
func permClasses(n int) [][]int {
	id, rev, rot, sw := make([]int, n), make([]int, n), make([]int, n), make([]int, n)
	for t := 0; t < n; t++ {
		id[t], rev[t], rot[t], sw[t] = t, n-1-t, (t+1)%n, t
	}
	if n > 1 {
		sw[0], sw[n-1] = n-1, 0
	}
	return [][]int{id, rev, rot, sw}
}

func genDensePermute(e *emitter, i int) {
	recv := e.sh(kDense, e.u.wins[i])
	for _, inv := range []bool{false, true} {
		for _, p := range permClasses(recv.w.r) {
			e.run(mDensePermRows, recv, nil, caseSpec{idx: p, trans: inv})
		}
		for _, p := range permClasses(recv.w.c) {
			e.run(mDensePermCols, recv, nil, caseSpec{idx: p, trans: inv})
		}
	}
}

// kinds a private matrix operand ranges over.
var otherMat = []kind{kDense, kDenseT, kBasic, kSym, kTriU, kVec, kRawWrap, kDiag, kTriLT}
var otherVec = []kind{kVec, kVecT, kBasicVec}

// matrix alias kinds (presentations of a shared-backing window as a Matrix).
var aliasMat = []kind{kDense, kDenseT, kRawWrap, kSym, kTriU, kTriL, kTriUT, kTriLT, kVec, kVecT}

// quickDiv: in the quick tier the non-Dense alias kinds are subsampled 1 in n.
func (e *emitter) div(k kind, dense, other int) int {
	if e.thor {
		return 1
	}
	if k == kDense {
		return dense
	}
	return other
}

// genDenseBinary: recv r x c, a r x c, b r x c.
//
// Two layers: every alias window is tried with Dense.Add against a private
// Dense (the exhaustive probe of the overlap predicate's geometry); every
// method x position x private-operand kind is tried on a systematic sample
// of the alias windows (all of them in the thorough tier).
func genDenseBinary(ms []*method) func(e *emitter, i int) {
	return func(e *emitter, i int) {
		u := e.u
		recv := e.sh(kDense, u.wins[i])
		r, c := recv.w.r, recv.w.c
		one := func(al opnd) {
			for _, m := range ms {
				for pos := 0; pos < 2; pos++ {
					for _, ok := range e.pickOthers(otherMat, r, c, 1) {
						ops := make([]opnd, 2)
						ops[pos] = al
						ops[1-pos] = privateLogical(ok, r, c, 1)
						e.run(m, recv, ops, caseSpec{})
					}
				}
			}
		}
		geom := func(al opnd) {
			e.run(ms[0], recv, []opnd{al, privateLogical(kDense, r, c, 1)}, caseSpec{})
			e.run(ms[0], recv, []opnd{privateLogical(kDense, r, c, 1), al}, caseSpec{})
		}
		// The receiver itself, also under T().
		one(identical(recv, false))
		if r == c {
			one(identical(recv, true))
		}
		for _, m := range ms {
			e.run(m, recv, []opnd{identical(recv, false), identical(recv, false)}, caseSpec{})
			if r == c {
				e.run(m, recv, []opnd{identical(recv, false), identical(recv, true)}, caseSpec{})
				e.run(m, recv, []opnd{identical(recv, true), identical(recv, false)}, caseSpec{})
			}
		}
		for _, k := range aliasMat {
			d := e.div(k, 6, 8)
			for _, al := range u.sharedOps(k, r, c) {
				if e.keep(d) {
					one(al)
				} else if k == kDense || k == kDenseT {
					geom(al)
				}
			}
		}
		// Two shared operands: the receiver itself and another window.
		for _, al := range u.sharedOps(kDense, r, c) {
			if !e.keep(e.div(kDenseT, 1, 4)) {
				continue
			}
			for _, m := range ms {
				e.run(m, recv, []opnd{identical(recv, false), al}, caseSpec{})
				e.run(m, recv, []opnd{al, identical(recv, false)}, caseSpec{})
			}
		}
	}
}

// genDenseUnary: recv r x c, a r x c (Scale, Apply, Copy, CloneFrom).
func genDenseUnary(ms []*method) func(e *emitter, i int) {
	return func(e *emitter, i int) {
		u := e.u
		recv := e.sh(kDense, u.wins[i])
		r, c := recv.w.r, recv.w.c
		for _, m := range ms {
			e.run(m, recv, []opnd{identical(recv, false)}, caseSpec{})
			if r == c {
				e.run(m, recv, []opnd{identical(recv, true)}, caseSpec{})
			}
			for _, ok := range e.pickOthers(otherMat, r, c, 2) {
				e.run(m, recv, []opnd{privateLogical(ok, r, c, 1)}, caseSpec{})
			}
			for _, k := range aliasMat {
				d := e.div(k, 1, 2)
				for _, al := range u.sharedOps(k, r, c) {
					if e.keep(d) {
						e.run(m, recv, []opnd{al}, caseSpec{})
					}
				}
			}
		}
	}
}

// genDenseCopyShapes: Copy with a source of a different shape (Copy takes
// the common top-left part).
func genDenseCopyShapes(e *emitter, i int) {
	u := e.u
	recv := e.sh(kDense, u.wins[i])
	d := 6
	if e.thor {
		d = 1
	}
	for _, k := range []kind{kDense, kDenseT} {
		for j := range u.wins {
			if !e.keep(d) {
				continue
			}
			e.run(mDenseCopy, recv, []opnd{e.sh(k, u.wins[j])}, caseSpec{})
		}
	}
}

// genDenseSquare: Inverse, Pow, Exp on square windows.
func genDenseSquare(e *emitter, i int) {
	u := e.u
	recv := e.sh(kDense, u.wins[i])
	n := recv.w.r
	if n != recv.w.c {
		return
	}
	type mc struct {
		m    *method
		opt  caseSpec
		cond bool
	}
	list := []mc{{mDenseInverse, caseSpec{}, true}, {mDensePow, caseSpec{n: 0}, false}, {mDensePow, caseSpec{n: 1}, false},
		{mDensePow, caseSpec{n: 2}, false}, {mDensePow, caseSpec{n: 3}, false}, {mDensePow, caseSpec{n: 6}, false}, {mDenseExp, caseSpec{}, false}}
	for _, it := range list {
		opt := it.opt
		if it.cond {
			opt.cond = []int{0}
		}
		e.run(it.m, recv, []opnd{identical(recv, false)}, opt)
		e.run(it.m, recv, []opnd{identical(recv, true)}, opt)
		for _, ok := range e.pickOthers([]kind{kDense, kDenseT, kBasic, kSym, kTriU, kRawWrap}, n, n, 1) {
			e.run(it.m, recv, []opnd{privateLogical(ok, n, n, 1)}, opt)
		}
		for _, k := range []kind{kDense, kDenseT, kRawWrap, kSym, kTriU, kTriLT} {
			for _, al := range u.sharedOps(k, n, n) {
				if e.keep(e.div(k, 1, 2)) {
					e.run(it.m, recv, []opnd{al}, opt)
				}
			}
		}
	}
}

// genDenseMul: recv r x c = a (r x k) * b (k x c), the alias in either
// position; also Solve (recv n x c solves a (m x n) X = b (m x c)) and
// three-factor Product.
func genDenseMul(e *emitter, i int) {
	u := e.u
	recv := e.sh(kDense, u.wins[i])
	r, c := recv.w.r, recv.w.c
	maxK := u.R
	// identity forms
	if true {
		// m = m * b (b c x c), m = a * m (a r x r)
		for _, ok := range e.pickOthers(otherMat, c, c, 2) {
			e.run(mDenseMul, recv, []opnd{identical(recv, false), privateLogical(ok, c, c, 1)}, caseSpec{})
		}
		for _, ok := range e.pickOthers(otherMat, r, r, 2) {
			e.run(mDenseMul, recv, []opnd{privateLogical(ok, r, r, 1), identical(recv, false)}, caseSpec{})
		}
		if r == c {
			for _, ok := range e.pickOthers(otherMat, r, r, 2) {
				e.run(mDenseMul, recv, []opnd{identical(recv, true), privateLogical(ok, r, r, 1)}, caseSpec{})
				e.run(mDenseMul, recv, []opnd{privateLogical(ok, r, r, 1), identical(recv, true)}, caseSpec{})
			}
			e.run(mDenseMul, recv, []opnd{identical(recv, false), identical(recv, false)}, caseSpec{})
			e.run(mDenseMul, recv, []opnd{identical(recv, false), identical(recv, true)}, caseSpec{})
			e.run(mDenseMul, recv, []opnd{identical(recv, true), identical(recv, false)}, caseSpec{})
			e.run(mDenseMul, recv, []opnd{identical(recv, true), identical(recv, true)}, caseSpec{})
			e.run(mDenseProduct, recv, []opnd{identical(recv, false), privateLogical(kDense, r, r, 1), identical(recv, true)}, caseSpec{})
		}
	}
	for k := 1; k <= maxK; k++ {
		for _, ak := range aliasMat {
			d := e.div(ak, 4, 12)
			// alias in a (logical r x k), b private k x c
			for _, al := range u.sharedOps(ak, r, k) {
				if !e.keep(d) {
					continue
				}
				for _, ok := range e.pickOthers(otherMat, k, c, 1) {
					e.run(mDenseMul, recv, []opnd{al, privateLogical(ok, k, c, 1)}, caseSpec{})
				}
				if e.keep(8) {
					// recv identical to b (needs k == r... b is k x c == recv shape)
					if k == r {
						e.run(mDenseMul, recv, []opnd{al, identical(recv, false)}, caseSpec{})
					}
					// three-factor product a * I-shaped * b
					e.run(mDenseProduct, recv, []opnd{al, privateLogical(kDense, k, k, 1), privateLogical(kDense, k, c, 2)}, caseSpec{})
				}
			}
			// alias in b (logical k x c), a private r x k
			for _, al := range u.sharedOps(ak, k, c) {
				if !e.keep(d) {
					continue
				}
				for _, ok := range e.pickOthers(otherMat, r, k, 1) {
					e.run(mDenseMul, recv, []opnd{privateLogical(ok, r, k, 1), al}, caseSpec{})
				}
				if e.keep(8) {
					if k == c {
						e.run(mDenseMul, recv, []opnd{identical(recv, false), al}, caseSpec{})
					}
					e.run(mDenseProduct, recv, []opnd{privateLogical(kDense, r, k, 1), privateLogical(kDense, k, k, 2), al}, caseSpec{})
				}
			}
		}
	}
}

// genDenseSolve: recv n x c; a is m x n, b is m x c.
func genDenseSolve(e *emitter, i int) {
	u := e.u
	recv := e.sh(kDense, u.wins[i])
	n, c := recv.w.r, recv.w.c
	for m := 1; m <= u.R; m++ {
		opt := caseSpec{}
		if m == n {
			opt.cond = []int{0}
		}
		// alias in b
		for _, bk := range []kind{kDense, kDenseT, kRawWrap, kVec} {
			d := e.div(bk, 6, 12)
			for _, al := range u.sharedOps(bk, m, c) {
				if !e.keep(d) {
					continue
				}
				for _, ak := range e.pickOthers([]kind{kDense, kDenseT, kBasic, kTriU, kSym}, m, n, 1) {
					e.run(mDenseSolve, recv, []opnd{privateLogical(ak, m, n, 1), al}, opt)
				}
			}
		}
		// alias in a
		for _, ak := range []kind{kDense, kDenseT, kRawWrap, kTriU, kTriLT, kSym} {
			d := e.div(ak, 6, 12)
			for _, al := range u.sharedOps(ak, m, n) {
				if !e.keep(d) {
					continue
				}
				for _, bk := range e.pickOthers([]kind{kDense, kDenseT, kBasic, kVec}, m, c, 1) {
					e.run(mDenseSolve, recv, []opnd{al, privateLogical(bk, m, c, 1)}, opt)
				}
			}
		}
		if m == n {
			// recv identical to b (b is n x c)
			for _, ak := range e.pickOthers([]kind{kDense, kDenseT, kBasic, kTriU, kSym}, n, n, 2) {
				e.run(mDenseSolve, recv, []opnd{privateLogical(ak, n, n, 1), identical(recv, false)}, opt)
				if n == c {
					e.run(mDenseSolve, recv, []opnd{privateLogical(ak, n, n, 1), identical(recv, true)}, opt)
				}
			}
			if n == c {
				// recv identical to a
				e.run(mDenseSolve, recv, []opnd{identical(recv, false), privateLogical(kDense, n, n, 1)}, opt)
				e.run(mDenseSolve, recv, []opnd{identical(recv, true), privateLogical(kDense, n, n, 1)}, opt)
			}
		}
	}
}

// genDenseRankOne: recv r x c, a r x c, x (len r), y (len c); Outer.
func genDenseRankOne(e *emitter, i int) {
	u := e.u
	recv := e.sh(kDense, u.wins[i])
	r, c := recv.w.r, recv.w.c
	id := identical(recv, false)
	// unaliased and receiver-as-a forms
	e.cross(mDenseRankOne, recv, []opnd{id, {}, {}}, caseSpec{}, vslot(1, r, 1), vslot(2, c, 2))
	e.cross(mDenseRankOneSelf, recv, []opnd{{}, {}}, caseSpec{}, vslot(0, r, 1), vslot(1, c, 2))
	e.cross(mDenseOuter, recv, []opnd{{}, {}}, caseSpec{}, vslot(0, r, 1), vslot(1, c, 2))
	// alias in a
	for _, ak := range []kind{kDense, kDenseT, kRawWrap, kSym, kTriU} {
		for _, al := range u.sharedOps(ak, r, c) {
			if e.keep(e.div(ak, 6, 12)) {
				e.cross(mDenseRankOne, recv, []opnd{al, {}, {}}, caseSpec{}, vslot(1, r, 1), vslot(2, c, 2))
			}
		}
	}
	// alias in x / y
	for _, vk := range []kind{kVec, kVecT} {
		xs := u.sharedOps(kVec, r, 1)
		ys := u.sharedOps(kVec, c, 1)
		for _, al := range xs {
			al.k = vk
			if !e.keep(e.div(kVec, 4, 4)) {
				continue
			}
			e.cross(mDenseRankOne, recv, []opnd{{}, al, {}}, caseSpec{}, mslot(0, []kind{kDense, kBasic}, r, c, 1), vslot(2, c, 2))
			e.cross(mDenseRankOneSelf, recv, []opnd{al, {}}, caseSpec{}, vslot(1, c, 2))
			e.cross(mDenseOuter, recv, []opnd{al, {}}, caseSpec{}, vslot(1, c, 2))
		}
		for _, al := range ys {
			al.k = vk
			if !e.keep(e.div(kVec, 4, 4)) {
				continue
			}
			e.cross(mDenseRankOne, recv, []opnd{{}, {}, al}, caseSpec{}, mslot(0, []kind{kDense, kBasic}, r, c, 1), vslot(1, r, 2))
			e.cross(mDenseRankOneSelf, recv, []opnd{{}, al}, caseSpec{}, vslot(0, r, 2))
			e.cross(mDenseOuter, recv, []opnd{{}, al}, caseSpec{}, vslot(0, r, 2))
		}
	}
}

// genDenseKron: recv (ra*rb) x (ca*cb).
func genDenseKron(e *emitter, i int) {
	u := e.u
	recv := e.sh(kDense, u.wins[i])
	r, c := recv.w.r, recv.w.c
	for ra := 1; ra <= r; ra++ {
		if r%ra != 0 {
			continue
		}
		for ca := 1; ca <= c; ca++ {
			if c%ca != 0 {
				continue
			}
			rb, cb := r/ra, c/ca
			e.run(mDenseKron, recv, []opnd{privateLogical(kDense, ra, ca, 1), privateLogical(kDense, rb, cb, 2)}, caseSpec{})
			if ra == r && ca == c {
				e.run(mDenseKron, recv, []opnd{identical(recv, false), privateLogical(kDense, 1, 1, 2)}, caseSpec{})
			}
			if rb == r && cb == c {
				e.run(mDenseKron, recv, []opnd{privateLogical(kDense, 1, 1, 2), identical(recv, false)}, caseSpec{})
			}
			for _, k := range []kind{kDense, kDenseT} {
				d := e.div(k, 4, 8)
				for _, al := range u.sharedOps(k, ra, ca) {
					if e.keep(d) {
						e.run(mDenseKron, recv, []opnd{al, privateLogical(kDense, rb, cb, 2)}, caseSpec{})
					}
				}
				for _, al := range u.sharedOps(k, rb, cb) {
					if e.keep(d) {
						e.run(mDenseKron, recv, []opnd{privateLogical(kDense, ra, ca, 1), al}, caseSpec{})
					}
				}
			}
		}
	}
}

// genDenseStack: recv (ar+br) x c = [a; b]; Augment: recv r x (ac+bc) = [a b].
func genDenseStack(e *emitter, i int) {
	u := e.u
	recv := e.sh(kDense, u.wins[i])
	r, c := recv.w.r, recv.w.c
	for ar := 1; ar < r; ar++ {
		br := r - ar
		e.run(mDenseStack, recv, []opnd{privateLogical(kDense, ar, c, 1), privateLogical(kDenseT, br, c, 2)}, caseSpec{})
		for _, k := range []kind{kDense, kDenseT, kRawWrap} {
			d := e.div(k, 3, 8)
			for _, al := range u.sharedOps(k, ar, c) {
				if e.keep(d) {
					e.run(mDenseStack, recv, []opnd{al, privateLogical(kDense, br, c, 2)}, caseSpec{})
				}
			}
			for _, al := range u.sharedOps(k, br, c) {
				if e.keep(d) {
					e.run(mDenseStack, recv, []opnd{privateLogical(kDense, ar, c, 1), al}, caseSpec{})
				}
			}
		}
	}
	for ac := 1; ac < c; ac++ {
		bc := c - ac
		e.run(mDenseAugment, recv, []opnd{privateLogical(kDense, r, ac, 1), privateLogical(kDenseT, r, bc, 2)}, caseSpec{})
		for _, k := range []kind{kDense, kDenseT, kRawWrap} {
			d := e.div(k, 3, 8)
			for _, al := range u.sharedOps(k, r, ac) {
				if e.keep(d) {
					e.run(mDenseAugment, recv, []opnd{al, privateLogical(kDense, r, bc, 2)}, caseSpec{})
				}
			}
			for _, al := range u.sharedOps(k, r, bc) {
				if e.keep(d) {
					e.run(mDenseAugment, recv, []opnd{privateLogical(kDense, r, ac, 1), al}, caseSpec{})
				}
			}
		}
	}
}

func runDense(c *vrt.Ctx, u *universe) {
	n := len(u.wins)
	family(c, u, "dense.binary", n, genDenseBinary([]*method{mDenseAdd, mDenseSub, mDenseMulElem, mDenseDivElem}))
	family(c, u, "dense.unary", n, genDenseUnary([]*method{mDenseScale, mDenseApply, mDenseCopy, mDenseCloneFrom}))
	family(c, u, "dense.copyshapes", n, genDenseCopyShapes)
	family(c, u, "dense.square", n, genDenseSquare)
	family(c, u, "dense.mul", n, genDenseMul)
	family(c, u, "dense.solve", n, genDenseSolve)
	family(c, u, "dense.rankone", n, genDenseRankOne)
	family(c, u, "dense.kron", n, genDenseKron)
	family(c, u, "dense.stack", n, genDenseStack)
	family(c, u, "dense.permute", n, genDensePermute)
}
