package main

import (
	"fmt"
	"math"
	"math/cmplx"

	"gonum.org/v1/gonum/blas/cblas128"
	"gonum.org/v1/gonum/mat"
	"gonum.org/v1/gonum/verifx/vrt"
)

// CDense has only two receiver-taking methods with a matrix operand, Conj
// and Copy; the backing is a 6x6 complex128 array and the judge is the same
// as in exec.go, written out for complex storage.

type ckind uint8

const (
	ckPlain  ckind = iota // *mat.CDense
	ckT                   // .T()
	ckH                   // .H()
	ckOpaque              // CMatrix without RawCMatrix
)

var ckName = [...]string{"CDense", "CDense.T", "CDense.H", "opaque"}

type copaque struct{ d *mat.CDense }

func (m copaque) Dims() (int, int)       { return m.d.Dims() }
func (m copaque) At(i, j int) complex128 { return m.d.At(i, j) }
func (m copaque) H() mat.CMatrix         { return mat.ConjTranspose{CMatrix: m} }
func (m copaque) T() mat.CMatrix         { return mat.CTranspose{CMatrix: m} }

func cview(w win, a []complex128) *mat.CDense {
	d := new(mat.CDense)
	d.SetRawCMatrix(cblas128.General{Rows: w.r, Cols: w.c, Stride: w.st, Data: a[w.off : w.off+w.span()]})
	return d
}

func cpresent(k ckind, d *mat.CDense) mat.CMatrix {
	switch k {
	case ckT:
		return d.T()
	case ckH:
		return d.H()
	case ckOpaque:
		return copaque{d}
	}
	return d
}

func cfill(a []complex128, salt uint64, id int) {
	for i := range a {
		a[i] = complex(fillVal(salt, id, 2*i), fillVal(salt, id, 2*i+1))
	}
}

func csame(a, b []complex128) int {
	for i := range a {
		if math.Float64bits(real(a[i])) != math.Float64bits(real(b[i])) || math.Float64bits(imag(a[i])) != math.Float64bits(imag(b[i])) {
			return i
		}
	}
	return -1
}

type ccase struct {
	method string // "CDense.Conj" or "CDense.Copy"
	recv   win
	op     win
	k      ckind
	same   bool // operand is the receiver value (under k)
	priv   bool // operand lives in a private array
	salt   uint64
}

func (x *executor) runC(u *universe, cs ccase) {
	size := u.size
	back := make([]complex128, size)
	cfill(back, cs.salt, 0)
	parr := back
	if cs.priv {
		parr = make([]complex128, cs.op.off+cs.op.span())
		cfill(parr, cs.salt, 1)
	}
	pre := append([]complex128(nil), back...)
	ppre := append([]complex128(nil), parr...)
	call := func(recv *mat.CDense, a mat.CMatrix) {
		if cs.method == "CDense.Conj" {
			recv.Conj(a)
		} else {
			recv.Copy(a)
		}
	}
	// reference
	refRecv := cview(cs.recv, append([]complex128(nil), back...))
	refOp := cpresent(cs.k, cview(cs.op, append([]complex128(nil), parr...)))
	if p := try(func() { call(refRecv, refOp) }); p != nil {
		x.add(cs.method+"|unaliased|reference-call-panicked", "", sevNone, func() (string, any) { return p.Msg + "\n" + p.Stack, cs.replay("reference panicked", p) })
		return
	}
	// aliased
	recv := cview(cs.recv, back)
	var op mat.CMatrix
	if cs.same {
		op = cpresent(cs.k, recv)
	} else {
		op = cpresent(cs.k, cview(cs.op, parr))
	}
	rset := wordsOf(cs.recv, full, size)
	var r rel
	switch {
	case cs.priv:
		r = relNone
	case cs.same:
		r = relIdent
	default:
		oset := wordsOf(cs.op, full, size)
		switch {
		case rset.intersects(oset) && rset.equal(oset):
			r = relSame
		case rset.intersects(oset):
			r = relPartial
		case cs.recv.st != cs.op.st:
			r = relDisjointX
		default:
			r = relDisjoint
		}
	}
	p := try(func() { call(recv, op) })
	x.nCalls++
	outcome := "returned"
	if p != nil {
		outcome = "region-panic"
		if !isRegionPanic(p) {
			outcome = "other-panic"
		}
	}
	x.evals[cs.method+"|a="+ckName[cs.k]+":"+r.String()+"|"+outcome]++
	key := func(clause string) string {
		rs := r.String()
		if r == relSame || r == relPartial {
			rs = "overlap"
		}
		if cs.method == "CDense.Copy" && rs == "overlap" {
			rs += copyGeom(cs.recv, cs.op)
		}
		return cs.method + "|a=" + ckName[cs.k] + ":" + rs + "|other=-|" + clause
	}
	copyLike := cs.method == "CDense.Copy"
	switch {
	case p != nil && !isRegionPanic(p):
		cl := "panic:" + p.Msg
		if p.Runtime {
			cl = "runtime-panic"
		}
		x.add(key(cl), "", sevNone, func() (string, any) { return p.Msg + "\n" + p.Stack, cs.replay(outcome, p) })
	case p != nil:
		if r == relNone || r == relIdent || r == relDisjoint {
			x.add(key("region-panic(legal)"), "", sevNone, func() (string, any) { return "legal call rejected with \"" + p.Msg + "\"", cs.replay(outcome, p) })
		}
		if d := csame(back, pre); d >= 0 && !copyLike {
			x.add(key("operand-modified-before-panic"), "", sevNone, func() (string, any) {
				return fmt.Sprintf("backing word %d changed although the call panicked", d), cs.replay(outcome, p)
			})
		}
	default:
		gr, gc := recv.Dims()
		wr, wc := refRecv.Dims()
		ok := gr == wr && gc == wc
		for i := 0; ok && i < gr; i++ {
			for j := 0; j < gc; j++ {
				if cmplx.Abs(recv.At(i, j)-refRecv.At(i, j)) > relTol*4 {
					ok = false
				}
			}
		}
		switch {
		case (r == relPartial || r == relSame) && copyLike:
			if !ok {
				x.add(key("wrong-result"), "", sevNone, func() (string, any) {
					return "overlapping source: the receiver does not hold the source's pre-call elements", cs.replay(outcome, nil)
				})
			}
		case r == relPartial:
			cl := "no-panic(result-ok)"
			if !ok {
				cl = "no-panic(corrupts-result)"
			}
			x.add(key(cl), "", sevNone, func() (string, any) {
				return "receiver partially overlaps the operand's elements but the call returned", cs.replay(outcome, nil)
			})
		case r == relSame && !ok:
			x.add(key("no-panic(corrupts-result)"), "", sevNone, func() (string, any) {
				return "operand is a distinct view of exactly the receiver's elements; the call returned a wrong result", cs.replay(outcome, nil)
			})
		case !ok:
			x.add(key("wrong-result"), "", sevNone, func() (string, any) {
				return "result differs from the same call on unshared copies", cs.replay(outcome, nil)
			})
		}
		for i := range back {
			if !rset.has(i) && (real(back[i]) != real(pre[i]) || imag(back[i]) != imag(pre[i])) {
				x.add(key("operand-modified"), "", sevNone, func() (string, any) {
					return fmt.Sprintf("backing word %d outside the receiver changed", i), cs.replay(outcome, nil)
				})
				break
			}
		}
	}
	if cs.priv {
		if d := csame(parr, ppre); d >= 0 {
			x.add(key("operand-modified"), "", sevNone, func() (string, any) {
				return fmt.Sprintf("private operand word %d changed", d), cs.replay(outcome, p)
			})
		}
	}
}

func (cs ccase) replay(outcome string, p *pinfo) any {
	m := map[string]any{"method": cs.method, "receiver": cs.recv, "operand": cs.op, "operand_kind": ckName[cs.k],
		"operand_is_receiver": cs.same, "operand_private": cs.priv, "fill_salt": cs.salt, "outcome": outcome,
		"recv_off_r_c_stride": []int{cs.recv.off, cs.recv.r, cs.recv.c, cs.recv.st}, "op_off_r_c_stride": []int{cs.op.off, cs.op.r, cs.op.c, cs.op.st}}
	if p != nil {
		m["panic"] = p.Msg
	}
	return m
}

func runCDense(c *vrt.Ctx, u *universe) {
	family(c, u, "cdense", len(u.wins), func(e *emitter, i int) {
		wr := u.wins[i]
		next := func() uint64 { e.salt = splitmix(e.salt); return e.salt }
		for _, m := range []string{"CDense.Conj", "CDense.Copy"} {
			for _, k := range []ckind{ckPlain, ckT, ckH, ckOpaque} {
				tr := k == ckT || k == ckH
				// the receiver itself
				if k != ckOpaque && (!tr || wr.r == wr.c) {
					e.x.runC(u, ccase{method: m, recv: wr, op: wr, k: k, same: true, salt: next()})
				}
				// private operand
				pw := win{0, wr.r, wr.c, wr.c}
				if tr {
					pw = win{0, wr.c, wr.r, wr.r}
				}
				e.x.runC(u, ccase{method: m, recv: wr, op: pw, k: k, priv: true, salt: next()})
				if k == ckOpaque {
					continue // aliasing behind an opaque type is outside the property
				}
				// every window of the right shape
				idx := u.byShape[wr.r][wr.c]
				if tr {
					idx = u.byShape[wr.c][wr.r]
				}
				for _, j := range idx {
					e.x.runC(u, ccase{method: m, recv: wr, op: u.wins[j], k: k, salt: next()})
				}
			}
		}
	})
}
