package main

import (
	"fmt"
	"runtime"
	"runtime/debug"
	"strings"
)

// pinfo describes a recovered panic. It mirrors vrt.PanicInfo; the monitor
// uses its own recover wrapper because region panics are the expected
// outcome of a large share of the cases and vrt.Try formats a stack trace
// for every panic (a global runtime lock, ~90% of the run time when 16
// goroutines panic concurrently). Here the stack is only captured for
// panics that are not one of mat's three region strings.
type pinfo struct {
	Msg     string
	Runtime bool
	Stack   string
}

func isRegionMsg(s string) bool {
	return s == "mat: bad region: overlap" || s == "mat: bad region: identical" || s == "mat: bad region: different strides"
}

func try(f func()) (p *pinfo) {
	defer func() {
		if r := recover(); r != nil {
			p = &pinfo{}
			switch v := r.(type) {
			case runtime.Error:
				p.Runtime = true
				p.Msg = v.Error()
			case error:
				p.Msg = v.Error()
			case string:
				p.Msg = v
			default:
				p.Msg = fmt.Sprint(r)
			}
			if p.Runtime || !isRegionMsg(p.Msg) {
				lines := strings.Split(string(debug.Stack()), "\n")
				if len(lines) > 40 {
					lines = lines[:40]
				}
				p.Stack = strings.Join(lines, "\n")
			}
		}
	}()
	f()
	return nil
}
