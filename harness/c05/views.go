package main

import (
	"gonum.org/v1/gonum/blas"
	"gonum.org/v1/gonum/blas/blas64"
	"gonum.org/v1/gonum/mat"
)

// kind is how a window of an array is presented to mat.
type kind uint8

const (
	kDense    kind = iota // *mat.Dense over the window
	kDenseT               // the same under T(): logical dims c x r
	kRawWrap              // user type exposing RawMatrix (not *Dense)
	kBasic                // user type exposing only Dims/At/T (no Raw*): mat cannot see the aliasing
	kVec                  // *mat.VecDense (column, n x 1)
	kVecT                 // the same under T() (1 x n)
	kBasicVec             // mat.Vector without RawVector
	kSym                  // *mat.SymDense (upper storage)
	kBasicSym             // mat.Symmetric without RawSymmetric
	kTriU                 // *mat.TriDense upper
	kTriL                 // *mat.TriDense lower
	kTriUT                // upper under T()
	kTriLT                // lower under T()
	kDiag                 // *mat.DiagDense (private arrays only)
	numKinds
)

var kindName = [numKinds]string{"Dense", "Dense.T", "RawMatrixer", "basic", "VecDense", "VecDense.T", "basicVec",
	"SymDense", "basicSym", "TriDense(U)", "TriDense(L)", "TriDense(U).T", "TriDense(L).T", "DiagDense"}

func (k kind) String() string { return kindName[k] }

// base maps a transposed / wrapped presentation to the concrete mat type
// that owns the storage.
func (k kind) base() kind {
	switch k {
	case kDenseT, kRawWrap, kBasic:
		return kDense
	case kVecT, kBasicVec:
		return kVec
	case kBasicSym:
		return kSym
	case kTriUT:
		return kTriU
	case kTriLT:
		return kTriL
	}
	return k
}

func (k kind) transposed() bool { return k == kDenseT || k == kVecT || k == kTriUT || k == kTriLT }

// visible reports whether mat can see the storage behind the operand
// (built-in type or Raw* method). Aliasing behind invisible kinds is outside
// the property (DESIGN C05 Limits).
func (k kind) visible() bool { return k != kBasic && k != kBasicVec && k != kBasicSym }

// addressed triangle of the window.
func (k kind) tri() tri {
	switch k.base() {
	case kSym, kTriU:
		return upper
	case kTriL:
		return lower
	}
	return full
}

// opnd is one operand (or the receiver) of a case.
type opnd struct {
	k    kind
	w    win
	arr  int  // 0 = the shared backing array, i>0 = private array i
	same bool // the operand IS the receiver Go value (under T() if k.transposed())

	ref, rect bset // addressed words / rectangle words (arr==0 only)
}

// dims returns the logical dimensions mat sees.
func (o *opnd) dims() (r, c int) {
	switch o.k {
	case kDenseT:
		return o.w.c, o.w.r
	case kVecT:
		return 1, o.w.r
	}
	return o.w.r, o.w.c
}

// shared makes an operand over window w of the shared backing of size n.
func shared(k kind, w win, size int) opnd {
	o := opnd{k: k, w: w}
	o.ref = wordsOf(w, k.tri(), size)
	if k.tri() == full {
		o.rect = o.ref
	} else {
		o.rect = wordsOf(w, full, size)
	}
	return o
}

// private makes an operand with logical storage r x c, compactly stored,
// in private array number arr.
func private(k kind, r, c, arr int) opnd {
	st := c
	if k.base() == kVec {
		st = 1
	}
	if k == kDiag {
		return opnd{k: k, w: win{0, r, 1, 1}, arr: arr}
	}
	return opnd{k: k, w: win{0, r, c, st}, arr: arr}
}

// privateLogical makes a private operand whose LOGICAL dims are r x c.
func privateLogical(k kind, r, c, arr int) opnd {
	switch k {
	case kDenseT:
		return private(k, c, r, arr)
	case kVecT:
		return private(k, c, 1, arr)
	case kVec, kBasicVec:
		return private(k, r, 1, arr)
	}
	return private(k, r, c, arr)
}

// identical makes the operand that is the receiver itself.
func identical(recv opnd, transposed bool) opnd {
	o := recv
	o.same = true
	if transposed {
		switch recv.k {
		case kDense:
			o.k = kDenseT
		case kVec:
			o.k = kVecT
		case kTriU:
			o.k = kTriUT
		case kTriL:
			o.k = kTriLT
		}
	}
	return o
}

func general(w win, a []float64) blas64.General {
	return blas64.General{Rows: w.r, Cols: w.c, Stride: w.st, Data: a[w.off : w.off+w.span()]}
}

// buildBase materialises the concrete mat value over window w of a.
func buildBase(k kind, w win, a []float64) any {
	switch k {
	case kDense:
		d := new(mat.Dense)
		d.SetRawMatrix(general(w, a))
		return d
	case kVec:
		v := new(mat.VecDense)
		v.SetRawVector(blas64.Vector{N: w.r, Inc: w.st, Data: a[w.off : w.off+(w.r-1)*w.st+1]})
		return v
	case kSym:
		s := new(mat.SymDense)
		s.SetRawSymmetric(blas64.Symmetric{N: w.r, Stride: w.st, Uplo: blas.Upper, Data: a[w.off : w.off+w.span()]})
		return s
	case kTriU, kTriL:
		t := new(mat.TriDense)
		ul := blas.Upper
		if k == kTriL {
			ul = blas.Lower
		}
		t.SetRawTriangular(blas64.Triangular{N: w.r, Stride: w.st, Uplo: ul, Diag: blas.NonUnit, Data: a[w.off : w.off+w.span()]})
		return t
	case kDiag:
		return mat.NewDiagDense(w.r, a[w.off:w.off+w.r])
	}
	panic("c05: buildBase: bad kind")
}

// present wraps a concrete value as kind k.
func present(k kind, base any) mat.Matrix {
	switch k {
	case kDense:
		return base.(*mat.Dense)
	case kDenseT:
		return base.(*mat.Dense).T()
	case kRawWrap:
		return rawWrap{base.(*mat.Dense)}
	case kBasic:
		return basic{base.(*mat.Dense)}
	case kVec:
		return base.(*mat.VecDense)
	case kVecT:
		return base.(*mat.VecDense).TVec()
	case kBasicVec:
		return basicVec{base.(*mat.VecDense)}
	case kSym:
		return base.(*mat.SymDense)
	case kBasicSym:
		return basicSym{base.(*mat.SymDense)}
	case kTriU, kTriL:
		return base.(*mat.TriDense)
	case kTriUT, kTriLT:
		return base.(*mat.TriDense).TTri()
	case kDiag:
		return base.(*mat.DiagDense)
	}
	panic("c05: present: bad kind")
}

// rawWrap is a user matrix type that exposes its storage through RawMatrix
// but is not a *mat.Dense.
type rawWrap struct{ d *mat.Dense }

func (m rawWrap) Dims() (int, int)          { return m.d.Dims() }
func (m rawWrap) At(i, j int) float64       { return m.d.At(i, j) }
func (m rawWrap) T() mat.Matrix             { return mat.Transpose{Matrix: m} }
func (m rawWrap) RawMatrix() blas64.General { return m.d.RawMatrix() }

// basic hides the storage completely.
type basic struct{ d *mat.Dense }

func (m basic) Dims() (int, int)    { return m.d.Dims() }
func (m basic) At(i, j int) float64 { return m.d.At(i, j) }
func (m basic) T() mat.Matrix       { return mat.Transpose{Matrix: m} }

type basicVec struct{ v *mat.VecDense }

func (m basicVec) Dims() (int, int)    { return m.v.Dims() }
func (m basicVec) At(i, j int) float64 { return m.v.At(i, j) }
func (m basicVec) T() mat.Matrix       { return mat.Transpose{Matrix: m} }
func (m basicVec) AtVec(i int) float64 { return m.v.AtVec(i) }
func (m basicVec) Len() int            { return m.v.Len() }

type basicSym struct{ s *mat.SymDense }

func (m basicSym) Dims() (int, int)    { return m.s.Dims() }
func (m basicSym) At(i, j int) float64 { return m.s.At(i, j) }
func (m basicSym) T() mat.Matrix       { return m }
func (m basicSym) SymmetricDim() int   { return m.s.SymmetricDim() }
