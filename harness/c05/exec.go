package main

import (
	"errors"
	"fmt"
	"math"
	"os"
	"sort"
	"strconv"
	"strings"
	"sync"

	"gonum.org/v1/gonum/mat"
	"gonum.org/v1/gonum/verifx/vrt"
)

// relTol bounds |got-want| / max(1,max|want|) between the aliased call and
// the same call on private copies. Both runs execute the same gonum
// arithmetic on the same values (often through a scratch copy), so they
// normally agree to the bit; the worst ratio observed on the pinned tree
// over seeds 1,2,3,7,42 (both tiers) is recorded in the evidence note
// "max_rel_dev" and is 0 or a few ulp (blocked/unblocked LAPACK paths do
// not differ at n<=6). Corruption through aliasing changes values by O(1).
const relTol = 1e-9

// method is one receiver-taking mat method under test.
type method struct {
	name string
	// pos names the operand positions (for reports).
	pos []string
	// call invokes the method; recv is the concrete receiver value
	// (*mat.Dense, *mat.VecDense, *mat.SymDense, *mat.TriDense).
	call func(recv any, ops []mat.Matrix, cs *caseSpec)
	// copyLike marks the Copy family, documented as "similar to the
	// built-in copy": an overlapping source is legal, the receiver must end
	// up holding the source's pre-call elements (memmove semantics); a region
	// panic is also accepted (Dense.Copy documents one for transposed
	// sources).
	copyLike bool
	// realloc marks CloneFrom-style methods, documented to overwrite the
	// receiver value itself: they allocate fresh storage, so the receiver's
	// old window overlapping the source is legal and the shared backing must
	// not be written at all.
	realloc bool
	// toStyle marks dst-style methods (SolveTo family), see solve.go: an
	// overlapping dst/b must be rejected or solved correctly.
	toStyle bool
	// errOp is 1 + the index of the operand whose values decide whether the
	// method returns an error (the matrix it inverts or factorises); 0 = the
	// method has no such operand. Cases of these methods, and of the toStyle
	// methods (whose factorization is private), are run once per value class.
	errOp int
}

// caseSpec is one concrete call.
type caseSpec struct {
	m     *method
	recv  opnd
	ops   []opnd
	cond  []int // operands to make diagonally dominant before the call
	alpha float64
	zero  bool // alpha is really 0 (otherwise 0 means "use the default")
	n     int
	idx   []int
	trans bool
	size  int // words in the shared backing
	salt  uint64
	fac   facCache // the executing goroutine's factorizations (solve.go)
	// vclass is the value class (vcWell, vcIll, vcSingular) of the operand
	// m.errOp / of the private factorization.
	vclass int
	// status is set by method.call: the class of the returned error, or the
	// printed secondary return values (Copy family).
	status string
}

type opReplay struct {
	Pos    string `json:"pos"`
	Kind   string `json:"kind"`
	Off    int    `json:"off"`
	Rows   int    `json:"rows"`
	Cols   int    `json:"cols"`
	Stride int    `json:"stride"`
	Array  string `json:"array"`
	IsRecv bool   `json:"is_receiver_value,omitempty"`
	Rel    string `json:"relation_to_receiver"`
}

type replay struct {
	Method  string     `json:"method"`
	Backing int        `json:"backing_words"`
	Recv    opReplay   `json:"receiver"`
	Ops     []opReplay `json:"operands"`
	Alpha   float64    `json:"alpha,omitempty"`
	N       int        `json:"n,omitempty"`
	Idx     []int      `json:"idx,omitempty"`
	Trans   bool       `json:"trans,omitempty"`
	Salt    uint64     `json:"fill_salt"`
	Outcome string     `json:"outcome"`
	Panic   string     `json:"panic,omitempty"`
	Got     []float64  `json:"got,omitempty"`
	Want    []float64  `json:"want,omitempty"`
	Note    string     `json:"note,omitempty"`
}

func splitmix(x uint64) uint64 {
	x += 0x9e3779b97f4a7c15
	z := x
	z = (z ^ (z >> 30)) * 0xbf58476d1ce4e5b9
	z = (z ^ (z >> 27)) * 0x94d049bb133111eb
	return z ^ (z >> 31)
}

// fillVal is the deterministic content of word idx of array id: magnitude
// in [1.0625, 2.0625), about one in four negative; never 0 or 1 so that
// element-wise division and a doubled operation are always visible.
func fillVal(salt uint64, id, idx int) float64 {
	x := splitmix(salt ^ uint64(id)*0x100000001b3 ^ uint64(idx)*0x9e3779b1)
	v := 1.0625 + float64(x>>11)/(1<<53)
	if x&3 == 0 {
		v = -v
	}
	return v
}

func fill(a []float64, salt uint64, id int) {
	for i := range a {
		a[i] = fillVal(salt, id, i)
	}
}

// executor holds per-goroutine scratch and local counters.
type executor struct {
	c      *vrt.Ctx
	evals  map[string]int
	found  map[string]*finding
	maxDev float64
	nCalls int
	fac    facCache
	// statusN counts, for the methods with an error path, the aliased calls
	// by value class and returned status (evidence of reach).
	statusN map[string]int
}

var execPool sync.Pool

func getExec(c *vrt.Ctx) *executor {
	if v := execPool.Get(); v != nil {
		return v.(*executor)
	}
	return &executor{c: c, evals: make(map[string]int), found: make(map[string]*finding), fac: facCache{}, statusN: make(map[string]int)}
}

var devMu sync.Mutex
var globalMaxDev float64

func putExec(x *executor) {
	for k, n := range x.evals {
		x.c.EvalN(k, n, true)
		delete(x.evals, k)
	}
	x.flushFindings()
	for k, n := range x.statusN {
		x.c.Count("errpath["+k+"]", int64(n))
		delete(x.statusN, k)
	}
	devMu.Lock()
	if x.maxDev > globalMaxDev {
		globalMaxDev = x.maxDev
	}
	devMu.Unlock()
	execPool.Put(x)
}

func isRegionPanic(p *pinfo) bool {
	return p != nil && !p.Runtime && isRegionMsg(p.Msg)
}

func clone(a []float64) []float64 { return append([]float64(nil), a...) }

func sameBits(a, b []float64) int {
	for i := range a {
		if math.Float64bits(a[i]) != math.Float64bits(b[i]) {
			return i
		}
	}
	return -1
}

// relation computes the ground-truth relation of operand o to receiver r.
func relation(r, o *opnd) rel {
	if o.arr != 0 {
		return relNone
	}
	if o.same {
		return relIdent
	}
	if r.ref.intersects(o.ref) {
		if r.ref.equal(o.ref) {
			return relSame
		}
		return relPartial
	}
	if r.rect.intersects(o.rect) {
		return relAmbig
	}
	if r.w.st != o.w.st {
		return relDisjointX
	}
	return relDisjoint
}

func readout(m mat.Matrix) (r, c int, v []float64) {
	r, c = m.Dims()
	v = make([]float64, 0, r*c)
	for i := 0; i < r; i++ {
		for j := 0; j < c; j++ {
			v = append(v, m.At(i, j))
		}
	}
	return
}

// errClass is the comparable class of a returned error.
func errClass(err error) string {
	if err == nil {
		return "nil"
	}
	var c mat.Condition
	if errors.As(err, &c) {
		if math.IsInf(float64(c), 1) {
			return "Condition(+Inf)"
		}
		return "Condition(finite)"
	}
	return "error:" + err.Error()
}

// resultDefined reports whether the documentation defines the result for a
// call that returned status: no error, a finite Condition error, or (Copy
// family) plain return values.
func resultDefined(status string) bool {
	return status != "Condition(+Inf)" && !strings.HasPrefix(status, "error:")
}

// degrade turns the (already well conditioned) operand o into value class
// vc: ill conditioned (condition number about 1e17, still factorisable) or
// exactly singular / not positive definite.
func degrade(o *opnd, a []float64, vc int) {
	w := o.w
	at := func(i, j int) *float64 { return &a[w.off+i*w.st+j] }
	switch o.k.base() {
	case kSym:
		// congruence D*A*D with D = diag(1,...,1,d): stays positive definite
		// for d > 0 (condition about 1e18), singular for d = 0.
		d := 1e-9
		if vc == vcSingular {
			d = 0
		}
		n := w.r
		for i := 0; i < n-1; i++ {
			*at(i, n-1) *= d
		}
		*at(n-1, n-1) *= d * d
	case kTriU, kTriL:
		n := w.r
		if vc == vcSingular {
			*at(n-1, n-1) = 0
		} else {
			*at(n-1, n-1) *= illScale
		}
	default:
		s := illScale
		if vc == vcSingular {
			s = 0
		}
		if w.r >= w.c {
			for i := 0; i < w.r; i++ {
				*at(i, w.c-1) *= s
			}
		} else {
			for j := 0; j < w.c; j++ {
				*at(w.r-1, j) *= s
			}
		}
	}
}

func (x *executor) condition(o *opnd, a []float64) {
	n := o.w.r
	if o.w.c < n {
		n = o.w.c
	}
	for t := 0; t < n; t++ {
		i := o.w.off + t*o.w.st + t
		a[i] = 2.25*float64(n) + 1 + math.Abs(a[i])
	}
}

// run executes one case and judges it.
func (x *executor) run(cs *caseSpec) {
	c := x.c
	m := cs.m
	nArr := 1
	for i := range cs.ops {
		if cs.ops[i].arr >= nArr {
			nArr = cs.ops[i].arr + 1
		}
	}
	arrs := make([][]float64, nArr)
	arrs[0] = make([]float64, cs.size)
	fill(arrs[0], cs.salt, 0)
	for i := range cs.ops {
		o := &cs.ops[i]
		if o.arr != 0 && arrs[o.arr] == nil {
			arrs[o.arr] = make([]float64, o.w.off+o.w.span())
			fill(arrs[o.arr], cs.salt, o.arr)
		}
	}
	for _, i := range cs.cond {
		o := &cs.ops[i]
		x.condition(o, arrs[o.arr])
	}
	if m.errOp > 0 && cs.vclass != vcWell {
		o := &cs.ops[m.errOp-1]
		degrade(o, arrs[o.arr], cs.vclass)
	}
	pre := make([][]float64, nArr)
	for i := range arrs {
		pre[i] = clone(arrs[i])
	}

	// Reference: identical geometry, but the receiver and every operand
	// live in their own copy of their array, so nothing is shared.
	refRecvArr := clone(arrs[0])
	refRecv := buildBase(cs.recv.k, cs.recv.w, refRecvArr)
	refOps := make([]mat.Matrix, len(cs.ops))
	for i := range cs.ops {
		o := &cs.ops[i]
		refOps[i] = present(o.k, buildBase(o.k.base(), o.w, clone(arrs[o.arr])))
	}
	cs.status = ""
	pRef := try(func() { m.call(refRecv, refOps, cs) })
	refStatus := cs.status
	if pRef != nil {
		// The unaliased call itself fails: the case is outside the method's
		// domain (a generator error), not an aliasing observation.
		x.add(m.name+"|unaliased|reference-call-panicked", "", sevNone, func() (string, any) {
			return pRef.Msg + "\n" + pRef.Stack, x.replayOf(cs, nil, "reference panicked", pRef, nil, nil)
		})
		return
	}
	wr, wc, want := readout(refRecv.(mat.Matrix))
	if d := sameBits(refRecvArr, pre[0]); d >= 0 && !cs.recv.rect.has(d) {
		// Out-of-window write without any aliasing.
		x.add(m.name+"|unaliased|stray-write(reference-run)", "", sevNone, func() (string, any) {
			return fmt.Sprintf("reference run wrote word %d outside the receiver window", d), x.replayOf(cs, nil, "stray write (reference)", nil, nil, nil)
		})
	}

	// Aliased run.
	recv := buildBase(cs.recv.k, cs.recv.w, arrs[0])
	ops := make([]mat.Matrix, len(cs.ops))
	rels := make([]rel, len(cs.ops))
	for i := range cs.ops {
		o := &cs.ops[i]
		if o.same {
			ops[i] = present(o.k, recv)
		} else {
			ops[i] = present(o.k, buildBase(o.k.base(), o.w, arrs[o.arr]))
		}
		rels[i] = relation(&cs.recv, o)
		if !o.k.visible() && rels[i] != relNone && rels[i] != relDisjoint && rels[i] != relDisjointX {
			panic("c05: generator aliased an operand mat cannot see")
		}
	}
	cs.status = ""
	p := try(func() { m.call(recv, ops, cs) })
	status := cs.status
	x.nCalls++
	if m.errOp > 0 || m.toStyle {
		x.statusN["v"+strconv.Itoa(cs.vclass)+" "+status]++
	}

	// Expectation from ground truth.
	mustPanic, mayPanic, sameRegion := false, false, false
	for _, r := range rels {
		switch r {
		case relPartial:
			mustPanic = true
		case relSame:
			sameRegion = true
		case relAmbig, relDisjointX:
			mayPanic = true
		}
	}
	desc := x.aliasDesc(cs, rels)
	outcome := "returned"
	if p != nil {
		outcome = "region-panic"
		if !isRegionPanic(p) {
			outcome = "other-panic"
		}
	}
	x.evals[m.name+"|"+desc+"|"+x.otherDesc(cs)+"|v"+strconv.Itoa(cs.vclass)+":"+status+"|"+outcome]++
	if x.nCalls&0xfff == 1 && c.WantSample() {
		c.Sample(x.replayOf(cs, rels, outcome, p, nil, nil))
	}

	switch {
	case p != nil && !isRegionPanic(p):
		cl := "panic:" + p.Msg
		if p.Runtime {
			cl = "runtime-panic"
		}
		x.report(cs, rels, cl, sevNone, func() (string, any) { return p.Msg + "\n" + p.Stack, x.replayOf(cs, rels, outcome, p, nil, want) })
	case p != nil:
		copySelfT := false
		if m.copyLike {
			// mat/doc.go: "An exception to this rule is Copy, which does not
			// allow a.Copy(a.T())": the Copy family may reject the receiver
			// under T().
			for i := range cs.ops {
				if rels[i] == relIdent && cs.ops[i].k.transposed() {
					copySelfT = true
				}
			}
		}
		if !(mustPanic || sameRegion || mayPanic || copySelfT) {
			// (d): a legal call (disjoint same-stride views, the receiver
			// itself, or no sharing at all) is rejected.
			mk := func() (string, any) {
				return "legal call rejected with \"" + p.Msg + "\"", x.replayOf(cs, rels, outcome, p, nil, want)
			}
			if g := x.attribute(cs, rels, true); g != "" {
				x.add(g, "", sevNone, mk)
			} else {
				x.report(cs, rels, "region-panic(legal)", sevNone, mk)
			}
		}
		// Operands must be bit-identical after a call that panicked.
		x.checkUntouched(cs, rels, arrs, pre, true)
	default:
		gr, gc, got := readout(recv.(mat.Matrix))
		// After Condition(+Inf) or another failure the documentation leaves
		// the destination undefined ("the solve algorithm may have completed
		// early"): only the error itself, and operand immutability, are judged.
		ok := gr == wr && gc == wc && (!resultDefined(refStatus) || !resultDefined(status) || x.close(got, want))
		if !mustPanic && status != refStatus {
			x.report(cs, rels, "status-differs", sevNone, func() (string, any) {
				return fmt.Sprintf("the aliased call returned %q, the same call on unshared copies %q (returned error / secondary return values)", status, refStatus), x.replayOf(cs, rels, outcome, nil, got, want)
			})
		}
		switch {
		case (mustPanic || sameRegion) && (m.copyLike || m.realloc || m.toStyle):
			if !ok {
				mk := func() (string, any) {
					return "overlapping source: the call returned, but not with the result computed from the operands' pre-call elements", x.replayOf(cs, rels, outcome, nil, got, want)
				}
				if g := x.attribute(cs, rels, false); g != "" {
					x.add(g, "", sevNone, mk)
				} else {
					x.report(cs, rels, "wrong-result", sevNone, mk)
				}
			}
		case mustPanic && !resultDefined(status) && sameBits(arrs[0], pre[0]) < 0:
			// The call failed early (Condition(+Inf), not positive definite,
			// ...) before reaching its overlap check and wrote nothing at all:
			// no result was produced that the overlap could have corrupted,
			// and the documentation does not order the two diagnostics.
		case mustPanic:
			mk := func() (string, any) {
				return "receiver partially overlaps an operand's elements but the call returned", x.replayOf(cs, rels, outcome, nil, got, want)
			}
			sev := sevOK
			if !ok {
				sev = sevWrong
			}
			if g := x.attribute(cs, rels, false); g != "" {
				x.add(g, "", sevNone, mk)
			} else {
				x.report(cs, rels, "no-panic", sev, mk)
			}
		case sameRegion && !ok:
			// A distinct view of exactly the receiver's elements: a region
			// panic or the right result are both admissible, a wrong result
			// is an undetected overlap.
			x.report(cs, rels, "no-panic", sevWrong, func() (string, any) {
				return "operand is a distinct view of exactly the receiver's elements; the call returned a wrong result", x.replayOf(cs, rels, outcome, nil, got, want)
			})
		case !ok:
			x.report(cs, rels, "wrong-result", sevNone, func() (string, any) {
				return "result differs from the same call on unshared copies", x.replayOf(cs, rels, outcome, nil, got, want)
			})
		}
		x.checkUntouched(cs, rels, arrs, pre, false)
		if m.realloc {
			if d := sameBits(arrs[0], pre[0]); d >= 0 {
				x.report(cs, rels, "stray-write", sevNone, func() (string, any) {
					return fmt.Sprintf("backing word %d changed although the method reallocates its receiver", d), x.replayOf(cs, rels, "stray write", nil, nil, nil)
				})
			}
		}
	}
}

// close compares and tracks the worst relative deviation of accepted results.
func (x *executor) close(got, want []float64) bool {
	if len(got) != len(want) {
		return false
	}
	scale := 1.0
	for _, w := range want {
		if a := math.Abs(w); a > scale && !math.IsInf(a, 0) {
			scale = a
		}
	}
	ok := true
	worst := 0.0
	for i := range got {
		g, w := got[i], want[i]
		if math.Float64bits(g) == math.Float64bits(w) {
			continue
		}
		if math.IsNaN(g) && math.IsNaN(w) {
			continue
		}
		d := math.Abs(g-w) / scale
		if !(d <= relTol) {
			ok = false
			continue
		}
		if d > worst {
			worst = d
		}
	}
	if ok && worst > x.maxDev {
		x.maxDev = worst
	}
	return ok
}

// checkUntouched verifies operand immutability and absence of stray writes.
// After a normal return every word of the shared backing outside the
// receiver's rectangle must hold its pre-call bits (that covers every
// operand that does not overlap the receiver and every word in no window);
// after a panic the addressed words of every operand other than the
// receiver value must too, even where they overlap the receiver. Private
// operand arrays must always be unchanged.
func (x *executor) checkUntouched(cs *caseSpec, rels []rel, arrs, pre [][]float64, panicked bool) {
	for id := 1; id < len(arrs); id++ {
		if arrs[id] == nil {
			continue
		}
		if d := sameBits(arrs[id], pre[id]); d >= 0 {
			x.report(cs, rels, "operand-modified", sevNone, func() (string, any) {
				return fmt.Sprintf("private operand array %d word %d changed", id, d), x.replayOf(cs, rels, "operand mutated", nil, nil, nil)
			})
		}
	}
	for i := range arrs[0] {
		if math.Float64bits(arrs[0][i]) == math.Float64bits(pre[0][i]) {
			continue
		}
		inRecv := cs.recv.rect.has(i)
		opHit := -1
		for k := range cs.ops {
			o := &cs.ops[k]
			if o.arr == 0 && !o.same && o.ref.has(i) {
				opHit = k
				break
			}
		}
		switch {
		case !inRecv && opHit >= 0:
			x.report(cs, rels, "operand-modified", sevNone, func() (string, any) {
				return fmt.Sprintf("word %d of operand %s, outside the receiver, changed", i, cs.m.pos[opHit]), x.replayOf(cs, rels, "operand mutated", nil, nil, nil)
			})
			return
		case !inRecv:
			x.report(cs, rels, "stray-write", sevNone, func() (string, any) {
				return fmt.Sprintf("backing word %d outside every window changed", i), x.replayOf(cs, rels, "stray write", nil, nil, nil)
			})
			return
		case panicked && opHit >= 0 && !cs.m.copyLike:
			// (the Copy family may have moved part of an overlapping source
			// before a documented panic; nothing else may)
			x.report(cs, rels, "operand-modified-before-panic", sevNone, func() (string, any) {
				return fmt.Sprintf("word %d of operand %s changed although the call panicked", i, cs.m.pos[opHit]), x.replayOf(cs, rels, "operand mutated before panic", nil, nil, nil)
			})
			return
		}
	}
}

// aliasDesc lists the operands that live in the shared backing with their
// ground-truth relation, e.g. "a=Dense:partial".
func (x *executor) aliasDesc(cs *caseSpec, rels []rel) string {
	var parts []string
	for i := range cs.ops {
		if rels[i] == relNone {
			continue
		}
		parts = append(parts, cs.m.pos[i]+"="+cs.ops[i].k.String()+":"+rels[i].String())
	}
	if len(parts) == 0 {
		return "unaliased"
	}
	return strings.Join(parts, ",")
}

// sigClass is the kind name used in signatures: the upper/lower variants of
// TriDense and the three storage-hiding wrappers are merged.
func sigClass(k kind) string {
	switch k {
	case kTriU, kTriL:
		return "TriDense"
	case kTriUT, kTriLT:
		return "TriDense.T"
	case kBasic, kBasicVec, kBasicSym:
		return "opaque"
	}
	return k.String()
}

// Violation signatures
//
//	Type.Method | [path|] pos=Kind:relation[,...] | other=<kinds> | clause
//
// pos=Kind:relation lists the primary operands: the shared-backing operands
// that overlap the receiver without being it (relation "overlap" = partial
// overlap or a distinct view of exactly the receiver's elements, "rect-only"
// = only the unaddressed triangle intersects); if there is none, the
// operands that ARE the receiver ("identical"; the kind says whether under
// T()); for a rejected legal call with neither, the disjoint shared ones.
// other= is the combination of kinds of all remaining operands, sorted (an
// operand that is the receiver value is marked Kind:identical); mat
// dispatches on the concrete types of all operands, so a missing overlap
// check usually exists only for some combinations and each combination is
// its own signature. A signature never contains positions inside the
// backing, sizes, values or seeds. The kind combinations enumerated do not
// depend on tier or seed (the thorough tier only adds geometry), so the set
// of signatures of a given tree is closed under both.
//
// Witnesses are aggregated per signature and emitted at the end of the run
// (emitFindings). Clauses: no-panic(corrupts-result) / no-panic(result-ok)
// (decided per witness), region-panic(legal), wrong-result,
// operand-modified, operand-modified-before-panic, stray-write,
// runtime-panic, panic:<msg>.
type severity uint8

const (
	sevNone severity = iota
	sevOK
	sevWrong
)

type finding struct {
	n int
	d string
	r any
}

func (x *executor) report(cs *caseSpec, rels []rel, clause string, sev severity, mk func() (string, any)) {
	// Primary operands: those overlapping the receiver without being it. If
	// there are none, the receiver-identical operands (clauses wrong-result,
	// region-panic) or, for a rejected legal call, the disjoint shared ones.
	primary := func(r rel) bool { return r == relSame || r == relPartial || r == relAmbig }
	nPrim := 0
	for _, r := range rels {
		if primary(r) {
			nPrim++
		}
	}
	if nPrim == 0 {
		nId := 0
		for _, r := range rels {
			if r == relIdent {
				nId++
			}
		}
		if nId > 0 {
			primary = func(r rel) bool { return r == relIdent }
		} else if clause == "region-panic(legal)" {
			primary = func(r rel) bool { return r == relDisjoint }
		}
	}
	var inter, others []string
	for i := range cs.ops {
		r := rels[i]
		k := sigClass(cs.ops[i].k)
		switch {
		case primary(r):
			d := cs.m.pos[i] + "=" + k + ":" + sigRel(r)
			if cs.m.copyLike && (r == relSame || r == relPartial) {
				d += copyGeom(cs.recv.w, cs.ops[i].w)
			}
			inter = append(inter, d)
		case r == relIdent:
			others = append(others, k+":identical")
		default:
			others = append(others, k)
		}
	}
	sort.Strings(others)
	path := ""
	if clause == "wrong-result" {
		path = x.path(cs, rels)
	}
	mid := strings.Join(inter, ",")
	if mid == "" {
		mid = "unaliased"
	}
	oth := strings.Join(others, ",")
	if oth == "" {
		oth = "-"
	}
	switch sev {
	case sevOK:
		clause += "(result-ok)"
	case sevWrong:
		clause += "(corrupts-result)"
	}
	if debugStrides {
		// development aid (C05_DEBUG_STRIDES=1): split by stride equality
		eq := "eqstride"
		for i := range cs.ops {
			if cs.ops[i].arr == 0 && !cs.ops[i].same && cs.ops[i].w.st != cs.recv.w.st {
				eq = "diffstride"
			}
		}
		clause += "|" + eq
	}
	x.add(cs.m.name+"|"+path+mid+"|other="+oth+"|"+clause, "", sevNone, mk)
}

var debugStrides = os.Getenv("C05_DEBUG_STRIDES") != ""

// copyGeom refines the path class of an overlapping Copy-family call by
// the geometry that decides whether a forward or backward element loop is
// safe: where the source starts relative to the receiver in memory
// (src-before / src-after / same-start), whether the two views have the same
// stride (inc), and whether the start offset is a whole number of receiver
// rows (row-shift), less than one row (col-shift) or both (mixed-shift).
// None of this depends on the seed; every combination that exists in the
// enumerated backings is enumerated in the thorough tier.
func copyGeom(recv, src win) string {
	d := src.off - recv.off
	pos := "same-start"
	switch {
	case d < 0:
		pos, d = "src-before", -d
	case d > 0:
		pos = "src-after"
	}
	st := "eq-stride"
	if recv.st != src.st {
		st = "diff-stride"
	}
	shift := ""
	if d != 0 {
		switch {
		case d%recv.st == 0:
			shift = ",row-shift"
		case d < recv.st:
			shift = ",col-shift"
		default:
			shift = ",mixed-shift"
		}
	}
	return "[" + pos + "," + st + shift + "]"
}

// sigRel merges "same-region" and "partial" into "overlap" for signatures
// (a method that lacks a check misbehaves on both; same-region witnesses are
// rare and would make signatures depend on sampling).
func sigRel(r rel) string {
	if r == relSame || r == relPartial {
		return "overlap"
	}
	return r.String()
}

func (x *executor) add(key, _ string, _ severity, mk func() (string, any)) {
	f := x.found[key]
	if f == nil {
		f = &finding{}
		x.found[key] = f
		f.d, f.r = mk()
	}
	f.n++
}

var (
	foundMu  sync.Mutex
	foundAll = map[string]*finding{}
)

func (x *executor) flushFindings() {
	foundMu.Lock()
	for k, f := range x.found {
		if g := foundAll[k]; g == nil {
			foundAll[k] = f
		} else {
			g.n += f.n
		}
		delete(x.found, k)
	}
	foundMu.Unlock()
}

// emitFindings turns the aggregated witnesses into violations.
func emitFindings(c *vrt.Ctx) {
	keys := make([]string, 0, len(foundAll))
	for k := range foundAll {
		keys = append(keys, k)
	}
	sort.Strings(keys)
	for _, k := range keys {
		f := foundAll[k]
		c.Violation(k, f.d, f.r)
		for i := 1; i < f.n; i++ {
			c.Violation(k, "", nil)
		}
	}
}

// otherDesc lists the kinds of the private operands (evidence class key).
func (x *executor) otherDesc(cs *caseSpec) string {
	var parts []string
	for i := range cs.ops {
		if cs.ops[i].arr != 0 {
			parts = append(parts, cs.ops[i].k.String())
		}
	}
	sort.Strings(parts)
	return strings.Join(parts, ",")
}

// path is the code-path class that belongs in the signature: for vector
// receivers whether every increment is 1 (the unitary fast paths) or not.
func (x *executor) path(cs *caseSpec, rels []rel) string {
	if cs.recv.k != kVec {
		return ""
	}
	ident := false
	for _, r := range rels {
		if r == relIdent {
			ident = true
		}
	}
	if !ident {
		return ""
	}
	strided := cs.recv.w.st != 1
	for i := range cs.ops {
		if cs.ops[i].k.base() == kVec && cs.ops[i].w.st != 1 {
			strided = true
		}
	}
	if strided {
		return "strided|"
	}
	return "unit|"
}

func (x *executor) replayOf(cs *caseSpec, rels []rel, outcome string, p *pinfo, got, want []float64) replay {
	r := replay{Method: cs.m.name, Backing: cs.size, Alpha: cs.alpha, N: cs.n, Idx: cs.idx, Trans: cs.trans, Salt: cs.salt, Outcome: outcome, Got: got, Want: want}
	r.Recv = opReplay{Pos: "receiver", Kind: cs.recv.k.String(), Off: cs.recv.w.off, Rows: cs.recv.w.r, Cols: cs.recv.w.c, Stride: cs.recv.w.st, Array: "shared"}
	for i := range cs.ops {
		o := &cs.ops[i]
		or := opReplay{Pos: cs.m.pos[i], Kind: o.k.String(), Off: o.w.off, Rows: o.w.r, Cols: o.w.c, Stride: o.w.st, Array: "shared", IsRecv: o.same}
		if o.arr != 0 {
			or.Array = fmt.Sprintf("private%d", o.arr)
		}
		if rels != nil {
			or.Rel = rels[i].String()
		}
		r.Ops = append(r.Ops, or)
	}
	if p != nil {
		r.Panic = p.Msg
	}
	r.Note = "word (i,j) of a window = off + i*stride + j; arrays are filled with fillVal(salt, array, word); see c05/exec.go"
	return r
}
