package main

import (
	"strconv"
	"sync"
	"sync/atomic"

	"gonum.org/v1/gonum/verifx/vrt"
)

// universe describes one shared backing array and the windows enumerated in it.
type universe struct {
	size int
	R, C int   // matrix interpretation (rows x cols, stride C)
	wins []win // all rectangular windows, stride C
	// byShape[r][c] lists indices into wins.
	byShape [][][]int
	// vector windows inside the matrix backing: column views (inc=C) and row
	// views (inc=1) of the rectangular windows with one column / one row.
	vwins []win
	vbyN  [][]int

	mu    sync.Mutex
	cache map[opsKey][]opnd
}

func newUniverse(R, C int) *universe {
	u := &universe{size: R * C, R: R, C: C, wins: allWins(R, C)}
	u.byShape = make([][][]int, R+1)
	for r := range u.byShape {
		u.byShape[r] = make([][]int, C+1)
	}
	for i, w := range u.wins {
		u.byShape[w.r][w.c] = append(u.byShape[w.r][w.c], i)
	}
	n := R
	if C > n {
		n = C
	}
	u.vbyN = make([][]int, n+1)
	for _, w := range u.wins {
		if w.c == 1 {
			u.vbyN[w.r] = append(u.vbyN[w.r], len(u.vwins))
			u.vwins = append(u.vwins, win{off: w.off, r: w.r, c: 1, st: C})
		}
		if w.r == 1 && w.c > 1 {
			u.vbyN[w.c] = append(u.vbyN[w.c], len(u.vwins))
			u.vwins = append(u.vwins, win{off: w.off, r: w.c, c: 1, st: 1})
		}
	}
	return u
}

// emitter drives one executor for one outer work item.
type emitter struct {
	x     *executor
	c     *vrt.Ctx
	u     *universe
	salt  uint64
	rot   int
	thor  bool
	tick  uint64
	phase uint64
	rng   *vrt.Rand
}

// keep implements the quick tier's subsampling: it returns true for about
// one call in n (a hash of a per-emitter call counter and a seed-dependent
// phase). n <= 1, and every call in the thorough tier, keeps all.
func (e *emitter) keep(n int) bool {
	if n <= 1 || e.thor {
		return true
	}
	n *= quickScale
	e.tick++
	// hashed, so that nested keep calls are not correlated
	return splitmix(e.tick+e.phase)%uint64(n) == 0
}

// otherKinds returns the kinds a private operand of logical shape r x c may
// take, drawn from the candidate list cand, honouring shape restrictions.
func fits(k kind, r, c int) bool {
	switch k {
	case kVec, kBasicVec:
		return c == 1
	case kVecT:
		return r == 1
	case kSym, kBasicSym, kTriU, kTriL, kTriUT, kTriLT, kDiag:
		return r == c
	}
	return true
}

// pickOthers returns the kinds a private operand of logical shape r x c
// takes: all admissible ones, in both tiers (the set of kind combinations a
// finding was observed with is part of its signature, so it must not depend
// on the tier or the seed). The last argument is unused.
func (e *emitter) pickOthers(cand []kind, r, c, _ int) []kind {
	adm := make([]kind, 0, len(cand))
	for _, k := range cand {
		if fits(k, r, c) {
			adm = append(adm, k)
		}
	}
	return adm
}

func (e *emitter) run(m *method, recv opnd, ops []opnd, opt caseSpec) {
	cs := opt
	cs.m = m
	cs.recv = recv
	cs.ops = ops
	cs.size = e.u.size
	e.salt = splitmix(e.salt)
	cs.salt = e.salt
	cs.fac = e.x.fac
	if cs.alpha == 0 && !cs.zero {
		cs.alpha = 1.75
	}
	e.x.run(&cs)
	if m.errOp > 0 || m.toStyle {
		// error paths: the same case with an ill conditioned and with a
		// singular operand / factorization
		for _, vc := range []int{vcIll, vcSingular} {
			c2 := cs
			c2.vclass = vc
			e.x.run(&c2)
		}
	}
}

// sharedOp builds an operand of kind k over window w of the shared backing.
func (e *emitter) sh(k kind, w win) opnd { return shared(k, w, e.u.size) }

// family runs gen(e, i) for i in [0,n) in parallel.
func family(c *vrt.Ctx, u *universe, name string, n int, gen func(e *emitter, i int)) {
	c.LastCase("family " + name)
	var total atomic.Int64
	defer func() { c.Count("cases."+name, total.Load()) }()
	vrt.Parallel(n, func(i int) {
		c.LastCase("family " + name + " outer item " + strconv.Itoa(i) + " (a fatal error happened in this or a concurrently running item)")
		x := getExec(c)
		n0 := x.nCalls
		e := &emitter{x: x, c: c, u: u, thor: thorough(c), rng: c.RNG(name, i)}
		e.salt = e.rng.Uint64()
		e.phase = e.rng.Uint64() >> 8
		e.rot = i
		gen(e, i)
		total.Add(int64(x.nCalls - n0)) // before x goes back to the pool
		putExec(x)
	})
}

// opsCache memoises the shared-backing operands of a given kind and logical
// shape (their index sets are immutable, so they are shared read-only).
type opsKey struct {
	k    kind
	r, c int
}

func (u *universe) sharedOps(k kind, r, c int) []opnd {
	u.mu.Lock()
	defer u.mu.Unlock()
	if u.cache == nil {
		u.cache = make(map[opsKey][]opnd)
	}
	key := opsKey{k, r, c}
	if v, ok := u.cache[key]; ok {
		return v
	}
	var out []opnd
	add := func(idx []int, ws []win) {
		for _, i := range idx {
			out = append(out, shared(k, ws[i], u.size))
		}
	}
	switch k {
	case kDense, kRawWrap:
		if r <= u.R && c <= u.C {
			add(u.byShape[r][c], u.wins)
		}
	case kDenseT:
		if c <= u.R && r <= u.C {
			add(u.byShape[c][r], u.wins)
		}
	case kSym, kTriU, kTriL, kTriUT, kTriLT:
		if r == c && r <= u.R && r <= u.C {
			add(u.byShape[r][r], u.wins)
		}
	case kVec:
		if c == 1 && r < len(u.vbyN) {
			add(u.vbyN[r], u.vwins)
		}
	case kVecT:
		if r == 1 && c < len(u.vbyN) {
			add(u.vbyN[c], u.vwins)
		}
	}
	if out == nil {
		out = []opnd{}
	}
	u.cache[key] = out
	return out
}

// quickScale thins every sampled enumeration of the quick tier by a further
// constant factor (exhaustive layers are not affected).
const quickScale = 2

// slot describes a private operand position that ranges over several kinds.
type slot struct {
	idx   int    // operand index
	kinds []kind // kinds to enumerate (filtered by fits)
	r, c  int    // logical shape (vectors: r = length, c = 1)
	arr   int    // private array number
}

func vslot(idx, n, arr int) slot                      { return slot{idx, otherVec, n, 1, arr} }
func colslot(idx, n, arr int) slot                    { return slot{idx, []kind{kVec, kBasicVec}, n, 1, arr} }
func symslot(idx, n, arr int) slot                    { return slot{idx, otherSym, n, n, arr} }
func mslot(idx int, kinds []kind, r, c, arr int) slot { return slot{idx, kinds, r, c, arr} }

func privOf(k kind, r, c, arr int) opnd {
	if k == kVecT {
		return privateLogical(k, 1, r, arr)
	}
	return privateLogical(k, r, c, arr)
}

// cross runs m once for every combination of kinds of the given slots (the
// full cross product, in both tiers: which kind combinations a finding is
// observed with is part of its signature and must not depend on sampling).
func (e *emitter) cross(m *method, recv opnd, tmpl []opnd, opt caseSpec, slots ...slot) {
	if len(slots) == 0 {
		ops := append([]opnd(nil), tmpl...)
		e.run(m, recv, ops, opt)
		return
	}
	s := slots[0]
	for _, k := range s.kinds {
		if k != kVecT && !fits(k, s.r, s.c) {
			continue
		}
		tmpl[s.idx] = privOf(k, s.r, s.c, s.arr)
		e.cross(m, recv, tmpl, opt, slots[1:]...)
	}
}
