package main

import (
	"math"

	"gonum.org/v1/gonum/mat"
	"gonum.org/v1/gonum/verifx/ref"
	"gonum.org/v1/gonum/verifx/vrt"
)

func init() {
	ss := []slot{{name: "a", t: sSym}, {name: "b", t: sSym}}
	sq2 := []pattern{pat(true, "1,1", "1,1", "1,1"), pat(true, "a,a", "a,a", "a,a")}
	S := func(x *caseX, i int) mat.Symmetric { return x.obj[i].(mat.Symmetric) }
	V := func(x *caseX, i int) mat.Vector { return x.obj[i].(mat.Vector) }
	T := func(x *caseX, i int) mat.Triangular { return x.obj[i].(mat.Triangular) }

	addOp(&opSpec{name: "SymDense.AddSym", recv: rSym, slots: ss, pats: sq2,
		model: elementwise(func(a, b float64) float64 { return a + b }),
		call:  func(x *caseX) { x.rc.S.AddSym(S(x, 0), S(x, 1)); x.outM = x.rc.S }})
	s1 := []slot{{name: "a", t: sSym}}
	addOp(&opSpec{name: "SymDense.ScaleSym", recv: rSym, slots: s1, pats: squarePats,
		prm: func(g *vrt.Rand, x *caseX) bool { x.p.f = g.PickFloat(-2.5, 0.75, 3, -1, 0); return true },
		model: func(x *caseX) bool {
			w := ref.New(x.val[0].R, x.val[0].C)
			for i, v := range x.val[0].D {
				w.D[i] = x.p.f * v
			}
			x.want = w
			return true
		},
		call: func(x *caseX) { x.rc.S.ScaleSym(x.fS(), S(x, 0)); x.outM = x.rc.S }})
	addOp(&opSpec{name: "SymDense.CopySym", recv: rSym, slots: s1, inout: true,
		pats: []pattern{
			pat(true, "1,1", "1,1"),
			pat(true, "a,a", "a,a"),
			pat(true, "a,a", "b,b"),
			pat(false, "a,a", "b,b"),
		},
		model: func(x *caseX) bool {
			a := x.val[0]
			w := x.prev.Clone()
			n := min(a.R, w.R)
			for i := 0; i < n; i++ {
				for j := 0; j < n; j++ {
					w.D[i*w.C+j] = a.D[i*a.C+j]
				}
			}
			x.want = w
			x.wantS = []float64{float64(n)}
			return true
		},
		call: func(x *caseX) { n := x.rc.S.CopySym(S(x, 0)); x.outM = x.rc.S; x.outS = []float64{float64(n)} }})
	addOp(&opSpec{name: "SymDense.SubsetSym", recv: rSym, slots: s1,
		pats: []pattern{pat(true, "1,1", "1,1"), pat(true, "1,1", "a,a")},
		prm: func(g *vrt.Rand, x *caseX) bool {
			n := x.dims[0][0]
			m := 1 + g.Intn(n+2)
			x.p.set = make([]int, m)
			for i := range x.p.set {
				x.p.set[i] = g.Intn(n)
			}
			x.out = [2]int{m, m}
			return true
		},
		model: func(x *caseX) bool {
			a := x.val[0]
			m := len(x.p.set)
			x.want = ref.FromFunc(m, m, func(i, j int) float64 { return a.At(x.p.set[i], x.p.set[j]) })
			return true
		},
		call: func(x *caseX) { x.rc.S.SubsetSym(S(x, 0), x.p.set); x.outM = x.rc.S }})

	alphaPrm := func(g *vrt.Rand, x *caseX) bool { x.p.alpha = g.PickFloat(1, -1, 0.5, -2.25, 0); return true }
	addOp(&opSpec{name: "SymDense.SymRankOne", recv: rSym,
		slots: []slot{{name: "a", t: sSym}, {name: "x", t: sVector}},
		pats: []pattern{
			pat(true, "1,1", "1,1", "1,1"),
			pat(true, "a,a", "a,a", "a,1"),
			pat(true, "a,a", "a,a", "1,a"),
		},
		prm: alphaPrm,
		model: func(x *caseX) bool {
			a, xv := x.val[0], x.val[1].D
			n := a.R
			w, m := ref.New(n, n), ref.New(n, n)
			for i := 0; i < n; i++ {
				for j := 0; j < n; j++ {
					t := x.p.alpha * xv[i] * xv[j]
					w.D[i*n+j] = a.D[i*n+j] + t
					m.D[i*n+j] = math.Abs(a.D[i*n+j]) + math.Abs(t)
				}
			}
			x.want, x.mag, x.cu = w, m, 8
			return true
		},
		call: func(x *caseX) { x.rc.S.SymRankOne(S(x, 0), x.p.alpha, V(x, 1)); x.outM = x.rc.S }})
	addOp(&opSpec{name: "SymDense.RankTwo", recv: rSym,
		slots: []slot{{name: "a", t: sSym}, {name: "x", t: sVector}, {name: "y", t: sVector}},
		pats: []pattern{
			pat(true, "1,1", "1,1", "1,1", "1,1"),
			pat(true, "a,a", "a,a", "a,1", "a,1"),
			pat(true, "a,a", "a,a", "1,a", "a,1"),
		},
		prm: alphaPrm, sample: 4,
		model: func(x *caseX) bool {
			a, xv, yv := x.val[0], x.val[1].D, x.val[2].D
			n := a.R
			w, m := ref.New(n, n), ref.New(n, n)
			for i := 0; i < n; i++ {
				for j := 0; j < n; j++ {
					t1, t2 := x.p.alpha*xv[i]*yv[j], x.p.alpha*yv[i]*xv[j]
					w.D[i*n+j] = a.D[i*n+j] + (t1 + t2)
					m.D[i*n+j] = math.Abs(a.D[i*n+j]) + math.Abs(t1) + math.Abs(t2)
				}
			}
			x.want, x.mag, x.cu = w, m, 12
			return true
		},
		call: func(x *caseX) { x.rc.S.RankTwo(S(x, 0), x.p.alpha, V(x, 1), V(x, 2)); x.outM = x.rc.S }})
	rankK := func(x *caseX, withA bool) bool {
		var a, xm *ref.M
		if withA {
			a, xm = x.val[0], x.val[1]
		} else {
			xm = x.val[0]
		}
		n, k := xm.R, xm.C
		w, m := ref.New(n, n), ref.New(n, n)
		for i := 0; i < n; i++ {
			for j := 0; j < n; j++ {
				var s, sa float64
				for l := 0; l < k; l++ {
					t := xm.D[i*k+l] * xm.D[j*k+l]
					s += t
					sa += math.Abs(t)
				}
				w.D[i*n+j] = x.p.alpha * s
				m.D[i*n+j] = math.Abs(x.p.alpha) * sa
				if withA {
					w.D[i*n+j] += a.D[i*n+j]
					m.D[i*n+j] += math.Abs(a.D[i*n+j])
				}
			}
		}
		x.want, x.mag, x.cu = w, m, 2*float64(k+4)
		return true
	}
	addOp(&opSpec{name: "SymDense.SymRankK", recv: rSym,
		slots: []slot{{name: "a", t: sSym}, {name: "x", t: sMatrix}},
		pats: []pattern{
			pat(true, "1,1", "1,1", "1,1"),
			pat(true, "a,a", "a,a", "a,a"),
			pat(true, "a,a", "a,a", "a,b"),
			pat(false, "a,a", "a,a", "a,b"),
			pat(true, "a,a", "a,a", "a,1"),
			pat(true, "1,1", "1,1", "1,b"),
		},
		prm:   alphaPrm,
		model: func(x *caseX) bool { return rankK(x, true) },
		call:  func(x *caseX) { x.rc.S.SymRankK(S(x, 0), x.p.alpha, x.obj[1]); x.outM = x.rc.S }})
	addOp(&opSpec{name: "SymDense.SymOuterK", recv: rSym,
		slots: []slot{{name: "x", t: sMatrix}},
		pats: []pattern{
			pat(true, "1,1", "1,1"),
			pat(true, "a,a", "a,a"),
			pat(true, "a,a", "a,b"),
			pat(false, "a,a", "a,b"),
			pat(true, "a,a", "a,1"),
			pat(true, "1,1", "1,b"),
		},
		prm:   alphaPrm,
		model: func(x *caseX) bool { return rankK(x, false) },
		call:  func(x *caseX) { x.rc.S.SymOuterK(x.p.alpha, x.obj[0]); x.outM = x.rc.S }})
	addOp(&opSpec{name: "SymDense.PowPSD", recv: rSym, slots: []slot{{name: "a", t: sSym, fl: fSPD}}, pats: squarePats,
		prm: func(g *vrt.Rand, x *caseX) bool { x.p.f = g.PickFloat(0.5, 2, -1, 1, 0); return true },
		model: func(x *caseX) bool {
			a := x.val[0]
			n := a.R
			if n > 40 {
				return false
			}
			lam, q := ref.SymEig(a)
			if !(lam[0] > 0) || lam[n-1]/lam[0] > 1e6 {
				return false
			}
			w := ref.New(n, n)
			var big float64
			for k := 0; k < n; k++ {
				p := math.Pow(lam[k], x.p.f)
				big = math.Max(big, p)
				for i := 0; i < n; i++ {
					for j := 0; j < n; j++ {
						w.D[i*n+j] += p * q.D[i*n+k] * q.D[j*n+k]
					}
				}
			}
			x.want = w
			x.absTol = powPSDC * float64(n) * u * big * (lam[n-1] / lam[0])
			x.noErr = true
			return true
		},
		call: func(x *caseX) { x.err = x.rc.S.PowPSD(S(x, 0), x.p.f); x.outM = x.rc.S }})

	// ---- TriDense -----------------------------------------------------------
	t1 := []slot{{name: "a", t: sTri}}
	addOp(&opSpec{name: "TriDense.ScaleTri", recv: rTri, slots: t1, pats: squarePats, triFrom: 0,
		prm: func(g *vrt.Rand, x *caseX) bool { x.p.f = g.PickFloat(-2.5, 0.75, 3, -1, 0); return true },
		model: func(x *caseX) bool {
			w := ref.New(x.val[0].R, x.val[0].C)
			for i, v := range x.val[0].D {
				w.D[i] = x.p.f * v
			}
			x.want = w
			return true
		},
		call: func(x *caseX) { x.rc.T.ScaleTri(x.fS(), T(x, 0)); x.outM = x.rc.T }})
	addOp(&opSpec{name: "TriDense.InverseTri", recv: rTri, slots: []slot{{name: "a", t: sTri, fl: fDom}}, pats: squarePats, triFrom: 0,
		model: func(x *caseX) bool {
			a := x.val[0]
			kap := condBoundInf(a)
			if !(kap < 1e6) {
				return false
			}
			inv, ok := ref.Inverse(a)
			if !ok {
				return false
			}
			// The inverse of a triangular matrix is triangular: clear the
			// rounding noise of the dense reference outside the triangle.
			for i := 0; i < a.R; i++ {
				for j := 0; j < a.C; j++ {
					if (x.triUp && j < i) || (!x.triUp && j > i) {
						inv.D[i*a.C+j] = 0
					}
				}
			}
			x.want = inv
			x.absTol = invC * float64(a.R) * u * kap * inv.MaxAbs()
			x.noErr = true
			return true
		},
		call: func(x *caseX) { x.err = x.rc.T.InverseTri(T(x, 0)); x.outM = x.rc.T }})
	addOp(&opSpec{name: "TriDense.MulTri", recv: rTri, slots: []slot{{name: "a", t: sTri}, {name: "b", t: sTri}}, pats: sq2, triFrom: 0,
		// Documented: a and b must have the same TriKind.
		tupleFilter: func(ks []*kind) bool { return ks[0].triUpper == ks[1].triUpper },
		model:       mulModel,
		call:        func(x *caseX) { x.rc.T.MulTri(T(x, 0), T(x, 1)); x.outM = x.rc.T }})
	// TriDense.Copy: only the receiver's triangle is written; the receiver
	// orientation is part of the operation name, the source is any matrix of
	// any shape.
	for _, up := range []bool{true, false} {
		up := up
		nm := "TriDense.Copy(lower)"
		if up {
			nm = "TriDense.Copy(upper)"
		}
		addOp(&opSpec{name: nm, recv: rTri, slots: []slot{{name: "a", t: sMatrix}}, inout: true, triFrom: -1,
			pats: []pattern{
				pat(true, "1,1", "1,1"),
				pat(true, "a,a", "a,a"),
				pat(true, "a,a", "b,b"),
				pat(false, "a,a", "b,b"),
				pat(true, "a,a", "b,c"),
				pat(false, "a,a", "b,c"),
				pat(true, "b,b", "a,c"),
				pat(true, "b,b", "c,a"),
				pat(true, "a,a", "a,1"),
				pat(true, "a,a", "1,a"),
			},
			prm: func(g *vrt.Rand, x *caseX) bool { x.triUp = up; return true },
			model: func(x *caseX) bool {
				a := x.val[0]
				w := x.prev.Clone()
				n := w.R
				r, c := min(a.R, n), min(a.C, n)
				for i := 0; i < r; i++ {
					for j := 0; j < c; j++ {
						if (x.triUp && j >= i) || (!x.triUp && j <= i) {
							w.D[i*n+j] = a.D[i*a.C+j]
						}
					}
				}
				x.want = w
				x.wantS = []float64{float64(r), float64(c)}
				return true
			},
			call: func(x *caseX) {
				r, c := x.rc.T.Copy(x.obj[0])
				x.outM = x.rc.T
				x.outS = []float64{float64(r), float64(c)}
			}})
	}
}

const powPSDC = 2000.0 // SymDense.PowPSD: |err| <= powPSDC*n*u*max(lambda^p)*kappa
