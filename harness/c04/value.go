package main

import (
	"math"

	"gonum.org/v1/gonum/verifx/ref"
	"gonum.org/v1/gonum/verifx/vrt"
)

// cons is a structural constraint on a value: band limits, symmetry and a unit
// diagonal. Every structured mat type is expressible with it.
type cons struct {
	r, c   int
	kl, ku int  // element (i,j) may be non-zero iff -kl <= j-i <= ku
	sym    bool // value must be symmetric (implies r == c)
	unit   bool // diagonal is exactly 1
}

func fullCons(r, c int) cons { return cons{r: r, c: c, kl: max(r-1, 0), ku: max(c-1, 0)} }

func (a cons) and(b cons) cons {
	o := a
	o.kl = min(a.kl, b.kl)
	o.ku = min(a.ku, b.ku)
	o.sym = a.sym || b.sym
	o.unit = a.unit || b.unit
	if o.sym {
		k := min(o.kl, o.ku)
		o.kl, o.ku = k, k
	}
	return o
}

func (cs cons) allowed(i, j int) bool { d := j - i; return -cs.kl <= d && d <= cs.ku }

// flavor is a numerical requirement on a value.
type flavor int

const (
	fGen flavor = iota // generic finite values (some exact zeros and +-1)
	fDom               // strictly diagonally dominant by rows: non-singular, well conditioned
	fSPD               // symmetric, positive dominant diagonal: positive definite
	fNZ                // generic but without zeros inside the structure
)

func mergeFlavor(a, b flavor) flavor {
	if a == fSPD || b == fSPD {
		return fSPD
	}
	if a == fDom || b == fDom {
		return fDom
	}
	if a == fNZ || b == fNZ {
		return fNZ
	}
	return fGen
}

// genValue draws a value satisfying cs with the numerical flavour fl.
func genValue(g *vrt.Rand, cs cons, fl flavor) *ref.M {
	if fl == fSPD {
		cs.sym = true
		cs = cs.and(cs)
	}
	r, c := cs.r, cs.c
	v := ref.New(r, c)
	draw := func() float64 {
		if fl == fNZ || fl == fDom || fl == fSPD {
			x := g.Sym()
			if x == 0 {
				x = 0.5
			}
			if g.Intn(20) == 0 {
				x = math.Copysign(1, x)
			}
			return x
		}
		return g.SmallFinite()
	}
	for i := 0; i < r; i++ {
		for j := 0; j < c; j++ {
			if !cs.allowed(i, j) {
				continue
			}
			if cs.sym && j < i {
				v.D[i*c+j] = v.D[j*c+i]
				continue
			}
			v.D[i*c+j] = draw()
		}
	}
	n := min(r, c)
	switch fl {
	case fDom, fSPD:
		// Scale the off-diagonal part when the diagonal is fixed to 1, then
		// make every row (and, for rectangular shapes, every column of the
		// leading square) strictly dominated by the diagonal.
		if cs.unit {
			for i := 0; i < r; i++ {
				for j := 0; j < c; j++ {
					if i != j {
						v.D[i*c+j] *= 0.5 / float64(max(r, c))
					}
				}
			}
			for i := 0; i < n; i++ {
				v.D[i*c+i] = 1
			}
			break
		}
		for i := 0; i < n; i++ {
			var s float64
			for j := 0; j < c; j++ {
				if j != i {
					s += math.Abs(v.D[i*c+j])
				}
			}
			d := 1 + s + g.Float64()
			if fl == fDom && g.Bool() {
				d = -d
			}
			v.D[i*c+i] = d
		}
		if r != c {
			// Rectangular: also dominate by columns so that the matrix has
			// full rank with a moderate condition number.
			for i := 0; i < n; i++ {
				var s float64
				for k := 0; k < r; k++ {
					if k != i {
						s += math.Abs(v.D[k*c+i])
					}
				}
				if math.Abs(v.D[i*c+i]) < 1+s {
					v.D[i*c+i] = math.Copysign(1+s+g.Float64(), v.D[i*c+i])
				}
			}
		}
	default:
		if cs.unit {
			for i := 0; i < n; i++ {
				v.D[i*c+i] = 1
			}
		}
	}
	return v
}

// domGap returns min_i(|a_ii| - sum_{j != i}|a_ij|) for square a; a positive
// value bounds the infinity norm of the inverse by its reciprocal.
func domGap(a *ref.M) float64 {
	gap := math.Inf(1)
	for i := 0; i < a.R; i++ {
		var s float64
		for j := 0; j < a.C; j++ {
			if j != i {
				s += math.Abs(a.D[i*a.C+j])
			}
		}
		gap = math.Min(gap, math.Abs(a.D[i*a.C+i])-s)
	}
	return gap
}

// condBoundInf returns an upper bound of the infinity-norm condition number
// of a strictly row-diagonally-dominant matrix, +Inf if it is not dominant.
func condBoundInf(a *ref.M) float64 {
	gap := domGap(a)
	if !(gap > 0) {
		return math.Inf(1)
	}
	return a.NormInf() / gap
}

func absM(a *ref.M) *ref.M {
	o := ref.New(a.R, a.C)
	for i, x := range a.D {
		o.D[i] = math.Abs(x)
	}
	return o
}

func maxAbsFinite(a *ref.M) float64 {
	var mx float64
	for _, x := range a.D {
		if ax := math.Abs(x); ax > mx && !math.IsInf(ax, 0) {
			mx = ax
		}
	}
	return mx
}

// sameValue reports whether got and want agree exactly as values: equal (so
// +0 == -0), or both NaN.
func sameValue(got, want float64) bool {
	return got == want || (got != got && want != want)
}
