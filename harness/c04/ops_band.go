package main

import (
	"gonum.org/v1/gonum/mat"
	"gonum.org/v1/gonum/verifx/vrt"
)

// Operations whose method receiver is the (structured) system matrix and
// whose destination is an argument: MulVecTo, SolveTo, SolveVecTo. Slot 0 is
// the method receiver in its concrete representations (compact, strided,
// upper/lower); the destination plays the role of the result receiver.

func classIs(names ...string) func(k *kind) bool {
	return func(k *kind) bool {
		for _, n := range names {
			if k.class == n {
				return true
			}
		}
		return false
	}
}

func init() {
	transPrm := func(g *vrt.Rand, x *caseX) bool { x.p.trans = x.p.mode == 1; return true }
	V := func(x *caseX, i int) mat.Vector { return x.obj[i].(mat.Vector) }
	mulTransModel := func(x *caseX) bool {
		a, b := x.val[0], x.val[1]
		if x.p.trans {
			a = a.T()
		}
		bb := colOf(b.D)
		x.want = refMul(a, bb)
		x.mag = refMul(absM(a), absM(bb))
		x.cu = 2 * float64(a.C+2)
		return true
	}

	// BandDense.MulVecTo: general shapes; x has Len == cols (rows if trans).
	addOp(&opSpec{name: "BandDense.MulVecTo", recv: rVec,
		slots: []slot{{name: "m", t: sMatrix, filter: classIs("*mat.BandDense")}, {name: "x", t: sVector}},
		pats: []pattern{
			pat(true, "1,1", "1,1", "1,1"),
			pat(true, "a,1", "a,a", "a,1"),
			pat(true, "a,1", "a,a", "1,a"),
			pat(true, "a,1", "a,b", "b,1"), // not transposed
			pat(false, "a,1", "a,b", "b,1"),
			pat(true, "b,1", "a,b", "a,1"), // transposed
			pat(false, "b,1", "a,b", "a,1"),
		},
		prm: func(g *vrt.Rand, x *caseX) bool {
			r, c := x.dims[0][0], x.dims[0][1]
			n := x.dims[1][0] * x.dims[1][1]
			switch {
			case r == c:
				x.p.trans = x.p.mode == 1
			case n == c:
				x.p.trans = false
			default:
				x.p.trans = true
			}
			return true
		},
		modes: 2,
		model: mulTransModel,
		call: func(x *caseX) {
			x.obj[0].(*mat.BandDense).MulVecTo(x.rc.V, x.p.trans, V(x, 1))
			x.outM = x.rc.V
		}})
	sqv := []pattern{
		pat(true, "1,1", "1,1", "1,1"),
		pat(true, "a,1", "a,a", "a,1"),
		pat(true, "a,1", "a,a", "1,a"),
	}
	addOp(&opSpec{name: "SymBandDense.MulVecTo", recv: rVec,
		slots: []slot{{name: "m", t: sMatrix, filter: classIs("*mat.SymBandDense")}, {name: "x", t: sVector}},
		pats:  sqv, prm: transPrm, model: mulTransModel, modes: 2,
		call: func(x *caseX) {
			x.obj[0].(*mat.SymBandDense).MulVecTo(x.rc.V, x.p.trans, V(x, 1))
			x.outM = x.rc.V
		}})
	addOp(&opSpec{name: "Tridiag.MulVecTo", recv: rVec,
		slots: []slot{{name: "m", t: sMatrix, filter: classIs("*mat.Tridiag")}, {name: "x", t: sVector}},
		pats:  sqv, prm: transPrm, model: mulTransModel, modes: 2,
		call: func(x *caseX) {
			x.obj[0].(*mat.Tridiag).MulVecTo(x.rc.V, x.p.trans, V(x, 1))
			x.outM = x.rc.V
		}})

	// SolveTo: A X = B with B any n x k matrix.
	solvePats := []pattern{
		pat(true, "1,1", "1,1", "1,1"),
		pat(true, "a,a", "a,a", "a,a"),
		pat(true, "a,b", "a,a", "a,b"),
		pat(false, "a,b", "a,a", "a,b"),
		pat(true, "a,1", "a,a", "a,1"),
		pat(true, "1,b", "1,1", "1,b"),
	}
	solveVecPats := []pattern{
		pat(true, "1,1", "1,1", "1,1"),
		pat(true, "a,1", "a,a", "a,1"),
	}
	type solver interface {
		SolveTo(dst *mat.Dense, trans bool, b mat.Matrix) error
	}
	type vecSolver interface {
		SolveVecTo(dst *mat.VecDense, trans bool, b mat.Vector) error
	}
	for _, cls := range []string{"*mat.TriDense", "*mat.TriBandDense", "*mat.Tridiag"} {
		cls := cls
		addOp(&opSpec{name: cls[5:] + ".SolveTo", recv: rDense,
			slots: []slot{{name: "m", t: sMatrix, fl: fDom, filter: classIs(cls)}, {name: "b", t: sMatrix}},
			pats:  solvePats, prm: transPrm, model: solveModel, modes: 2,
			call: func(x *caseX) {
				x.err = x.obj[0].(solver).SolveTo(x.rc.D, x.p.trans, x.obj[1])
				x.outM = x.rc.D
			}})
		if cls == "*mat.TriDense" {
			continue
		}
		addOp(&opSpec{name: cls[5:] + ".SolveVecTo", recv: rVec,
			slots: []slot{{name: "m", t: sMatrix, fl: fDom, filter: classIs(cls)}, {name: "b", t: sColVector}},
			pats:  solveVecPats, prm: transPrm, model: solveModel, modes: 2,
			call: func(x *caseX) {
				x.err = x.obj[0].(vecSolver).SolveVecTo(x.rc.V, x.p.trans, V(x, 1))
				x.outM = x.rc.V
			}})
	}
}
