package main

import (
	"fmt"
	"math"
	"sort"
	"strings"
	"sync"

	"gonum.org/v1/gonum/mat"
	"gonum.org/v1/gonum/verifx/ref"
	"gonum.org/v1/gonum/verifx/vrt"
)

const u = vrt.Eps64

// slot types.
type slotT int

const (
	sMatrix    slotT = iota
	sVector          // mat.Vector of either orientation (Len/AtVec semantics)
	sColVector       // mat.Vector whose Dims are n x 1
	sSym             // mat.Symmetric
	sTri             // mat.Triangular
)

type slot struct {
	name   string
	t      slotT
	fl     flavor
	filter func(k *kind) bool // optional extra restriction on kinds
}

// pattern gives the dims of every slot and of the result in terms of size
// letters ("1" is the literal one; equal letters are equal sizes; different
// letters are different sizes >= 2). asc orders the letters' sizes
// alphabetically ascending, otherwise descending.
type pattern struct {
	in  []string // "m,n" per slot
	out string   // "m,n"; "" for scalar results
	asc bool
	// rej marks a pattern whose shapes are incompatible (operands among
	// themselves, or a sized receiver with the result): the documented
	// outcome is a panic, whatever the representations.
	rej bool
	// sizedOnly restricts a rej pattern to sized receivers (the mismatch
	// is between the receiver and the result).
	sizedOnly bool
}

// rej returns a rejection pattern.
func rejPat(sizedOnly bool, out string, in ...string) pattern {
	return pattern{in: in, out: out, asc: true, rej: true, sizedOnly: sizedOnly}
}

func pat(asc bool, out string, in ...string) pattern { return pattern{in: in, out: out, asc: asc} }

// params are the scalar arguments of a case.
type params struct {
	alpha, f, eps float64
	n, i, j       int
	norm          float64
	trans         bool
	set           []int
	mode          int
}

// caseX is one executed case.
type caseX struct {
	op    *opSpec
	pi    int // pattern index
	kinds []*kind
	dims  [][2]int
	out   [2]int
	cons  []cons
	ival  []*ref.M // intended values
	val   []*ref.M // values read back through Dims/At
	p     params
	seed  uint64
	mode  int
	vcls  int // value class (valueclass.go)
	// exponents of the H/T scaling: per slot, of alpha/f, of the result
	slotExp          []int
	alphaExp, outExp int
	state            int
	fin              bool // stale contents finite
	triUp            bool // orientation of a TriDense receiver

	// per run
	obj  []mat.Matrix
	rc   *receiver
	prev *ref.M // previous window contents of a sized receiver (nil if empty)

	// model output
	want   *ref.M
	mag    *ref.M  // companion for the band: |got-want| <= cu*u*mag (+absTol)
	cu     float64 // 0 = exact
	absTol float64 // normwise absolute band added to every element
	wantS  []float64
	tolS   []float64
	wantB  []bool
	noErr  bool                                   // the call returns an error that must be nil
	check  func(x *caseX) (clause, detail string) // optional extra check

	st     *stats
	calKey string // sub-class appended to the operation name in the calibration note

	// run output
	outM mat.Matrix
	outS []float64
	outB []bool
	err  error
}

type opSpec struct {
	name  string
	recv  recvT
	slots []slot
	pats  []pattern
	// prm draws the scalar parameters; it may veto the case by returning false.
	prm func(g *vrt.Rand, x *caseX) bool
	// fixup may adjust the intended values after generation (e.g. derive
	// operand 1 from operand 0); optional.
	fixup func(g *vrt.Rand, x *caseX)
	// model computes the expectation from x.val, x.p and x.prev. It may veto
	// the case (condition number outside the calibrated range).
	model func(x *caseX) bool
	call  func(x *caseX)
	inout bool // receiver must be sized and its previous contents matter
	// tupleFilter optionally rejects kind tuples (documented restrictions).
	tupleFilter func(ks []*kind) bool
	// sample thins the kind tuples in the quick tier: 1 in sample (0/1 = all);
	// sampleT does the same in the thorough tier.
	sample, sampleT int
	// common, when set, makes all slots share one generated value
	// (Equal/EqualApprox).
	common bool
	// modes > 1 runs every kind tuple once per mode (x.p.mode = 0..modes-1)
	// instead of drawing the discrete parameter at random, so that a failure
	// that only one mode exposes does not depend on the seed.
	modes int
	// noRej disables the shape-rejection patterns (operations documented to
	// accept any receiver shape).
	noRej bool
	// triFrom gives the slot whose orientation a TriDense receiver takes.
	triFrom int
}

var ops []*opSpec

func addOp(o *opSpec) { ops = append(ops, o) }

// ---------------------------------------------------------------------------

func slotAccepts(s slot, k *kind, r, c int) bool {
	if !k.can(r, c) {
		return false
	}
	switch s.t {
	case sVector:
		if !k.isVector {
			return false
		}
	case sColVector:
		if !k.isVector || c != 1 {
			return false
		}
		// A TransposeVec of length one has Dims 1 x 1 as well, fine.
	case sSym:
		if !k.isSym {
			return false
		}
	case sTri:
		if !k.isTri {
			return false
		}
	}
	if s.filter != nil && !s.filter(k) {
		return false
	}
	return true
}

// letterSizes assigns sizes to the letters of a pattern.
func letterSizes(p pattern, g *vrt.Rand, lo, hi int) map[byte]int {
	seen := map[byte]bool{}
	var letters []byte
	scan := func(s string) {
		for i := 0; i < len(s); i++ {
			ch := s[i]
			if ch >= 'a' && ch <= 'z' && !seen[ch] {
				seen[ch] = true
				letters = append(letters, ch)
			}
		}
	}
	for _, s := range p.in {
		scan(s)
	}
	scan(p.out)
	sort.Slice(letters, func(i, j int) bool { return letters[i] < letters[j] })
	// distinct sizes in [lo,hi]
	n := len(letters)
	if hi-lo+1 < n {
		hi = lo + n - 1
	}
	perm := g.Perm(hi - lo + 1)
	sizes := make([]int, n)
	for i := range sizes {
		sizes[i] = lo + perm[i]
	}
	sort.Ints(sizes)
	if !p.asc {
		for i, j := 0, n-1; i < j; i, j = i+1, j-1 {
			sizes[i], sizes[j] = sizes[j], sizes[i]
		}
	}
	m := map[byte]int{}
	for i, ch := range letters {
		m[ch] = sizes[i]
	}
	return m
}

func parseDims(s string, sz map[byte]int) [2]int {
	parts := strings.Split(s, ",")
	var d [2]int
	for i := 0; i < 2; i++ {
		t := strings.TrimSpace(parts[i])
		if t == "1" {
			d[i] = 1
		} else {
			d[i] = sz[t[0]]
		}
	}
	return d
}

// candidates returns, per slot, the kinds admissible for the pattern
// (evaluated on representative sizes: kind.can depends only on the class of
// the shape).
func candidates(o *opSpec, p pattern) [][]*kind {
	sz := letterSizes(p, vrt.NewRand(1), 2, 8)
	out := make([][]*kind, len(o.slots))
	for i, s := range o.slots {
		d := parseDims(p.in[i], sz)
		for _, k := range kinds {
			if slotAccepts(s, k, d[0], d[1]) {
				out[i] = append(out[i], k)
			}
		}
	}
	return out
}

// ---------------------------------------------------------------------------
// Failure records and attribution.

type failure struct {
	clause string
	detail string
}

// canonicalKind returns the plain kind of the same interface and shape.
func canonicalKind(s slot, k *kind, d [2]int) *kind {
	switch s.t {
	case sVector, sColVector:
		// Len/AtVec semantics: the orientation is immaterial.
		return kindByName["BasicVec"]
	case sSym:
		return kindByName["BasicSym"]
	case sTri:
		if k.triUpper {
			return kindByName["BasicTriU"]
		}
		return kindByName["BasicTriL"]
	}
	return kindByName["Basic"]
}

// canonState is the receiver state used as the plain reference receiver.
func canonState(o *opSpec) int {
	if o.inout {
		return stExact
	}
	return stZero
}

// altState is the receiver state a failing case is re-run with to see
// whether the failure depends on the receiver state: empty <-> sized; with
// operands that can make assembly kernels overrun the destination (slack)
// only guarded sized receivers are used.
func altState(o *opSpec, st int, slack bool) int {
	if o.inout || slack {
		if st == stExact {
			return stViewFin
		}
		return stExact
	}
	if sized(st) {
		return stZero
	}
	return stExact
}

// build constructs operands and receiver for one run. subst[i] replaces
// operand i by the canonical kind holding the same value; canonRecv replaces
// the receiver by the plain one.
func (x *caseX) build(subst []bool, canonRecv bool) {
	o := x.op
	x.obj = make([]mat.Matrix, len(o.slots))
	for i := range o.slots {
		g := vrt.NewRand(x.seed*0x9e3779b97f4a7c15 + uint64(i)*7919 + 13)
		b := &bctx{g: g, f: newFiller(g, (x.seed>>uint(i))&1 == 0)}
		if subst != nil && subst[i] {
			ck := canonicalKind(o.slots[i], x.kinds[i], x.dims[i])
			v := x.val[i]
			if ck.name == "BasicVec" {
				v = colOf(v.D)
			}
			x.obj[i] = ck.from(b, v, fullCons(v.R, v.C))
		} else {
			x.obj[i] = x.kinds[i].from(b, x.ival[i], x.cons[i])
		}
	}
	x.rc = nil
	x.prev = nil
	if o.recv != rNone {
		st := x.state
		if canonRecv {
			slack := false
			for _, k := range x.kinds {
				slack = slack || k.slack
			}
			st = altState(o, x.state, slack)
		}
		g := vrt.NewRand(x.seed*0xd1342543de82ef95 + 101)
		x.rc = newReceiver(g, o.recv, st, x.out[0], x.out[1], x.seed, x.fin || o.inout, x.triUp)
	}
}

// prevWindow returns the previous contents of a sized receiver as seen
// through At (nil for an empty receiver).
func (x *caseX) prevWindow() *ref.M {
	if x.rc == nil || !sized(x.rc.state) {
		return nil
	}
	return ref.FromAt(x.rc.matrix())
}

// runOnce executes the operation on the currently built objects and checks
// the outcome. It returns nil if everything agrees.
func (x *caseX) runOnce(c *vrt.Ctx) *failure {
	o := x.op
	x.outM, x.outS, x.outB, x.err = nil, nil, nil, nil
	p := vrt.TryFast(func() { o.call(x) })
	if o.pats[x.pi].rej {
		if p == nil {
			return &failure{"no-panic", "returned normally although the shapes are incompatible"}
		}
		if p.Runtime {
			return &failure{"panic", "incompatible shapes were not rejected but ran into a runtime error: " + p.Msg}
		}
		if x.rc != nil {
			if k := x.rc.outsideWrite(); k >= 0 {
				return &failure{"outside-write", fmt.Sprintf("backing element %d outside the receiver window changed before the shape panic", k)}
			}
		}
		return nil
	}
	if p != nil {
		msg := p.Msg
		if len(msg) > 200 {
			msg = msg[:200]
		}
		return &failure{"panic", "panicked: " + msg}
	}
	if x.noErr && x.err != nil {
		return &failure{"error", "returned error: " + x.err.Error()}
	}
	if x.want != nil {
		if x.outM == nil {
			return &failure{"shape", "no result matrix"}
		}
		r, cc := x.outM.Dims()
		if r != x.want.R || cc != x.want.C {
			return &failure{"shape", fmt.Sprintf("result is %dx%d, want %dx%d", r, cc, x.want.R, x.want.C)}
		}
		var got *ref.M
		if pp := vrt.TryFast(func() { got = ref.FromAt(x.outM) }); pp != nil {
			return &failure{"panic", "At on the result panicked: " + pp.Msg}
		}
		for i := 0; i < r; i++ {
			for j := 0; j < cc; j++ {
				gv, wv := got.D[i*cc+j], x.want.D[i*cc+j]
				if mat.VerifIsPoison(gv) {
					return &failure{"pool-poison", fmt.Sprintf("result[%d,%d] is the workspace poison NaN", i, j)}
				}
				ok := sameValue(gv, wv)
				if !ok && (x.cu > 0 || x.absTol > 0) && !math.IsNaN(gv) && !math.IsInf(gv, 0) && !math.IsNaN(wv) && !math.IsInf(wv, 0) {
					tol := x.absTol
					if x.mag != nil {
						tol += x.cu * u * x.mag.D[i*cc+j]
					}
					ok = math.Abs(gv-wv) <= tol
					if ok && tol > 0 && x.st != nil {
						x.st.ratio(x.op.name+x.calKey, math.Abs(gv-wv)/tol)
					}
				}
				if !ok {
					what := ""
					if vrt.IsTaint(gv) {
						what = " (a canary/stale NaN leaked into the result)"
					}
					return &failure{"wrong-value", fmt.Sprintf("result[%d,%d] = %v, want %v (band %.3g)%s", i, j, gv, wv, x.cu*u*magAt(x.mag, i*cc+j)+x.absTol, what)}
				}
			}
		}
	}
	if len(x.wantS) > 0 {
		if len(x.outS) != len(x.wantS) {
			return &failure{"shape", fmt.Sprintf("%d scalar results, want %d", len(x.outS), len(x.wantS))}
		}
		for i, wv := range x.wantS {
			gv := x.outS[i]
			if mat.VerifIsPoison(gv) {
				return &failure{"pool-poison", fmt.Sprintf("scalar result %d is the workspace poison NaN", i)}
			}
			ok := sameValue(gv, wv)
			if !ok && x.tolS != nil && x.tolS[i] > 0 && !math.IsNaN(gv) && !math.IsNaN(wv) && !math.IsInf(gv, 0) && !math.IsInf(wv, 0) {
				ok = math.Abs(gv-wv) <= x.tolS[i]
				if ok && x.st != nil {
					x.st.ratio(x.op.name+x.calKey, math.Abs(gv-wv)/x.tolS[i])
				}
			}
			if !ok {
				tol := 0.0
				if x.tolS != nil {
					tol = x.tolS[i]
				}
				return &failure{"wrong-value", fmt.Sprintf("scalar result %d = %v, want %v (band %.3g)", i, gv, wv, tol)}
			}
		}
	}
	if len(x.wantB) > 0 {
		if len(x.outB) != len(x.wantB) {
			return &failure{"shape", "bool result count"}
		}
		for i, wv := range x.wantB {
			if x.outB[i] != wv {
				return &failure{"wrong-value", fmt.Sprintf("boolean result %d = %v, want %v", i, x.outB[i], wv)}
			}
		}
	}
	if x.check != nil {
		if cl, det := x.check(x); cl != "" {
			return &failure{cl, det}
		}
	}
	if x.rc != nil {
		if k := x.rc.outsideWrite(); k >= 0 {
			return &failure{"outside-write", fmt.Sprintf("backing element %d outside the receiver window changed from %v to %v", k, x.rc.snap.at(k), x.rc.back[k])}
		}
	}
	return nil
}

func magAt(m *ref.M, i int) float64 {
	if m == nil {
		return 0
	}
	return m.D[i]
}

// attempt builds, models and runs; ok=false if the model vetoed.
func (x *caseX) attempt(c *vrt.Ctx, subst []bool, canonRecv bool) (f *failure, ok bool) {
	if p := vrt.Try(func() { x.build(subst, canonRecv) }); p != nil {
		// Construction of an operand failed inside gonum (Slice, Grow,
		// Factorize, ...): that is a finding about the constructor path.
		return &failure{"panic", "operand/receiver construction panicked: " + p.Msg}, true
	}
	x.prev = x.prevWindow()
	x.want, x.mag, x.cu, x.absTol = nil, nil, 0, 0
	x.wantS, x.tolS, x.wantB, x.check, x.noErr = nil, nil, nil, nil, false
	if !x.op.pats[x.pi].rej && !x.runModel() {
		return nil, false
	}
	return x.runOnce(c), true
}

type stats struct {
	evals      map[string]int
	skips      int
	large, rej int
	byState    [numStates]int
	byClass    [5]int
	calib      map[string]float64
}

func (st *stats) ratio(op string, r float64) {
	if st.calib == nil {
		st.calib = map[string]float64{}
	}
	if r > st.calib[op] {
		st.calib[op] = r
	}
}

var atCheckOnce sync.Map

// runCase executes one case, attributes a failure to a culprit and reports.
func runCase(c *vrt.Ctx, x *caseX, st *stats) {
	o := x.op
	x.st = st
	// Read operand values through Dims/At (the statement's notion of value)
	// from a first construction; also check At against the intended values
	// for representations that are exact.
	x.val = make([]*ref.M, len(o.slots))
	if p := vrt.Try(func() { x.build(nil, false) }); p != nil {
		c.Violation(fmt.Sprintf("construct|%s|panic", kindNames(x.kinds)), "operand construction panicked: "+p.Msg+"\n"+p.Stack, x.replay())
		return
	}
	for i, ob := range x.obj {
		var av *ref.M
		if p := vrt.TryFast(func() { av = ref.FromAt(ob) }); p != nil {
			c.Violation(fmt.Sprintf("At|%s|panic", x.kinds[i].name), "At/Dims panicked: "+p.Msg, x.replay())
			return
		}
		if av.R != x.dims[i][0] || av.C != x.dims[i][1] {
			c.Violation(fmt.Sprintf("At|%s|shape", x.kinds[i].name), fmt.Sprintf("Dims = %dx%d, built %dx%d", av.R, av.C, x.dims[i][0], x.dims[i][1]), x.replay())
			return
		}
		if cl, det := structureClaims(ob, av); cl != "" {
			c.Violation(fmt.Sprintf("At|%s|%s", x.kinds[i].name, cl), det, x.replay())
			return
		}
		if !x.kinds[i].approx {
			for k := range av.D {
				if !sameValue(av.D[k], x.ival[i].D[k]) {
					c.Violation(fmt.Sprintf("At|%s|value-mismatch", x.kinds[i].name),
						fmt.Sprintf("At(%d,%d) = %v, stored %v", k/av.C, k%av.C, av.D[k], x.ival[i].D[k]), x.replay())
					return
				}
			}
		} else {
			// Factorization objects reproduce the matrix to rounding only.
			tol := 1e-10 * (1 + maxAbsFinite(x.ival[i]))
			for k := range av.D {
				if !(math.Abs(av.D[k]-x.ival[i].D[k]) <= tol) {
					c.Violation(fmt.Sprintf("At|%s|value-mismatch", x.kinds[i].name),
						fmt.Sprintf("At(%d,%d) = %v, factorized matrix has %v", k/av.C, k%av.C, av.D[k], x.ival[i].D[k]), x.replay())
					return
				}
			}
		}
		if o.slots[i].t == sSym {
			// A Symmetric whose At is symmetric only to rounding (EigenSym)
			// has no single value for an operation that may read either
			// triangle: not a case for this oracle.
			for r := 0; r < av.R; r++ {
				for cc := r + 1; cc < av.C; cc++ {
					if !sameValue(av.D[r*av.C+cc], av.D[cc*av.C+r]) {
						st.skips++
						return
					}
				}
			}
		}
		x.val[i] = av
	}

	f, ok := x.attempt(c, nil, false)
	key := o.name + "|" + kindNames(x.kinds)
	if len(x.kinds) <= 2 {
		key += "|" + stateName[x.state]
	}
	if x.vcls != clsN {
		key += "|" + clsName[x.vcls]
	}
	if !ok {
		st.skips++
		return
	}
	st.evals[key]++
	if f == nil {
		if c.WantSample() && x.seed%97 == 0 {
			c.Sample(x.replay())
		}
		return
	}

	// Attribution by substitution: find the smallest change towards the
	// plain configuration (plain receiver, storage-hiding operand of the
	// same value) that removes this failure.
	ns := len(o.slots)
	same := func(g *failure) bool {
		return g != nil && g.clause == f.clause && (f.clause != "panic" || normMsg(g.detail) == normMsg(f.detail))
	}
	// outcome of a re-run: 2 = passes, 1 = fails differently, 0 = same failure
	rerun := func(sub []bool, alt bool) int {
		g, ok2 := x.attempt(c, sub, alt)
		switch {
		case !ok2:
			return 0
		case g == nil:
			return 2
		case !same(g):
			return 1
		}
		return 0
	}
	canSub := func(i int) bool {
		return o.slots[i].filter == nil && canonicalKind(o.slots[i], x.kinds[i], x.dims[i]) != x.kinds[i]
	}
	one := func(is ...int) []bool {
		sub := make([]bool, ns)
		for _, i := range is {
			sub[i] = true
		}
		return sub
	}
	slotName := func(i int) string { return o.slots[i].name + "=" + x.kinds[i].name }
	recvName := "recv=" + stateClass(x.state)
	var parts []string
	// Single factors: a genuine fix counts first; if there is none, a factor
	// whose replacement turns the failure into a different one (a second,
	// independent defect then shows) is held responsible for this one.
	single := make([]int, ns+1)
	if o.recv != rNone {
		single[ns] = rerun(nil, true)
	}
	for i := 0; i < ns; i++ {
		if canSub(i) {
			single[i] = rerun(one(i), false)
		}
	}
	for _, level := range []int{2, 1} {
		if single[ns] == level {
			parts = append(parts, recvName)
		}
		for i := 0; i < ns; i++ {
			if single[i] == level {
				parts = append(parts, slotName(i))
			}
		}
		if len(parts) > 0 {
			break
		}
	}
	if len(parts) == 0 {
	pairs:
		for i := 0; i < ns; i++ {
			if !canSub(i) {
				continue
			}
			if o.recv != rNone && rerun(one(i), true) == 2 {
				parts = []string{recvName, slotName(i)}
				break
			}
			for j := i + 1; j < ns; j++ {
				if canSub(j) && rerun(one(i, j), false) == 2 {
					parts = []string{slotName(i), slotName(j)}
					break pairs
				}
			}
		}
	}
	if len(parts) == 0 {
		var all []int
		for i := 0; i < ns; i++ {
			if canSub(i) {
				all = append(all, i)
			}
		}
		switch {
		case len(all) > 0 && rerun(one(all...), false) == 2:
			for _, i := range all {
				parts = append(parts, slotName(i))
			}
		case len(all) > 0 && o.recv != rNone && rerun(one(all...), true) == 2:
			parts = append(parts, recvName)
			for _, i := range all {
				parts = append(parts, slotName(i))
			}
		default:
			parts = []string{"any"}
		}
	}
	if x.vcls != clsN {
		// Is the value class part of the cause? Re-run the same tuple and
		// receiver with ordinary magnitudes.
		y := &caseX{op: o, pi: x.pi, kinds: x.kinds, state: x.state, mode: x.mode, seed: x.seed, fin: x.fin}
		if y.prepare(c, 2, 8) {
			y.val = make([]*ref.M, len(o.slots))
			okv := vrt.TryFast(func() {
				y.build(nil, false)
				for i, ob := range y.obj {
					y.val[i] = ref.FromAt(ob)
				}
			}) == nil
			if okv {
				if g, ok2 := y.attempt(c, nil, false); ok2 && g == nil {
					if len(parts) == 1 && parts[0] == "any" {
						// The plain representation fails for these values
						// too: name the kinds, so that a representation
						// that starts to fail is not hidden behind one
						// that already does.
						parts = nil
						for i := 0; i < ns; i++ {
							parts = append(parts, slotName(i))
						}
					}
					parts = append(parts, "values="+clsName[x.vcls])
				}
			}
		}
	}
	sig := o.name + "|" + strings.Join(parts, ",") + "|" + f.clause
	c.Violation(sig, f.detail+" ["+x.describe()+"]", x.replay())
}

// normMsg strips the run-dependent parts (numbers) of a panic message.
func normMsg(s string) string {
	if i := strings.Index(s, " ["); i >= 0 {
		s = s[:i]
	}
	// Every flavour of "index/slice out of range" (runtime, mat.Err*Access,
	// a user type's own bounds check) is one class: which of them fires
	// depends on whose At happens to be called with the bad index.
	if strings.Contains(s, "out of range") || strings.Contains(s, "out of bounds") {
		return "index out of range"
	}
	var sb strings.Builder
	for _, r := range s {
		if r >= '0' && r <= '9' {
			continue
		}
		sb.WriteRune(r)
	}
	return sb.String()
}

// structureClaims checks what an operand says about its own structure
// (Bandwidth, Triangle, SymmetricDim, SymBand, TriBand, Len) against the
// values it returns from At: every non-zero element must lie inside the
// claimed band/triangle, and the claimed dimensions must be the Dims.
func structureClaims(ob mat.Matrix, av *ref.M) (clause, detail string) {
	inBand := func(kl, ku int, what string) (string, string) {
		for i := 0; i < av.R; i++ {
			for j := 0; j < av.C; j++ {
				if av.D[i*av.C+j] != 0 && (j-i > ku || i-j > kl) {
					return "structure-claim", fmt.Sprintf("%s says kl=%d ku=%d but At(%d,%d) = %v", what, kl, ku, i, j, av.D[i*av.C+j])
				}
			}
		}
		return "", ""
	}
	if b, ok := ob.(mat.Banded); ok {
		kl, ku := b.Bandwidth()
		if cl, d := inBand(kl, ku, "Bandwidth"); cl != "" {
			return cl, d
		}
	}
	if t, ok := ob.(mat.Triangular); ok {
		n, kind := t.Triangle()
		if n != av.R || n != av.C {
			return "structure-claim", fmt.Sprintf("Triangle says n=%d, Dims are %dx%d", n, av.R, av.C)
		}
		kl, ku := av.R, 0
		if kind == mat.Upper {
			kl, ku = 0, av.C
		}
		if cl, d := inBand(kl, ku, "Triangle"); cl != "" {
			return cl, d
		}
	}
	if s, ok := ob.(mat.Symmetric); ok {
		if n := s.SymmetricDim(); n != av.R || n != av.C {
			return "structure-claim", fmt.Sprintf("SymmetricDim says %d, Dims are %dx%d", n, av.R, av.C)
		}
	}
	if s, ok := ob.(mat.SymBanded); ok {
		n, k := s.SymBand()
		if n != av.R {
			return "structure-claim", fmt.Sprintf("SymBand says n=%d, Dims are %dx%d", n, av.R, av.C)
		}
		if cl, d := inBand(k, k, "SymBand"); cl != "" {
			return cl, d
		}
	}
	if t, ok := ob.(mat.TriBanded); ok {
		n, k, kind := t.TriBand()
		if n != av.R {
			return "structure-claim", fmt.Sprintf("TriBand says n=%d, Dims are %dx%d", n, av.R, av.C)
		}
		kl, ku := k, 0
		if kind == mat.Upper {
			kl, ku = 0, k
		}
		if cl, d := inBand(kl, ku, "TriBand"); cl != "" {
			return cl, d
		}
	}
	if v, ok := ob.(mat.Vector); ok {
		if v.Len() != av.R*av.C {
			return "structure-claim", fmt.Sprintf("Len says %d, Dims are %dx%d", v.Len(), av.R, av.C)
		}
		for i := 0; i < v.Len(); i++ {
			if !sameValue(v.AtVec(i), av.D[i]) {
				return "structure-claim", fmt.Sprintf("AtVec(%d) = %v, At gives %v", i, v.AtVec(i), av.D[i])
			}
		}
	}
	return "", ""
}

func kindNames(ks []*kind) string {
	n := make([]string, len(ks))
	for i, k := range ks {
		n[i] = k.name
	}
	return strings.Join(n, ",")
}

func (x *caseX) describe() string {
	var sb strings.Builder
	fmt.Fprintf(&sb, "%s pattern %d recv=%s values=%s", x.op.name, x.pi, stateName[x.state], clsName[x.vcls])
	for i, k := range x.kinds {
		fmt.Fprintf(&sb, " %s=%s(%dx%d)", x.op.slots[i].name, k.name, x.dims[i][0], x.dims[i][1])
	}
	fmt.Fprintf(&sb, " seed=%d", x.seed)
	return sb.String()
}

func (x *caseX) replay() any {
	type operand struct {
		Slot, Kind string
		Rows, Cols int
		Values     []float64
	}
	type rep struct {
		Op       string
		Receiver string
		Operands []operand
		Params   params
		CaseSeed uint64
	}
	r := rep{Op: x.op.name, Receiver: stateName[x.state], Params: x.p, CaseSeed: x.seed}
	for i, k := range x.kinds {
		v := x.ival[i]
		if x.val != nil && x.val[i] != nil {
			v = x.val[i]
		}
		o := operand{Slot: x.op.slots[i].name, Kind: k.name, Rows: x.dims[i][0], Cols: x.dims[i][1]}
		if v != nil {
			o.Values = v.D
		}
		r.Operands = append(r.Operands, o)
	}
	return r
}

// ---------------------------------------------------------------------------
// Enumeration.

type workUnit struct {
	op     *opSpec
	pi     int
	cand   [][]*kind
	lo, hi int // tuple index range
	large  bool
	rep    int // repetition index (small tuple sets are run several times with different sizes)
}

func tupleCount(cand [][]*kind) int {
	n := 1
	for _, c := range cand {
		n *= len(c)
	}
	return n
}

func tupleAt(cand [][]*kind, idx int) []*kind {
	ks := make([]*kind, len(cand))
	for i := len(cand) - 1; i >= 0; i-- {
		ks[i] = cand[i][idx%len(cand[i])]
		idx /= len(cand[i])
	}
	return ks
}

func hash64(parts ...uint64) uint64 {
	var h uint64 = 0xcbf29ce484222325
	for _, p := range parts {
		h ^= p
		h *= 0x100000001b3
		h ^= h >> 29
		h *= 0xbf58476d1ce4e5b9
		h ^= h >> 32
	}
	return h
}

func strHash(s string) uint64 {
	var h uint64 = 0xcbf29ce484222325
	for i := 0; i < len(s); i++ {
		h ^= uint64(s[i])
		h *= 0x100000001b3
	}
	return h
}

// prepare fills dims, cons and intended values of a case; returns false if
// the tuple is not realisable (should not happen).
func (x *caseX) prepare(c *vrt.Ctx, lo, hi int) bool {
	o := x.op
	p := o.pats[x.pi]
	g := vrt.NewRand(x.seed)
	sz := letterSizes(p, g, lo, hi)
	x.dims = make([][2]int, len(o.slots))
	for i := range o.slots {
		x.dims[i] = parseDims(p.in[i], sz)
		if !x.kinds[i].can(x.dims[i][0], x.dims[i][1]) {
			return false
		}
	}
	if p.out != "" {
		x.out = parseDims(p.out, sz)
	}
	x.cons = make([]cons, len(o.slots))
	x.ival = make([]*ref.M, len(o.slots))
	for i := range o.slots {
		x.cons[i] = x.kinds[i].cons(g, x.dims[i][0], x.dims[i][1])
	}
	if o.common {
		cs := x.cons[0]
		fl := mergeFlavor(o.slots[0].fl, x.kinds[0].fl)
		for i := 1; i < len(o.slots); i++ {
			cs = cs.and(x.cons[i])
			fl = mergeFlavor(fl, mergeFlavor(o.slots[i].fl, x.kinds[i].fl))
		}
		if fl == fSPD {
			cs.sym = true
			cs = cs.and(cs)
		}
		v := genValue(g, cs, fl)
		for i := range o.slots {
			// each kind stores the common value under its own (wider) constraint
			x.ival[i] = v.Clone()
		}
	} else {
		for i := range o.slots {
			fl := mergeFlavor(o.slots[i].fl, x.kinds[i].fl)
			x.ival[i] = genValue(g, x.cons[i], fl)
		}
	}
	x.p = params{mode: x.mode}
	if o.recv == rTri && o.triFrom >= 0 {
		x.triUp = x.kinds[o.triFrom].triUpper
	}
	if o.prm != nil && !o.prm(g, x) {
		return false
	}
	if x.vcls != clsN && !x.applyClass(g) {
		return false
	}
	if o.fixup != nil {
		o.fixup(g, x)
	}
	return true
}

func statesFor(o *opSpec, thorough bool, h uint64) []int {
	if o.recv == rNone {
		return []int{stZero}
	}
	var all []int
	if o.inout {
		all = []int{stExact, stViewNaN, stViewFin}
	} else {
		all = []int{stZero, stResetBig, stResetSmall, stExact, stViewNaN, stViewFin}
	}
	if thorough {
		return all
	}
	// quick: two states per tuple, always one empty-ish and one sized where possible
	a := all[h%uint64(len(all))]
	b := all[(h/7+1+h%uint64(len(all)))%uint64(len(all))]
	if a == b {
		b = all[(h%uint64(len(all))+1)%uint64(len(all))]
	}
	return []int{a, b}
}
