// Command repro prints minimal reproducers of the gonum/mat defects reported
// by the C04 monitor. Run from /verif/harness: go run ./c04/tools/repro
package main

import (
	"fmt"
	"math"

	"gonum.org/v1/gonum/blas"
	"gonum.org/v1/gonum/blas/blas64"
	"gonum.org/v1/gonum/mat"
)

func try(name string, f func()) {
	defer func() {
		if r := recover(); r != nil {
			fmt.Printf("%-34s PANIC: %v\n", name, r)
		}
	}()
	f()
}

// lowerSym is a symmetric user type stored in the lower triangle.
type lowerSym struct{ raw blas64.Symmetric }

func (s lowerSym) Dims() (int, int) { return s.raw.N, s.raw.N }
func (s lowerSym) At(i, j int) float64 {
	if j > i {
		i, j = j, i
	}
	return s.raw.Data[i*s.raw.Stride+j]
}
func (s lowerSym) T() mat.Matrix                  { return s }
func (s lowerSym) SymmetricDim() int              { return s.raw.N }
func (s lowerSym) RawSymmetric() blas64.Symmetric { return s.raw }

// unitTri is an upper triangular user type with an implicit unit diagonal.
type unitTri struct{ raw blas64.Triangular }

func (t unitTri) Dims() (int, int) { return t.raw.N, t.raw.N }
func (t unitTri) At(i, j int) float64 {
	switch {
	case i == j:
		return 1
	case j > i:
		return t.raw.Data[i*t.raw.Stride+j]
	}
	return 0
}
func (t unitTri) T() mat.Matrix                    { return mat.Transpose{Matrix: t} }
func (t unitTri) Triangle() (int, mat.TriKind)     { return t.raw.N, mat.Upper }
func (t unitTri) TTri() mat.Triangular             { return mat.TransposeTri{Triangular: t} }
func (t unitTri) RawTriangular() blas64.Triangular { return t.raw }

func main() {
	nan := math.NaN()

	// 1. Dot with a TransposeVec.
	v := mat.NewVecDense(3, []float64{1, 2, 3})
	try("Dot(v.TVec(), v)", func() { fmt.Println("Dot(v.TVec(), v) =", mat.Dot(v.TVec(), v), "(want 14)") })

	// 2. RankTwo into an empty receiver.
	a := mat.NewSymDense(2, []float64{1, 2, 2, 3})
	x := mat.NewVecDense(2, []float64{1, 1})
	try("SymDense{}.RankTwo", func() { var s mat.SymDense; s.RankTwo(a, 1, x, x); fmt.Println("RankTwo ok", mat.Formatted(&s)) })

	// 3. VecDense.ScaleVec writes past the receiver when the operand's Data is longer than N.
	back := []float64{0, 0, 7, 7, 7, 7} // receiver is back[0:2:2]; back[2:] must stay 7
	var dst mat.VecDense
	dst.SetRawVector(blas64.Vector{N: 2, Inc: 1, Data: back[0:2:2]})
	var src mat.VecDense
	src.SetRawVector(blas64.Vector{N: 2, Inc: 1, Data: []float64{1, 2, 100, 200}})
	try("ScaleVec slack", func() {
		dst.ScaleVec(2, &src)
		fmt.Println("ScaleVec: memory after the 2-element receiver:", back[2:], "(want [7 7 7 7])")
	})
	try("MulElemVec slack", func() {
		var r mat.VecDense
		r.MulElemVec(&src, mat.NewVecDense(2, []float64{1, 1}))
		fmt.Println("MulElemVec ok", r.RawVector().Data)
	})
	try("MulVec slack", func() {
		var r mat.VecDense
		var ones mat.VecDense
		ones.SetRawVector(blas64.Vector{N: 2, Inc: 1, Data: []float64{1, 1, 1, 1}})
		r.MulVec(src.T(), &ones)
		fmt.Println("MulVec(srcT, [1 1]) =", r.AtVec(0), "(want 3)")
	})

	// 4. CloneFromVec into a column view clobbers the neighbouring columns.
	m := mat.NewDense(3, 3, []float64{1, 2, 3, 4, 5, 6, 7, 8, 9})
	col := m.ColView(0).(*mat.VecDense)
	col.CloneFromVec(mat.NewVecDense(3, []float64{-1, -2, -3}))
	fmt.Println("CloneFromVec into m.ColView(0): m =", m.RawMatrix().Data, "(columns 1,2 must be unchanged)")

	// 5. DiagFrom of a unit triangular into a strided diagonal.
	d := mat.NewDense(3, 3, []float64{5, 0, 0, 0, 5, 0, 0, 0, 5})
	dv := d.DiagView().(*mat.DiagDense)
	ut := unitTri{blas64.Triangular{N: 3, Stride: 3, Uplo: blas.Upper, Diag: blas.Unit, Data: []float64{nan, 2, 3, nan, nan, 4, nan, nan, nan}}}
	try("DiagFrom unit", func() {
		dv.DiagFrom(ut)
		fmt.Println("DiagFrom(unit tri) into DiagView: backing =", d.RawMatrix().Data, "(diagonal want 1 1 1)")
	})

	// 6. TriDense.Copy: non-square source, opposite triangle.
	try("TriDense.Copy 4x2", func() {
		t := mat.NewTriDense(4, mat.Upper, nil)
		t.Copy(mat.NewDense(4, 2, []float64{1, 2, 3, 4, 5, 6, 7, 8}))
		fmt.Println("TriDense(upper).Copy(4x2 Dense) ok")
	})
	try("TriDense.Copy 3x2 lower", func() {
		t := mat.NewTriDense(3, mat.Lower, []float64{9, 0, 0, 9, 9, 0, 9, 9, 9})
		t.Copy(mat.NewDense(3, 2, []float64{1, 2, 3, 4, 5, 6}))
		fmt.Println("TriDense(lower).Copy(3x2 Dense): t[2,2] =", t.At(2, 2), "(want 9)")
	})
	{
		t := mat.NewTriDense(2, mat.Upper, []float64{9, 9, 0, 9})
		t.Copy(mat.NewTriDense(2, mat.Lower, []float64{1, 0, 2, 3}))
		fmt.Println("TriDense(upper).Copy(lower tri): t[0,1] =", t.At(0, 1), "(want 0, the source element)")
	}

	// 7. Lower-stored symmetric user type.
	ls := lowerSym{blas64.Symmetric{N: 2, Stride: 2, Uplo: blas.Lower, Data: []float64{1, nan, 2, 3}}}
	try("Sum(lowerSym)", func() { fmt.Println("Sum(lower-stored sym) =", mat.Sum(ls), "(want 8)") })
	try("Max(lowerSym)", func() { fmt.Println("Max =", mat.Max(ls)) })
	try("Equal(lowerSym, SymDense)", func() {
		fmt.Println("Equal(ls, same values) =", mat.Equal(ls, mat.NewSymDense(2, []float64{1, 2, 2, 3})), "(want true)")
	})
	try("AddSym(lowerSym)", func() { var s mat.SymDense; s.AddSym(ls, a); fmt.Println("AddSym =", s.At(0, 1), "(want 4)") })
	try("CopySym(lowerSym)", func() { s := mat.NewSymDense(2, nil); s.CopySym(ls); fmt.Println("CopySym ok") })
	try("Inner(x, lowerSym, x)", func() { fmt.Println("Inner =", mat.Inner(x, ls, x), "(want 8)") })

	// 8. Unit-diagonal triangular user type.
	try("Sum(unitTri)", func() { fmt.Println("Sum(unit tri) =", mat.Sum(ut), "(want 12)") })
	try("Max(unitTri)", func() { fmt.Println("Max(unit tri) =", mat.Max(ut), "(want 4)") })
	try("ScaleTri(unitTri)", func() { var t mat.TriDense; t.ScaleTri(2, ut); fmt.Println("ScaleTri diag =", t.At(0, 0), "(want 2)") })
}
