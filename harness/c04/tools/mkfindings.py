#!/usr/bin/env python3
"""Build proposed_known_findings.json for C04 from monitor result files.

usage: mkfindings.py result.json [result.json ...] > proposed_known_findings.json

Every violation signature found in the result files (the union over seeds,
tiers and build variants) is assigned to a root cause by the rules below; a
signature that matches no rule makes the script fail, so that the list of
root causes stays complete.
"""
import json
import re
import sys

ROOT_CAUSES = {
    "generic-norm2-unscaled": {
        "where": "mat/matrix.go Norm, generic path (operands that are not Normers after untransposeExtract), case 2",
        "what": "The Frobenius norm of an operand without a Norm method (user Matrix/Vector/Symmetric/Triangular/Banded types, factorizations used as matrices, doubly wrapped transposes, lower-stored user symmetric types) is math.Sqrt of the plain sum of squares: it is +Inf when elements exceed about 1.3e154 and 0 when all are below about 1e-162, although the norm itself is representable. The same values in Dense, SymDense, TriDense, band types or VecDense go through lapack64.Lan*/blas64.Nrm2, which scale: mat.Norm(a, 2) depends on the representation.",
        "fix": "candidate-fixes.diff: accumulate a scaled sum of squares (scale, ssq) in the generic path; gonum's mat tests pass unedited and the monitor is silent with it.",
    },
    "raw-lower-symmetric": {
        "where": "mat/matrix.go Sum, Max, Min, Equal, EqualApprox; mat/inner.go Inner; mat/symmetric.go AddSym, CopySym (hence SymRankOne, RankTwo, SymRankK, PowPSD), ScaleSym, SubsetSym; mat/diagonal.go DiagFrom (RawSymBander)",
        "what": "Fast paths taken for any RawSymmetricer/RawSymBander read the upper triangle of the raw storage without looking at Uplo (silent garbage: Sum, Equal, EqualApprox, AddSym, ScaleSym, SubsetSym, DiagFrom) or panic 'mat: blas64.Symmetric not upper' (Max, Min, Inner, CopySym and its callers), although the same value behind a type without RawSymmetric is handled by the generic path and untransposeExtract deliberately declines to lift lower-stored types. The result depends on the representation of a symmetric operand.",
        "fix": "candidate-fixes.diff: hideUnsupportedRaw/rawUpperSymmetric helpers route lower-stored operands to the generic At path (mat/matrix.go, inner.go, symmetric.go, diagonal.go).",
    },
    "raw-unit-triangular": {
        "where": "mat/matrix.go Sum, Max, Min; mat/triangular.go ScaleTri, Copy (hence InverseTri); mat/diagonal.go DiagFrom (RawTriBander)",
        "what": "Fast paths for RawTriangular/RawTriBander read the stored diagonal of a matrix whose Diag is blas.Unit (the diagonal is implicit and the storage holds arbitrary data), so the result differs from the At-level value; untransposeExtract declines to lift such types but these paths assert the Raw interface directly.",
        "fix": "candidate-fixes.diff: unit-diagonal operands are routed to the generic path (hideUnsupportedRaw), DiagFrom writes ones.",
    },
    "dot-transposevec": {
        "where": "mat/matrix.go Dot",
        "what": "The generic loop reads a.At(i, 0)/b.At(i, 0); for a row-oriented Vector (TransposeVec, documented to implement Vector) that is At(0, i) transposed and panics with a column index error for every length > 1. Dot is documented to depend on Len only.",
        "fix": "use AtVec(i) in the generic loop (one line).",
    },
    "ranktwo-empty-receiver": {
        "where": "mat/symmetric.go (*SymDense).RankTwo",
        "what": "n is taken from the receiver (s.mat.N) before the receiver is sized, so an empty receiver (zero value or Reset) panics with ErrShape for every input, unlike every other SymDense method; a sized receiver works.",
        "fix": "n := a.SymmetricDim() (one line).",
    },
    "tridense-copy": {
        "where": "mat/triangular.go (*TriDense).Copy",
        "what": "Copy is documented like the built-in copy for any source shape. (1) For a source with fewer columns than rows the RawMatrixer arms slice past the row end (panic, or silent copy of the next row / of storage outside a view) and the generic lower arm calls At with j >= cols (panic); (2) for a RawTriangular source of the opposite orientation only the diagonal is written, so the receiver's off-diagonal triangle keeps its stale contents instead of the source's zeros (the generic path writes the zeros).",
        "fix": "candidate-fixes.diff: bound the row segments by the copied column count, zero the receiver's triangle in the mixed-orientation arm.",
    },
    "unit-inc-kernels-trust-len": {
        "where": "mat/vector.go ScaleVec, AddVec, SubVec, AddScaledVec, MulElemVec, DivElemVec, MulVec",
        "what": "The unit-increment fast paths hand whole Data slices to kernels that take their trip count from len(x) (f64.ScalUnitaryTo, f64.DotUnitary, range loops, and f64.AxpyUnitaryTo in the pure-Go build). blas64.Vector does not require len(Data) == N, so an operand obtained through SetRawVector/RawVectorer with a longer Data slice makes ScaleVec (and MulVec through it) write past the end of the destination in the assembly build (memory corruption), MulVec's dot product read past N, and the other methods panic with an index error; the strided path and the generic path handle the same values correctly.",
        "fix": "candidate-fixes.diff: slice the operands to [:n] at the unit-increment call sites.",
    },
    "clonefromvec-view": {
        "where": "mat/vector.go (*VecDense).CloneFromVec",
        "what": "The receiver's Data is reused with Inc reset to 1; when the receiver is a strided view (ColView, SliceVec of one) the elements between the view's own elements belong to the parent matrix and are overwritten. Dense.CloneFrom allocates; the method documentation promises only that the receiver's previous value is overwritten.",
        "fix": "candidate-fixes.diff: do not reuse the backing of a receiver with Inc > 1.",
    },
    "diagfrom-unit-stride": {
        "where": "mat/diagonal.go (*DiagDense).DiagFrom, RawTriangular Unit arm",
        "what": "for i := 0; i < n; i += d.mat.Inc { d.mat.Data[i] = 1 } uses the increment as loop step instead of as index factor: with a strided receiver (DiagView of a Dense) only element 0 (and wrong later ones) is set.",
        "fix": "for i := 0; i < n; i++ { d.mat.Data[i*d.mat.Inc] = 1 }.",
    },
}

RULES = [
    (r"^Norm\|a=[^|,]*,values=(huge|tiny)\|wrong-value$", "generic-norm2-unscaled"),
    (r"^VecDense\.CloneFromVec\|recv=view\|outside-write$", "clonefromvec-view"),
    (r"^DiagDense\.DiagFrom\|recv=view,m=(T\(|TTri\()?UserUnitTri[UL]\)?\|", "diagfrom-unit-stride"),
    (r"^SymDense\.RankTwo\|recv=(zero|reset-big|reset-small)\|panic$", "ranktwo-empty-receiver"),
    (r"^Dot\|.*TVec\(", "dot-transposevec"),
    (r"slack1|UserVecSlack", "unit-inc-kernels-trust-len"),
    (r"UserSymL|UserSymBandL", "raw-lower-symmetric"),
    (r"UserUnitTri", "raw-unit-triangular"),
    (r"^TriDense\.Copy\((upper|lower)\)\|", "tridense-copy"),
]

CLAUSE = {
    "panic": "panics",
    "wrong-value": "returns a value different from the element-wise definition",
    "outside-write": "changes storage outside the receiver's window",
    "shape": "returns a result of the wrong shape",
    "error": "returns an error on a well-conditioned input",
    "pool-poison": "returns workspace poison",
    "no-panic": "accepts incompatible shapes",
}


def main():
    sigs = {}
    for path in sys.argv[1:]:
        r = json.load(open(path))
        for v in r.get("violations") or []:
            sigs.setdefault(v["sig"], v["detail"])
    entries = []
    for sig in sorted(sigs):
        for pat, rc in RULES:
            if re.search(pat, sig):
                break
        else:
            sys.exit("no root cause rule for signature: %s :: %s" % (sig, sigs[sig][:200]))
        op, culprit, clause = sig.split("|")
        desc = "%s %s when %s" % (op, CLAUSE.get(clause, clause), culprit.replace(",", " and "))
        entries.append({"signature": sig, "description": desc, "root_cause": rc})
    used = sorted(set(e["root_cause"] for e in entries))
    out = {
        "property": "C04",
        "entries": entries,
        "root_causes": {k: ROOT_CAUSES[k] for k in used},
    }
    json.dump(out, sys.stdout, indent=1)
    sys.stdout.write("\n")
    sys.stderr.write("%d signatures, %d root causes\n" % (len(entries), len(used)))


if __name__ == "__main__":
    main()
