package main

// User-defined matrix types. Their At/Dims are written from the dense value
// they were built from (never from the raw storage they also expose), so the
// harness' notion of the operand value is independent of the storage layout
// that gonum reads through the Raw* methods.

import (
	"gonum.org/v1/gonum/blas"
	"gonum.org/v1/gonum/blas/blas64"
	"gonum.org/v1/gonum/lapack/lapack64"
	"gonum.org/v1/gonum/mat"
	"gonum.org/v1/gonum/verifx/ref"
)

// valM is the common part: a dense value with Dims/At.
type valM struct{ v *ref.M }

func (m valM) Dims() (int, int) { return m.v.R, m.v.C }
func (m valM) At(i, j int) float64 {
	if uint(i) >= uint(m.v.R) || uint(j) >= uint(m.v.C) {
		panic("c04: user type index out of range")
	}
	return m.v.D[i*m.v.C+j]
}

// (a) only Matrix.
type basicM struct{ valM }

func (m *basicM) T() mat.Matrix { return mat.Transpose{Matrix: m} }

// (b) Matrix + RawMatrixer.
type rawM struct {
	valM
	raw blas64.General
}

func (m *rawM) T() mat.Matrix             { return mat.Transpose{Matrix: m} }
func (m *rawM) RawMatrix() blas64.General { return m.raw }

// Symmetric only.
type basicSym struct{ valM }

func (m *basicSym) T() mat.Matrix     { return m }
func (m *basicSym) SymmetricDim() int { return m.v.R }

// (c) Symmetric + RawSymmetricer (upper or lower stored).
type rawSym struct {
	valM
	raw blas64.Symmetric
}

func (m *rawSym) T() mat.Matrix                  { return m }
func (m *rawSym) SymmetricDim() int              { return m.v.R }
func (m *rawSym) RawSymmetric() blas64.Symmetric { return m.raw }

// Triangular only.
type basicTri struct {
	valM
	upper bool
}

func (m *basicTri) T() mat.Matrix                { return mat.Transpose{Matrix: m} }
func (m *basicTri) Triangle() (int, mat.TriKind) { return m.v.R, mat.TriKind(m.upper) }
func (m *basicTri) TTri() mat.Triangular         { return mat.TransposeTri{Triangular: m} }

// (d) Triangular + RawTriangular (unit or non-unit diagonal).
type rawTri struct {
	valM
	raw blas64.Triangular
}

func (m *rawTri) T() mat.Matrix { return mat.Transpose{Matrix: m} }
func (m *rawTri) Triangle() (int, mat.TriKind) {
	return m.v.R, mat.TriKind(m.raw.Uplo == blas.Upper)
}
func (m *rawTri) TTri() mat.Triangular             { return mat.TransposeTri{Triangular: m} }
func (m *rawTri) RawTriangular() blas64.Triangular { return m.raw }

// (e) Banded + RawBander.
type rawBand struct {
	valM
	raw blas64.Band
}

func (m *rawBand) T() mat.Matrix         { return mat.Transpose{Matrix: m} }
func (m *rawBand) Bandwidth() (int, int) { return m.raw.KL, m.raw.KU }
func (m *rawBand) TBand() mat.Banded     { return mat.TransposeBand{Banded: m} }
func (m *rawBand) RawBand() blas64.Band  { return m.raw }

// Banded only (no raw access).
type basicBand struct {
	valM
	kl, ku int
}

func (m *basicBand) T() mat.Matrix         { return mat.Transpose{Matrix: m} }
func (m *basicBand) Bandwidth() (int, int) { return m.kl, m.ku }
func (m *basicBand) TBand() mat.Banded     { return mat.TransposeBand{Banded: m} }

// SymBanded + RawSymBander (upper or lower stored).
type rawSymBand struct {
	valM
	raw blas64.SymmetricBand
}

func (m *rawSymBand) T() mat.Matrix                    { return m }
func (m *rawSymBand) Bandwidth() (int, int)            { return m.raw.K, m.raw.K }
func (m *rawSymBand) TBand() mat.Banded                { return m }
func (m *rawSymBand) SymmetricDim() int                { return m.raw.N }
func (m *rawSymBand) SymBand() (int, int)              { return m.raw.N, m.raw.K }
func (m *rawSymBand) RawSymBand() blas64.SymmetricBand { return m.raw }

// TriBanded + RawTriBander (unit or non-unit).
type rawTriBand struct {
	valM
	raw blas64.TriangularBand
}

func (m *rawTriBand) upper() bool   { return m.raw.Uplo == blas.Upper }
func (m *rawTriBand) T() mat.Matrix { return mat.Transpose{Matrix: m} }
func (m *rawTriBand) Bandwidth() (int, int) {
	if m.upper() {
		return 0, m.raw.K
	}
	return m.raw.K, 0
}
func (m *rawTriBand) TBand() mat.Banded            { return mat.TransposeBand{Banded: m} }
func (m *rawTriBand) Triangle() (int, mat.TriKind) { return m.raw.N, mat.TriKind(m.upper()) }
func (m *rawTriBand) TTri() mat.Triangular         { return mat.TransposeTri{Triangular: m} }
func (m *rawTriBand) TriBand() (int, int, mat.TriKind) {
	return m.raw.N, m.raw.K, mat.TriKind(m.upper())
}
func (m *rawTriBand) TTriBand() mat.TriBanded           { return mat.TransposeTriBand{TriBanded: m} }
func (m *rawTriBand) RawTriBand() blas64.TriangularBand { return m.raw }

// Matrix + RawTridiagonaler.
type rawTridiag struct {
	valM
	raw lapack64.Tridiagonal
}

func (m *rawTridiag) T() mat.Matrix                        { return mat.Transpose{Matrix: m} }
func (m *rawTridiag) RawTridiagonal() lapack64.Tridiagonal { return m.raw }

// (f) Vector only. The value is n x 1.
type basicVec struct{ valM }

func (m *basicVec) T() mat.Matrix { return mat.Transpose{Matrix: m} }
func (m *basicVec) AtVec(i int) float64 {
	if uint(i) >= uint(m.v.R) {
		panic("c04: user vector index out of range")
	}
	return m.v.D[i]
}
func (m *basicVec) Len() int { return m.v.R }

// Vector + RawVectorer.
type rawVec struct {
	basicVec
	raw blas64.Vector
}

func (m *rawVec) T() mat.Matrix            { return mat.Transpose{Matrix: m} }
func (m *rawVec) RawVector() blas64.Vector { return m.raw }

// Complex user types.
type cval struct {
	r, c int
	d    []complex128
}

func (m *cval) Dims() (int, int) { return m.r, m.c }
func (m *cval) At(i, j int) complex128 {
	if uint(i) >= uint(m.r) || uint(j) >= uint(m.c) {
		panic("c04: user complex type index out of range")
	}
	return m.d[i*m.c+j]
}

type basicC struct{ *cval }

func (m basicC) H() mat.CMatrix { return mat.ConjTranspose{CMatrix: m} }
func (m basicC) T() mat.CMatrix { return mat.CTranspose{CMatrix: m} }
