package main

import (
	"math"

	"gonum.org/v1/gonum/mat"
	"gonum.org/v1/gonum/verifx/ref"
	"gonum.org/v1/gonum/verifx/vrt"
)

// Shape patterns shared by the element-wise binary operations: both operands
// r x c.
var sameShapePats = []pattern{
	pat(true, "1,1", "1,1", "1,1"),
	pat(true, "a,a", "a,a", "a,a"),
	pat(true, "a,1", "a,1", "a,1"),
	pat(true, "1,a", "1,a", "1,a"),
	pat(true, "a,b", "a,b", "a,b"),
	pat(false, "a,b", "a,b", "a,b"),
	rejPat(false, "a,b", "a,b", "a,c"),
	rejPat(false, "a,b", "a,b", "c,b"),
	rejPat(false, "a,b", "a,b", "b,a"),
	rejPat(false, "a,1", "a,1", "1,a"),
	rejPat(false, "a,1", "a,1", "b,1"),
	rejPat(false, "1,a", "1,a", "1,b"),
	rejPat(false, "1,1", "1,1", "a,1"),
	rejPat(true, "a,c", "a,b", "a,b"),
	rejPat(true, "b,a", "a,b", "a,b"),
}

var unaryPats = []pattern{
	pat(true, "1,1", "1,1"),
	pat(true, "a,a", "a,a"),
	pat(true, "a,1", "a,1"),
	pat(true, "1,a", "1,a"),
	pat(true, "a,b", "a,b"),
	pat(false, "a,b", "a,b"),
	rejPat(true, "a,c", "a,b"),
	rejPat(true, "b,a", "a,b"),
}

var squarePats = []pattern{
	pat(true, "1,1", "1,1"),
	pat(true, "a,a", "a,a"),
	rejPat(false, "a,b", "a,b"), // not square
	rejPat(false, "b,a", "b,a"),
	rejPat(true, "b,b", "a,a"), // receiver of another size
}

func elementwise(f func(a, b float64) float64) func(x *caseX) bool {
	return func(x *caseX) bool {
		a, b := x.val[0], x.val[1]
		w := ref.New(a.R, a.C)
		for i := range w.D {
			w.D[i] = f(a.D[i], b.D[i])
		}
		x.want = w
		return true
	}
}

func mulModel(x *caseX) bool {
	a, b := x.val[0], x.val[1]
	x.want = refMul(a, b)
	x.mag = ref.MulAbs(a, b)
	x.cu = 2 * float64(a.C+2)
	return true
}

// refMul is the plain triple loop (no zero skipping).
func refMul(a, b *ref.M) *ref.M {
	c := ref.New(a.R, b.C)
	for i := 0; i < a.R; i++ {
		for k := 0; k < a.C; k++ {
			aik := a.D[i*a.C+k]
			for j := 0; j < b.C; j++ {
				c.D[i*c.C+j] += aik * b.D[k*b.C+j]
			}
		}
	}
	return c
}

func applyFn(i, j int, v float64) float64 { return 1.5*v + float64(i) - 2*float64(j) }

func eye(n int) *ref.M { return ref.Eye(n) }

func init() {
	mm := []slot{{name: "a", t: sMatrix}, {name: "b", t: sMatrix}}

	addOp(&opSpec{name: "Dense.Add", recv: rDense, slots: mm, pats: sameShapePats,
		model: elementwise(func(a, b float64) float64 { return a + b }),
		call:  func(x *caseX) { x.rc.D.Add(x.obj[0], x.obj[1]); x.outM = x.rc.D }})
	addOp(&opSpec{name: "Dense.Sub", recv: rDense, slots: mm, pats: sameShapePats,
		model: elementwise(func(a, b float64) float64 { return a - b }),
		call:  func(x *caseX) { x.rc.D.Sub(x.obj[0], x.obj[1]); x.outM = x.rc.D }})
	addOp(&opSpec{name: "Dense.MulElem", recv: rDense, slots: mm, pats: sameShapePats,
		model: elementwise(func(a, b float64) float64 { return a * b }),
		call:  func(x *caseX) { x.rc.D.MulElem(x.obj[0], x.obj[1]); x.outM = x.rc.D }})
	addOp(&opSpec{name: "Dense.DivElem", recv: rDense, slots: mm, pats: sameShapePats,
		model: elementwise(func(a, b float64) float64 { return a / b }),
		call:  func(x *caseX) { x.rc.D.DivElem(x.obj[0], x.obj[1]); x.outM = x.rc.D }})

	mulPats := []pattern{
		pat(true, "1,1", "1,1", "1,1"),
		pat(true, "a,a", "a,a", "a,a"),
		pat(true, "a,c", "a,b", "b,c"),
		pat(false, "a,c", "a,b", "b,c"),
		pat(true, "a,1", "a,b", "b,1"),
		pat(false, "a,1", "a,b", "b,1"),
		pat(true, "a,1", "a,a", "a,1"),
		pat(true, "1,c", "1,b", "b,c"),
		pat(false, "1,c", "1,b", "b,c"),
		pat(true, "1,a", "1,a", "a,a"),
		pat(true, "a,c", "a,1", "1,c"),
		pat(true, "a,a", "a,1", "1,a"),
		pat(true, "1,1", "1,b", "b,1"),
		pat(true, "a,b", "a,a", "a,b"),
		pat(false, "a,b", "a,a", "a,b"),
		pat(true, "a,b", "a,b", "b,b"),
		pat(false, "a,b", "a,b", "b,b"),
		rejPat(false, "a,d", "a,b", "c,d"),
		rejPat(false, "a,a", "a,b", "a,b"),
		rejPat(false, "a,1", "a,b", "1,b"),
		rejPat(false, "a,d", "a,1", "c,d"),
		rejPat(false, "1,d", "1,b", "c,d"),
		rejPat(false, "a,1", "a,b", "c,1"),
		rejPat(false, "1,1", "1,b", "c,1"),
		rejPat(false, "a,a", "a,1", "a,1"),
		rejPat(true, "a,d", "a,b", "b,c"),
		rejPat(true, "c,a", "a,b", "b,c"),
	}
	addOp(&opSpec{name: "Dense.Mul", recv: rDense, slots: mm, pats: mulPats, model: mulModel,
		call: func(x *caseX) { x.rc.D.Mul(x.obj[0], x.obj[1]); x.outM = x.rc.D }})

	// Product with 1..4 factors; the number of factors is the slot count.
	prodModel := func(x *caseX) bool {
		w := x.val[0].Clone()
		m := absM(x.val[0])
		k := 0
		for i := 1; i < len(x.val); i++ {
			k += x.val[i].R
			w = refMul(w, x.val[i])
			m = refMul(m, absM(x.val[i]))
		}
		x.want, x.mag, x.cu = w, m, 2*float64(k+2*len(x.val))
		return true
	}
	prodCall := func(x *caseX) { x.rc.D.Product(x.obj...); x.outM = x.rc.D }
	addOp(&opSpec{name: "Dense.Product1", recv: rDense, slots: []slot{{name: "f0", t: sMatrix}},
		pats: unaryPats, model: prodModel, call: prodCall})
	addOp(&opSpec{name: "Dense.Product3", recv: rDense, sample: 16, sampleT: 6,
		slots: []slot{{name: "f0", t: sMatrix}, {name: "f1", t: sMatrix}, {name: "f2", t: sMatrix}},
		pats: []pattern{
			pat(true, "a,a", "a,a", "a,a", "a,a"),
			pat(true, "a,d", "a,b", "b,c", "c,d"),
			pat(false, "a,d", "a,b", "b,c", "c,d"),
			pat(true, "a,1", "a,b", "b,c", "c,1"),
			pat(true, "1,d", "1,b", "b,c", "c,d"),
			pat(true, "1,1", "1,b", "b,b", "b,1"),
		}, model: prodModel, call: prodCall})
	addOp(&opSpec{name: "Dense.Product4", recv: rDense, sample: 4096, sampleT: 600,
		slots: []slot{{name: "f0", t: sMatrix}, {name: "f1", t: sMatrix}, {name: "f2", t: sMatrix}, {name: "f3", t: sMatrix}},
		pats: []pattern{
			pat(true, "a,a", "a,a", "a,a", "a,a", "a,a"),
			pat(true, "a,e", "a,b", "b,c", "c,d", "d,e"),
			pat(false, "a,e", "a,b", "b,c", "c,d", "d,e"),
		}, model: prodModel, call: prodCall})

	m1 := []slot{{name: "a", t: sMatrix}}
	addOp(&opSpec{name: "Dense.Scale", recv: rDense, slots: m1, pats: unaryPats,
		prm: func(g *vrt.Rand, x *caseX) bool { x.p.f = g.PickFloat(-2.5, 0.75, 3, -1, 0); return true },
		model: func(x *caseX) bool {
			w := ref.New(x.val[0].R, x.val[0].C)
			for i, v := range x.val[0].D {
				w.D[i] = x.p.f * v
			}
			x.want = w
			return true
		},
		call: func(x *caseX) { x.rc.D.Scale(x.fS(), x.obj[0]); x.outM = x.rc.D }})
	addOp(&opSpec{name: "Dense.Apply", recv: rDense, slots: m1, pats: unaryPats,
		model: func(x *caseX) bool {
			a := x.val[0]
			x.want = ref.FromFunc(a.R, a.C, func(i, j int) float64 { return applyFn(i, j, a.At(i, j)) })
			return true
		},
		call: func(x *caseX) { x.rc.D.Apply(applyFn, x.obj[0]); x.outM = x.rc.D }})
	addOp(&opSpec{name: "Dense.CloneFrom", recv: rDense, slots: m1, pats: unaryPats, noRej: true,
		model: func(x *caseX) bool { x.want = x.val[0].Clone(); return true },
		call:  func(x *caseX) { x.rc.D.CloneFrom(x.obj[0]); x.outM = x.rc.D }})
	addOp(&opSpec{name: "DenseCopyOf", recv: rNone, slots: m1, pats: unaryPats,
		model: func(x *caseX) bool { x.want = x.val[0].Clone(); return true },
		call:  func(x *caseX) { x.outM = mat.DenseCopyOf(x.obj[0]) }})

	// Copy: receiver (out dims) and source may differ in shape; the common
	// leading sub-matrix is copied, the rest of the receiver is unchanged.
	copyPats := []pattern{
		pat(true, "1,1", "1,1"),
		pat(true, "a,a", "a,a"),
		pat(true, "a,b", "a,b"),
		pat(false, "a,b", "a,b"),
		pat(true, "a,1", "a,1"),
		pat(true, "1,a", "1,a"),
		pat(true, "a,b", "c,d"),
		pat(false, "a,b", "c,d"),
		pat(true, "a,a", "b,b"),
		pat(false, "a,a", "b,b"),
		pat(true, "a,c", "b,1"),
		pat(false, "a,c", "b,1"),
		pat(true, "a,c", "1,b"),
		pat(false, "a,c", "1,b"),
		pat(true, "a,b", "b,a"),
	}
	addOp(&opSpec{name: "Dense.Copy", recv: rDense, slots: m1, pats: copyPats, inout: true,
		model: func(x *caseX) bool {
			a := x.val[0]
			w := x.prev.Clone()
			r, c := min(a.R, w.R), min(a.C, w.C)
			for i := 0; i < r; i++ {
				for j := 0; j < c; j++ {
					w.D[i*w.C+j] = a.D[i*a.C+j]
				}
			}
			x.want = w
			x.wantS = []float64{float64(r), float64(c)}
			return true
		},
		call: func(x *caseX) {
			r, c := x.rc.D.Copy(x.obj[0])
			x.outM = x.rc.D
			x.outS = []float64{float64(r), float64(c)}
		}})

	addOp(&opSpec{name: "Dense.Stack", recv: rDense, slots: mm,
		pats: []pattern{
			pat(true, "1,1", "1,1", "1,1"),
			pat(true, "1,1", "a,a", "b,a"),
			pat(false, "1,1", "a,a", "b,a"),
			pat(true, "1,1", "a,c", "b,c"),
			pat(false, "1,1", "a,c", "b,c"),
			pat(true, "1,1", "a,1", "b,1"),
			pat(true, "1,1", "1,a", "1,a"),
		},
		prm: func(g *vrt.Rand, x *caseX) bool {
			x.out[0] = x.dims[0][0] + x.dims[1][0]
			x.out[1] = x.dims[0][1]
			return true
		},
		model: func(x *caseX) bool {
			a, b := x.val[0], x.val[1]
			w := ref.New(a.R+b.R, a.C)
			copy(w.D, a.D)
			copy(w.D[a.R*a.C:], b.D)
			x.want = w
			return true
		},
		call: func(x *caseX) { x.rc.D.Stack(x.obj[0], x.obj[1]); x.outM = x.rc.D }})
	addOp(&opSpec{name: "Dense.Augment", recv: rDense, slots: mm,
		pats: []pattern{
			pat(true, "1,1", "1,1", "1,1"),
			pat(true, "1,1", "a,a", "a,b"),
			pat(false, "1,1", "a,a", "a,b"),
			pat(true, "1,1", "c,a", "c,b"),
			pat(false, "1,1", "c,a", "c,b"),
			pat(true, "1,1", "1,a", "1,b"),
			pat(true, "1,1", "a,1", "a,1"),
		},
		prm: func(g *vrt.Rand, x *caseX) bool {
			x.out[0] = x.dims[0][0]
			x.out[1] = x.dims[0][1] + x.dims[1][1]
			return true
		},
		model: func(x *caseX) bool {
			a, b := x.val[0], x.val[1]
			w := ref.New(a.R, a.C+b.C)
			for i := 0; i < a.R; i++ {
				copy(w.D[i*w.C:], a.D[i*a.C:(i+1)*a.C])
				copy(w.D[i*w.C+a.C:], b.D[i*b.C:(i+1)*b.C])
			}
			x.want = w
			return true
		},
		call: func(x *caseX) { x.rc.D.Augment(x.obj[0], x.obj[1]); x.outM = x.rc.D }})

	addOp(&opSpec{name: "Dense.Kronecker", recv: rDense, slots: mm,
		pats: []pattern{
			pat(true, "1,1", "1,1", "1,1"),
			pat(true, "1,1", "a,a", "b,b"),
			pat(false, "1,1", "a,a", "b,b"),
			pat(true, "1,1", "a,b", "c,d"),
			pat(false, "1,1", "a,b", "c,d"),
			pat(true, "1,1", "a,1", "1,b"),
			pat(true, "1,1", "1,a", "b,1"),
			pat(true, "1,1", "a,1", "b,b"),
			pat(true, "1,1", "a,a", "1,b"),
		},
		prm: func(g *vrt.Rand, x *caseX) bool {
			x.out[0] = x.dims[0][0] * x.dims[1][0]
			x.out[1] = x.dims[0][1] * x.dims[1][1]
			return true
		},
		model: func(x *caseX) bool {
			a, b := x.val[0], x.val[1]
			w := ref.New(a.R*b.R, a.C*b.C)
			for i := 0; i < a.R; i++ {
				for j := 0; j < a.C; j++ {
					for k := 0; k < b.R; k++ {
						for l := 0; l < b.C; l++ {
							w.D[(i*b.R+k)*w.C+j*b.C+l] = a.D[i*a.C+j] * b.D[k*b.C+l]
						}
					}
				}
			}
			x.want = w
			return true
		},
		call: func(x *caseX) { x.rc.D.Kronecker(x.obj[0], x.obj[1]); x.outM = x.rc.D }})

	addOp(&opSpec{name: "Dense.Pow", recv: rDense, slots: m1, pats: squarePats,
		prm: func(g *vrt.Rand, x *caseX) bool { x.p.n = g.PickInt(0, 1, 2, 3, 4, 5, 7, 8); return true },
		model: func(x *caseX) bool {
			a := x.val[0]
			w, m := eye(a.R), eye(a.R)
			aa := absM(a)
			for i := 0; i < x.p.n; i++ {
				w = refMul(w, a)
				m = refMul(m, aa)
			}
			x.want, x.mag, x.cu = w, m, 2*float64(max(x.p.n, 1)*(a.R+2))
			return true
		},
		call: func(x *caseX) { x.rc.D.Pow(x.obj[0], x.p.n); x.outM = x.rc.D }})

	// Exp: reference by scaling and squaring of a long Taylor series.
	addOp(&opSpec{name: "Dense.Exp", recv: rDense, slots: m1, pats: squarePats,
		prm: func(g *vrt.Rand, x *caseX) bool {
			// Scale the value so that every Pade branch is exercised.
			x.p.f = g.PickFloat(0.002, 0.03, 0.12, 0.4, 1, 3)
			return true
		},
		fixup: func(g *vrt.Rand, x *caseX) {
			if x.cons[0].unit {
				return
			}
			for i := range x.ival[0].D {
				x.ival[0].D[i] *= x.p.f
			}
		},
		model: func(x *caseX) bool {
			a := x.val[0]
			n := a.R
			nrm := a.NormInf()
			s := 0
			for nrm > 0.25 {
				nrm /= 2
				s++
			}
			sc := ref.Scale(1/math.Pow(2, float64(s)), a)
			w, term := eye(n), eye(n)
			for k := 1; k <= 24; k++ {
				term = ref.Scale(1/float64(k), refMul(term, sc))
				w = ref.Add(w, term)
			}
			for i := 0; i < s; i++ {
				w = refMul(w, w)
			}
			// exp(|A|) bounds the magnitude of every intermediate quantity.
			bound := math.Exp(a.NormInf())
			x.want = w
			x.absTol = expC * float64(n) * u * bound * (1 + a.NormInf())
			return true
		},
		call: func(x *caseX) { x.rc.D.Exp(x.obj[0]); x.outM = x.rc.D }})

	// Inverse of a diagonally dominant matrix.
	addOp(&opSpec{name: "Dense.Inverse", recv: rDense, slots: []slot{{name: "a", t: sMatrix, fl: fDom}}, pats: squarePats,
		model: func(x *caseX) bool {
			a := x.val[0]
			kap := condBoundInf(a)
			if !(kap < 1e6) {
				return false
			}
			inv, ok := ref.Inverse(a)
			if !ok {
				return false
			}
			x.want = inv
			x.absTol = invC * float64(a.R) * u * kap * inv.MaxAbs()
			x.noErr = true
			return true
		},
		call: func(x *caseX) { x.err = x.rc.D.Inverse(x.obj[0]); x.outM = x.rc.D }})

	// Solve: square (all kinds), tall and wide (least squares / minimum norm).
	addOp(&opSpec{name: "Dense.Solve", recv: rDense,
		slots: []slot{{name: "a", t: sMatrix, fl: fDom}, {name: "b", t: sMatrix}},
		pats: []pattern{
			pat(true, "1,1", "1,1", "1,1"),
			pat(true, "a,a", "a,a", "a,a"),
			pat(true, "a,b", "a,a", "a,b"),
			pat(false, "a,b", "a,a", "a,b"),
			pat(true, "a,1", "a,a", "a,1"),
			pat(true, "1,b", "1,1", "1,b"),
			pat(true, "a,c", "b,a", "b,c"), // tall a (b > a)
			pat(true, "a,1", "b,a", "b,1"),
			pat(false, "a,c", "b,a", "b,c"), // wide a (b < a)
			pat(false, "a,1", "b,a", "b,1"),
		},
		model: solveModel,
		call:  func(x *caseX) { x.err = x.rc.D.Solve(x.obj[0], x.obj[1]); x.outM = x.rc.D }})

	vv := []slot{{name: "x", t: sVector}, {name: "y", t: sVector}}
	addOp(&opSpec{name: "Dense.Outer", recv: rDense, slots: vv,
		pats: []pattern{
			pat(true, "1,1", "1,1", "1,1"),
			pat(true, "a,b", "a,1", "b,1"),
			pat(false, "a,b", "a,1", "b,1"),
			pat(true, "a,a", "a,1", "a,1"),
			pat(true, "a,b", "1,a", "b,1"),
			pat(true, "a,b", "a,1", "1,b"),
			pat(true, "a,b", "1,a", "1,b"),
			pat(true, "a,1", "a,1", "1,1"),
			pat(true, "1,b", "1,1", "b,1"),
		},
		prm: func(g *vrt.Rand, x *caseX) bool { x.p.alpha = g.PickFloat(1, -1, 0.5, -2.25, 0); return true },
		model: func(x *caseX) bool {
			xv, yv := x.val[0].D, x.val[1].D
			w := ref.New(len(xv), len(yv))
			m := ref.New(len(xv), len(yv))
			for i := range xv {
				for j := range yv {
					w.D[i*w.C+j] = x.p.alpha * xv[i] * yv[j]
					m.D[i*w.C+j] = math.Abs(w.D[i*w.C+j])
				}
			}
			x.want, x.mag, x.cu = w, m, 6
			return true
		},
		call: func(x *caseX) {
			x.rc.D.Outer(x.p.alpha, x.obj[0].(mat.Vector), x.obj[1].(mat.Vector))
			x.outM = x.rc.D
		}})
	addOp(&opSpec{name: "Dense.RankOne", recv: rDense,
		slots: []slot{{name: "a", t: sMatrix}, {name: "x", t: sVector}, {name: "y", t: sVector}},
		pats: []pattern{
			pat(true, "1,1", "1,1", "1,1", "1,1"),
			pat(true, "a,a", "a,a", "a,1", "a,1"),
			pat(true, "a,b", "a,b", "a,1", "b,1"),
			pat(false, "a,b", "a,b", "a,1", "b,1"),
			pat(true, "a,b", "a,b", "1,a", "1,b"),
			pat(true, "a,1", "a,1", "a,1", "1,1"),
			pat(true, "1,b", "1,b", "1,1", "b,1"),
			pat(true, "a,a", "a,a", "1,a", "a,1"),
		},
		prm: func(g *vrt.Rand, x *caseX) bool { x.p.alpha = g.PickFloat(1, -1, 0.5, -2.25, 0); return true },
		model: func(x *caseX) bool {
			a := x.val[0]
			xv, yv := x.val[1].D, x.val[2].D
			w := ref.New(a.R, a.C)
			m := ref.New(a.R, a.C)
			for i := range xv {
				for j := range yv {
					w.D[i*w.C+j] = a.D[i*a.C+j] + x.p.alpha*xv[i]*yv[j]
					m.D[i*w.C+j] = math.Abs(a.D[i*a.C+j]) + math.Abs(x.p.alpha*xv[i]*yv[j])
				}
			}
			x.want, x.mag, x.cu = w, m, 8
			return true
		},
		call: func(x *caseX) {
			x.rc.D.RankOne(x.obj[0], x.p.alpha, x.obj[1].(mat.Vector), x.obj[2].(mat.Vector))
			x.outM = x.rc.D
		}})
}

// Calibrated constants (see calibration notes in variants.json): the largest
// ratios observed on the unchanged tree over seeds 1,2,3,7,42 in both tiers
// were below 1/100 of these.
const (
	expC   = 4000.0 // Dense.Exp: |err| <= expC*n*u*exp(|A|inf)*(1+|A|inf)
	invC   = 400.0  // Inverse/InverseTri: |err| <= invC*n*u*kappa_bound*max|inv|
	solveC = 400.0  // Solve family, square systems: |err| <= solveC*n*u*kappa*max|x|
	lsqC   = 4000.0 // Solve family, least squares: |err| <= lsqC*max(m,n)*u*kappa_2^2*max(|x|, |b|/sigma_min)
	detC   = 400.0  // Det/LogDet
	condC  = 4000.0 // Cond (norm 2)
)

// solveModel is shared by Solve, SolveVec and the SolveTo family: operand 0
// is the system matrix (or its stand-in), operand 1 the right-hand side;
// x.p.trans solves with the transpose.
func solveModel(x *caseX) bool {
	a, b := x.val[0], x.val[1]
	if x.p.trans {
		a = a.T()
	}
	x.noErr = true
	x.calKey = ""
	if a.R == a.C {
		kap := condBoundInf(a)
		if !(kap < 1e6) {
			return false
		}
		w, ok := ref.Solve(a, b)
		if !ok {
			return false
		}
		x.want = w
		x.absTol = solveC * float64(a.R) * u * kap * math.Max(w.MaxAbs(), 1e-300)
		return true
	}
	if a.R > 40 || a.C > 40 {
		return false
	}
	sv := ref.SingularValues(a)
	smin := sv[len(sv)-1]
	if smin == 0 {
		return false
	}
	kap := sv[0] / smin
	if !(kap < 1e3) {
		return false
	}
	pinv := ref.PseudoInverse(a, 0)
	w := refMul(pinv, b)
	x.want = w
	x.absTol = lsqC * float64(max(a.R, a.C)) * u * kap * kap * math.Max(w.MaxAbs(), b.MaxAbs()/smin)
	x.calKey = "(least squares)"
	return true
}
