package main

import (
	"math"

	"gonum.org/v1/gonum/blas"
	"gonum.org/v1/gonum/blas/blas64"
	"gonum.org/v1/gonum/mat"
	"gonum.org/v1/gonum/verifx/vrt"
)

type recvT int

const (
	rNone recvT = iota
	rDense
	rVec
	rSym
	rTri
	rDiag
)

// Receiver states.
const (
	stZero       = iota // zero value of the type
	stResetBig          // used with a larger size, then Reset (backing is reused, holds stale data)
	stResetSmall        // used with a smaller size, then Reset (backing must be reallocated)
	stExact             // pre-sized, compact, stale contents
	stViewNaN           // view with stride > cols inside a NaN-tainted backing array
	stViewFin           // the same inside a backing array of finite canaries
	numStates
)

var stateName = [numStates]string{"zero", "reset-big", "reset-small", "exact", "view", "view"}

// stateClass is the name used in signatures (the two view states differ only
// in the canary flavour).
func stateClass(st int) string { return stateName[st] }

func sized(st int) bool { return st >= stExact }

// staleAt is the deterministic previous content of a sized receiver's
// window. Finite when fin is set, payload NaNs otherwise.
func staleAt(seed uint64, i, j int, fin bool) float64 {
	if !fin {
		return vrt.Taint(7000000 + i*1000 + j)
	}
	x := seed ^ uint64(i)*0x9e3779b97f4a7c15 ^ uint64(j)*0xbf58476d1ce4e5b9
	x ^= x >> 29
	x *= 0x94d049bb133111eb
	x ^= x >> 32
	// A value in +-[16,48): not confusable with results of the small inputs.
	f := 16 + float64(x>>11)/(1<<53)*32
	if x&1 == 1 {
		f = -f
	}
	return f
}

// receiver is a constructed result receiver together with the memory that
// must stay untouched.
type receiver struct {
	t     recvT
	state int
	D     *mat.Dense
	V     *mat.VecDense
	S     *mat.SymDense
	T     *mat.TriDense
	G     *mat.DiagDense

	back  []float64 // backing array of a view (nil otherwise)
	snap  snapshot
	inWin func(i int) bool
}

func (rc *receiver) matrix() mat.Matrix {
	switch rc.t {
	case rDense:
		return rc.D
	case rVec:
		return rc.V
	case rSym:
		return rc.S
	case rTri:
		return rc.T
	case rDiag:
		return rc.G
	}
	return nil
}

// outsideWrite returns the index of the first backing element outside the
// window whose bits changed, or -1.
func (rc *receiver) outsideWrite() int {
	if rc.back == nil {
		return -1
	}
	return rc.snap.firstDiff(rc.back, rc.inWin)
}

// newReceiver builds a receiver of type t in the given state for an r x c
// result (c == 1 for vectors, r == c for the square types). staleFin selects
// finite stale window contents; upper is the orientation for rTri.
func newReceiver(g *vrt.Rand, t recvT, state int, r, c int, seed uint64, staleFin, upper bool) *receiver {
	rc := &receiver{t: t, state: state}
	finCanary := state == stViewFin || (state == stExact && seed&8 != 0)
	fl := newFiller(g, !finCanary)
	// guarded returns a slice of n elements (cap n) in the middle of a
	// canary-filled array that becomes the checked backing of the receiver.
	const guard = 8
	guarded := func(n int) []float64 {
		rc.back = fl.slice(guard + n + guard)
		rc.inWin = func(k int) bool { return k >= guard && k < guard+n }
		return rc.back[guard : guard+n : guard+n]
	}
	switch t {
	case rDense:
		switch state {
		case stZero:
			rc.D = &mat.Dense{}
		case stResetBig, stResetSmall:
			pr, pc := r+1+g.Intn(3), c+1+g.Intn(3)
			if state == stResetSmall {
				pr, pc = max(1, r-1-g.Intn(2)), max(1, c-g.Intn(2))
				if pr*pc >= r*c {
					pr, pc = 1, 1
				}
			}
			d := make([]float64, pr*pc)
			for i := range d {
				d[i] = staleAt(seed, i, 77, staleFin)
			}
			rc.D = mat.NewDense(pr, pc, d)
			rc.D.Reset()
		case stExact:
			d := guarded(r * c)
			for i := 0; i < r; i++ {
				for j := 0; j < c; j++ {
					d[i*c+j] = staleAt(seed, i, j, staleFin)
				}
			}
			rc.D = mat.NewDense(r, c, d)
		default:
			i0, j0 := g.Intn(3), g.Intn(3)
			R, C := i0+r+g.Intn(3), j0+c+1+g.Intn(3)
			rc.back = fl.slice(R * C)
			for i := 0; i < r; i++ {
				for j := 0; j < c; j++ {
					rc.back[(i0+i)*C+j0+j] = staleAt(seed, i, j, staleFin)
				}
			}
			big := mat.NewDense(R, C, rc.back)
			rc.D = big.Slice(i0, i0+r, j0, j0+c).(*mat.Dense)
			rc.inWin = func(k int) bool {
				i, j := k/C-i0, k%C-j0
				return i >= 0 && i < r && j >= 0 && j < c
			}
		}
	case rVec:
		n := r
		switch state {
		case stZero:
			rc.V = &mat.VecDense{}
		case stResetBig, stResetSmall:
			pn := n + 1 + g.Intn(3)
			if state == stResetSmall {
				pn = max(1, n-1-g.Intn(2))
				if pn >= n {
					pn = 1
				}
			}
			d := make([]float64, pn)
			for i := range d {
				d[i] = staleAt(seed, i, 78, staleFin)
			}
			rc.V = mat.NewVecDense(pn, d)
			rc.V.Reset()
		case stExact:
			d := guarded(n)
			for i := range d {
				d[i] = staleAt(seed, i, 0, staleFin)
			}
			rc.V = mat.NewVecDense(n, d)
		default:
			// SliceVec of a column view of a wider matrix.
			inc := 2 + g.Intn(3)
			i0 := g.Intn(3)
			N := i0 + n + g.Intn(3)
			j0 := g.Intn(inc)
			rc.back = fl.slice(N * inc)
			for i := 0; i < n; i++ {
				rc.back[(i0+i)*inc+j0] = staleAt(seed, i, 0, staleFin)
			}
			big := mat.NewDense(N, inc, rc.back)
			col := big.ColView(j0).(*mat.VecDense)
			rc.V = col.SliceVec(i0, i0+n).(*mat.VecDense)
			rc.inWin = func(k int) bool {
				i, j := k/inc-i0, k%inc
				return j == j0 && i >= 0 && i < n
			}
		}
	case rSym, rTri:
		n := r
		mk := func(pn int, d []float64) {
			if t == rSym {
				rc.S = mat.NewSymDense(pn, d)
			} else {
				rc.T = mat.NewTriDense(pn, mat.TriKind(upper), d)
			}
		}
		switch state {
		case stZero:
			if t == rSym {
				rc.S = &mat.SymDense{}
			} else {
				rc.T = &mat.TriDense{}
			}
		case stResetBig, stResetSmall:
			pn := n + 1 + g.Intn(3)
			if state == stResetSmall {
				pn = max(1, n-1-g.Intn(2))
				if pn >= n {
					pn = 1
				}
			}
			d := make([]float64, pn*pn)
			for i := range d {
				d[i] = staleAt(seed, i, 79, staleFin)
			}
			// The previous use may have had the other orientation.
			if t == rTri && g.Bool() {
				rc.T = mat.NewTriDense(pn, mat.TriKind(!upper), d)
			} else {
				mk(pn, d)
			}
			if t == rSym {
				rc.S.Reset()
			} else {
				rc.T.Reset()
			}
		case stExact:
			d := guarded(n * n)
			for i := 0; i < n; i++ {
				for j := 0; j < n; j++ {
					d[i*n+j] = staleAt(seed, i, j, staleFin)
				}
			}
			mk(n, d)
		default:
			i0 := g.Intn(3)
			N := i0 + n + 1 + g.Intn(3)
			rc.back = fl.slice(N * N)
			for i := 0; i < n; i++ {
				for j := 0; j < n; j++ {
					rc.back[(i0+i)*N+i0+j] = staleAt(seed, i, j, staleFin)
				}
			}
			if t == rSym {
				rc.S = mat.NewSymDense(N, rc.back).SliceSym(i0, i0+n).(*mat.SymDense)
			} else {
				rc.T = mat.NewTriDense(N, mat.TriKind(upper), rc.back).SliceTri(i0, i0+n).(*mat.TriDense)
			}
			rc.inWin = func(k int) bool {
				i, j := k/N-i0, k%N-i0
				return i >= 0 && i < n && j >= 0 && j < n
			}
		}
	case rDiag:
		n := r
		switch state {
		case stZero:
			rc.G = &mat.DiagDense{}
		case stResetBig, stResetSmall:
			pn := n + 1 + g.Intn(3)
			if state == stResetSmall {
				pn = max(1, n-1-g.Intn(2))
				if pn >= n {
					pn = 1
				}
			}
			d := make([]float64, pn)
			for i := range d {
				d[i] = staleAt(seed, i, 80, staleFin)
			}
			rc.G = mat.NewDiagDense(pn, d)
			rc.G.Reset()
		case stExact:
			d := guarded(n)
			for i := range d {
				d[i] = staleAt(seed, i, i, staleFin)
			}
			rc.G = mat.NewDiagDense(n, d)
		default:
			i0, j0 := g.Intn(3), g.Intn(3)
			R, C := i0+n+g.Intn(3), j0+n+1+g.Intn(3)
			rc.back = fl.slice(R * C)
			for i := 0; i < n; i++ {
				rc.back[(i0+i)*C+j0+i] = staleAt(seed, i, i, staleFin)
			}
			big := mat.NewDense(R, C, rc.back)
			rc.G = big.Slice(i0, i0+n, j0, j0+n).(*mat.Dense).DiagView().(*mat.DiagDense)
			rc.inWin = func(k int) bool {
				i, j := k/C-i0, k%C-j0
				return i == j && i >= 0 && i < n
			}
		}
	}
	if rc.back != nil {
		rc.snap = takeSnapshot(rc.back, 0xa5a5a5a5a5a5a5a5^seed)
	}
	return rc
}

// Silence unused-import complaints when build tags remove users.
var _ = blas.Upper
var _ = blas64.General{}
var _ = math.Pi
