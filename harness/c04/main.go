// Command c04 is the runtime monitor for property C04: mat results depend
// only on operand values (as seen through Dims/At), not on their
// representation, and the receiver's storage outside its window is untouched.
package main

import (
	"flag"
	"fmt"
	"sort"
	"strings"
	"sync"

	"gonum.org/v1/gonum/mat"
	"gonum.org/v1/gonum/verifx/vrt"
)

var (
	light  = flag.Bool("light", false, "reduced workload (race/checkptr build)")
	onlyOp = flag.String("op", "", "run only operations whose name contains this string (debugging)")
	listOp = flag.Bool("list", false, "print the operation/kind tables and exit")
)

func main() { vrt.Main("C04", run) }

func run(c *vrt.Ctx) {
	if *listOp {
		for _, k := range kinds {
			fmt.Printf("kind %-28s %-24s vec=%v sym=%v tri=%v\n", k.name, k.class, k.isVector, k.isSym, k.isTri)
		}
		for _, o := range ops {
			n := 0
			for _, p := range o.pats {
				n += tupleCount(candidates(o, p))
			}
			fmt.Printf("op %-28s tuples=%d\n", o.name, n)
		}
		return
	}
	mat.VerifPoolPoison(true)
	mat.VerifPoolReset()

	units := makeUnits(c)
	var mu sync.Mutex
	total := map[string]int{}
	skips, large, rej := 0, 0, 0
	var byState [numStates]int
	var byClass [5]int
	vrt.Parallel(len(units), func(i int) {
		st := &stats{evals: map[string]int{}}
		runUnit(c, units[i], st)
		for k, n := range st.evals {
			c.EvalN(k, n, true)
		}
		mu.Lock()
		for k, r := range st.calib {
			if r > calib[k] {
				calib[k] = r
			}
		}
		for k, n := range st.evals {
			total[k[:strings.IndexByte(k, '|')]] += n
		}
		skips += st.skips
		large += st.large
		rej += st.rej
		for i, n := range st.byState {
			byState[i] += n
		}
		for i, n := range st.byClass {
			byClass[i] += n
		}
		mu.Unlock()
	})
	runComplex(c)

	// Evidence: per-operation call counts and the pool sanitizer state.
	names := make([]string, 0, len(total))
	for k := range total {
		names = append(names, k)
	}
	sort.Strings(names)
	perOp := map[string]int{}
	for _, k := range names {
		perOp[k] = total[k]
	}
	c.Note("calls_per_operation", perOp)
	c.Note("operand_kinds", len(kinds))
	c.Note("operations", len(ops)+4)
	c.Count("cases_vetoed_by_model(condition number out of calibrated range)", int64(skips))
	c.Count("cases.large_shape(9..200)", int64(large))
	for i := 1; i < len(byClass); i++ {
		c.Count("cases.value_class."+clsName[i], int64(byClass[i]))
	}
	c.Count("cases.shape_rejection", int64(rej))
	for i, n := range byState {
		c.Count("cases.receiver_state."+[numStates]string{"zero", "reset-big", "reset-small", "exact", "view-nan-canaries", "view-finite-canaries"}[i], int64(n))
	}

	ps := mat.VerifPoolSnapshot()
	for k := 0; k < 7; k++ {
		c.Count("pool.gets."+mat.VerifPoolKindName(k), ps.Gets[k])
		c.Count("pool.puts."+mat.VerifPoolKindName(k), ps.Puts[k])
	}
	c.Count("pool.outstanding_at_end", int64(ps.Outstanding))
	c.Count("pool.high_water", int64(ps.HighWater))
	c.Count("pool.protocol_errors", ps.NumErrors)
	for _, e := range ps.Errors {
		c.Violation("pool|protocol|"+poolErrClass(e), e, nil)
	}
	noteCalib(c)
}

// poolErrClass reduces a sanitizer message to "kind of error <- innermost mat function".
func poolErrClass(e string) string {
	msg := e
	fn := ""
	if i := strings.Index(e, " <- "); i >= 0 {
		msg = e[:i]
		rest := strings.Split(e[i+4:], " <- ")
		for _, f := range rest {
			if strings.Contains(f, "gonum/mat.") && !strings.Contains(f, "mat.put") && !strings.Contains(f, "mat.get") && !strings.Contains(f, "mat.verifPool") {
				fn = f[strings.LastIndex(f, "/")+1:]
				break
			}
		}
	}
	switch {
	case strings.Contains(msg, "still outstanding"):
		msg = "handed-out-twice"
	case strings.Contains(msg, "not outstanding"):
		msg = "double-put"
	case strings.Contains(msg, "obtained from pool"):
		msg = "wrong-pool"
	}
	return msg + "@" + fn
}

// makeUnits builds the deterministic list of work units.
func makeUnits(c *vrt.Ctx) []workUnit {
	var units []workUnit
	const chunk = 400
	for _, o := range ops {
		if *onlyOp != "" && !strings.Contains(o.name, *onlyOp) {
			continue
		}
		for pi, p := range o.pats {
			if p.rej && (o.noRej || (p.sizedOnly && o.recv == rNone)) {
				continue
			}
			cand := candidates(o, p)
			n := tupleCount(cand)
			reps := 1
			if n < 600 {
				reps = min(12, 600/max(n, 1)+1)
				if c.Thorough() && !*light {
					reps *= 4
				}
			}
			for rep := 0; rep < reps; rep++ {
				for lo := 0; lo < n; lo += chunk {
					units = append(units, workUnit{op: o, pi: pi, cand: cand, lo: lo, hi: min(n, lo+chunk), rep: rep})
				}
			}
			if c.Thorough() && !*light && largeOps[o.name] > 0 && !p.rej {
				cnt := largeOps[o.name]
				for lo := 0; lo < cnt; lo += 20 {
					units = append(units, workUnit{op: o, pi: pi, cand: cand, lo: lo, hi: min(cnt, lo+20), large: true})
				}
			}
		}
	}
	return units
}

// largeOps: number of random large-shape cases per pattern in the thorough
// tier (sizes up to 200, crossing the 64 block size and the parallel gemm
// threshold).
var largeOps = map[string]int{
	"Dense.Add": 40, "Dense.Sub": 20, "Dense.MulElem": 20, "Dense.DivElem": 20,
	"Dense.Mul": 120, "Dense.Product3": 20, "Dense.Scale": 40, "Dense.Apply": 20,
	"Dense.CloneFrom": 20, "Dense.Copy": 20, "Dense.Stack": 20, "Dense.Augment": 20,
	"Dense.Pow": 20, "Dense.Inverse": 40, "Dense.Solve": 40, "Dense.Outer": 20, "Dense.RankOne": 20,
	"Sum": 20, "Max": 20, "Min": 20, "Norm": 40, "Trace": 20, "Det": 20, "LogDet": 20,
	"Dot": 20, "Inner": 20, "Equal": 20, "EqualApprox": 20, "Row": 20, "Col": 20,
	"VecDense.AddVec": 20, "VecDense.SubVec": 20, "VecDense.MulElemVec": 20, "VecDense.DivElemVec": 20,
	"VecDense.AddScaledVec": 20, "VecDense.ScaleVec": 20, "VecDense.MulVec": 80, "VecDense.SolveVec": 20,
	"VecDense.CopyVec": 20, "VecDense.CloneFromVec": 20,
	"SymDense.AddSym": 20, "SymDense.ScaleSym": 20, "SymDense.CopySym": 20, "SymDense.SymRankOne": 20,
	"SymDense.SymRankK": 40, "SymDense.SymOuterK": 40, "SymDense.RankTwo": 20,
	"TriDense.ScaleTri": 20, "TriDense.InverseTri": 20, "TriDense.MulTri": 10, "TriDense.Copy": 20,
	"BandDense.MulVecTo": 20, "SymBandDense.MulVecTo": 20, "Tridiag.MulVecTo": 20,
	"TriDense.SolveTo": 20, "TriBandDense.SolveTo": 20, "Tridiag.SolveTo": 20,
	"TriBandDense.SolveVecTo": 20, "Tridiag.SolveVecTo": 20,
}

func runUnit(c *vrt.Ctx, w workUnit, st *stats) {
	o := w.op
	opH := strHash(o.name)
	for t := w.lo; t < w.hi; t++ {
		var ks []*kind
		var h uint64
		lo, hi := 2, 8
		if w.large {
			h = hash64(c.Seed, opH, uint64(w.pi), uint64(t), 0x1a59e)
			g := vrt.NewRand(h)
			ks = make([]*kind, len(w.cand))
			ok := true
			for i := range ks {
				// no factorization kinds at large sizes (their At is O(n^2) per element)
				var pool []*kind
				for _, k := range w.cand[i] {
					if !k.approx {
						pool = append(pool, k)
					}
				}
				if len(pool) == 0 {
					ok = false
					break
				}
				ks[i] = pool[g.Intn(len(pool))]
			}
			if !ok {
				continue
			}
			lo, hi = 9, 200
			if g.Intn(3) == 0 {
				lo, hi = 60, 70 // straddle the 64 block edge
			}
			if strings.Contains(o.name, "Product") || strings.Contains(o.name, "Pow") || strings.Contains(o.name, "MulTri") {
				hi = min(hi, 80)
			}
		} else {
			ks = tupleAt(w.cand, t)
			h = hash64(c.Seed, opH, uint64(w.pi), uint64(t), uint64(w.rep)*977)
			if !c.Thorough() || *light {
				sm := o.sample
				if *light {
					sm = max(sm, 1) * 8
				}
				if sm > 1 && h%uint64(sm) != 0 {
					continue
				}
			} else if o.sampleT > 1 && h%uint64(o.sampleT) != 0 {
				continue
			}
		}
		if o.tupleFilter != nil && !o.tupleFilter(ks) {
			continue
		}
		states := statesFor(o, c.Thorough() && !w.large && !*light, h)
		if w.large {
			states = states[:1]
		}
		if o.pats[w.pi].sizedOnly && o.recv != rNone {
			states = []int{stExact, stViewNaN, stViewFin}[h%3:][:1]
		}
		if o.recv != rNone {
			// Operands with slack (see kind.slack) only meet receivers inside
			// guard margins.
			for _, k := range ks {
				if k.slack {
					var ss []int
					for _, s := range states {
						if sized(s) {
							ss = append(ss, s)
						}
					}
					if len(ss) == 0 {
						ss = []int{stExact, stViewFin}
					}
					states = ss
					break
				}
			}
		}
		for sm := 0; sm < len(states)*max(1, o.modes); sm++ {
			si, mode := sm/max(1, o.modes), sm%max(1, o.modes)
			stt := states[si]
			x := &caseX{op: o, pi: w.pi, kinds: ks, state: stt, mode: mode}
			x.seed = hash64(h, uint64(si), 77, uint64(mode))
			x.fin = x.seed&4 != 0
			if !x.prepare(c, lo, hi) {
				continue
			}
			c.LastCase(x.describe())
			runCase(c, x, st)
			if w.large {
				st.large++
			}
			if o.pats[w.pi].rej {
				st.rej++
			}
			st.byState[stt]++
		}
		// Value classes (valueclass.go): the same tuple with extreme
		// magnitudes / signed zeros; one class per tuple in the quick tier,
		// all of them in the thorough tier.
		if w.large || o.pats[w.pi].rej {
			continue
		}
		classes := valueClasses(o)
		if !c.Thorough() || *light {
			classes = classes[h/3%uint64(len(classes)):][:1]
		}
		for _, cls := range classes {
			for mode := 0; mode < max(1, o.modes); mode++ {
				stt := states[(h/5+uint64(cls))%uint64(len(states))]
				x := &caseX{op: o, pi: w.pi, kinds: ks, state: stt, mode: mode, vcls: cls}
				x.seed = hash64(h, 991, uint64(cls), uint64(mode))
				x.fin = x.seed&4 != 0
				if !x.prepare(c, lo, hi) {
					continue
				}
				c.LastCase(x.describe())
				runCase(c, x, st)
				st.byClass[cls]++
			}
		}
	}
}

// calibration: largest observed error/band ratios for the banded comparisons.
var (
	calibMu sync.Mutex
	calib   = map[string]float64{}
)

func noteCalib(c *vrt.Ctx) {
	calibMu.Lock()
	defer calibMu.Unlock()
	out := map[string]float64{}
	for k, v := range calib {
		out[k] = v
	}
	c.Note("max_error_over_band_ratio", out)
}
