package main

// Complex counterparts: CDense.Conj, CDense.Copy, CEqual, CEqualApprox over
// the complex operand kinds (CDense compact/view/grown/raw, H(), T() and
// their compositions, user CMatrix types with and without RawCMatrixer).

import (
	"fmt"
	"math"
	"math/cmplx"

	"gonum.org/v1/gonum/blas/cblas128"
	"gonum.org/v1/gonum/mat"
	"gonum.org/v1/gonum/verifx/vrt"
)

type rawC struct {
	*cval
	raw cblas128.General
}

func (m rawC) H() mat.CMatrix               { return mat.ConjTranspose{CMatrix: m} }
func (m rawC) T() mat.CMatrix               { return mat.CTranspose{CMatrix: m} }
func (m rawC) RawCMatrix() cblas128.General { return m.raw }

type ckind struct {
	name string
	from func(g *vrt.Rand, f *filler, v *cval) mat.CMatrix
}

func (v *cval) conjT() *cval {
	o := &cval{r: v.c, c: v.r, d: make([]complex128, len(v.d))}
	for i := 0; i < v.r; i++ {
		for j := 0; j < v.c; j++ {
			o.d[j*o.c+i] = cmplx.Conj(v.d[i*v.c+j])
		}
	}
	return o
}

func (v *cval) trans() *cval {
	o := &cval{r: v.c, c: v.r, d: make([]complex128, len(v.d))}
	for i := 0; i < v.r; i++ {
		for j := 0; j < v.c; j++ {
			o.d[j*o.c+i] = v.d[i*v.c+j]
		}
	}
	return o
}

func cView(g *vrt.Rand, f *filler, v *cval) *mat.CDense {
	i0, j0 := g.Intn(3), g.Intn(3)
	R, C := i0+v.r+g.Intn(3), j0+v.c+1+g.Intn(3)
	back := f.cslice(R * C)
	for i := 0; i < v.r; i++ {
		copy(back[(i0+i)*C+j0:], v.d[i*v.c:(i+1)*v.c])
	}
	return mat.NewCDense(R, C, back).Slice(i0, i0+v.r, j0, j0+v.c).(*mat.CDense)
}

func cRaw(g *vrt.Rand, f *filler, v *cval) cblas128.General {
	stride := v.c + 1 + g.Intn(3)
	head := g.Intn(stride + 1)
	back := f.cslice(head + (v.r-1)*stride + v.c + g.Intn(stride+1))
	for i := 0; i < v.r; i++ {
		copy(back[head+i*stride:], v.d[i*v.c:(i+1)*v.c])
	}
	return cblas128.General{Rows: v.r, Cols: v.c, Stride: stride, Data: back[head:]}
}

var ckinds = []ckind{
	{"CDense", func(g *vrt.Rand, f *filler, v *cval) mat.CMatrix {
		return mat.NewCDense(v.r, v.c, append([]complex128(nil), v.d...))
	}},
	{"CDenseView", func(g *vrt.Rand, f *filler, v *cval) mat.CMatrix { return cView(g, f, v) }},
	{"CDenseGrown", func(g *vrt.Rand, f *filler, v *cval) mat.CMatrix {
		i0, j0 := g.Intn(3), g.Intn(3)
		R, C := i0+v.r+g.Intn(3), j0+v.c+1+g.Intn(3)
		back := f.cslice(R * C)
		for i := 0; i < v.r; i++ {
			copy(back[(i0+i)*C+j0:], v.d[i*v.c:(i+1)*v.c])
		}
		r0, c0 := 1+g.Intn(v.r), 1+g.Intn(v.c)
		s := mat.NewCDense(R, C, back).Slice(i0, i0+r0, j0, j0+c0).(*mat.CDense)
		return s.Grow(v.r-r0, v.c-c0)
	}},
	{"CDenseRaw", func(g *vrt.Rand, f *filler, v *cval) mat.CMatrix {
		var d mat.CDense
		d.SetRawCMatrix(cRaw(g, f, v))
		return &d
	}},
	{"H(CDenseView)", func(g *vrt.Rand, f *filler, v *cval) mat.CMatrix { return cView(g, f, v.conjT()).H() }},
	{"T(CDenseView)", func(g *vrt.Rand, f *filler, v *cval) mat.CMatrix { return cView(g, f, v.trans()).T() }},
	{"T(H(CDenseView))", func(g *vrt.Rand, f *filler, v *cval) mat.CMatrix {
		return cView(g, f, v.trans().conjT()).H().T()
	}},
	{"H(T(CDenseView))", func(g *vrt.Rand, f *filler, v *cval) mat.CMatrix {
		return cView(g, f, v.conjT().trans()).T().H()
	}},
	{"H(H(CDenseView))", func(g *vrt.Rand, f *filler, v *cval) mat.CMatrix {
		return mat.ConjTranspose{CMatrix: mat.ConjTranspose{CMatrix: cView(g, f, v)}}
	}},
	{"BasicC", func(g *vrt.Rand, f *filler, v *cval) mat.CMatrix { return basicC{v} }},
	{"H(BasicC)", func(g *vrt.Rand, f *filler, v *cval) mat.CMatrix { return basicC{v.conjT()}.H() }},
	{"T(BasicC)", func(g *vrt.Rand, f *filler, v *cval) mat.CMatrix { return basicC{v.trans()}.T() }},
	{"UserRawC", func(g *vrt.Rand, f *filler, v *cval) mat.CMatrix { return rawC{v, cRaw(g, f, v)} }},
	{"H(UserRawC)", func(g *vrt.Rand, f *filler, v *cval) mat.CMatrix {
		w := v.conjT()
		return rawC{w, cRaw(g, f, w)}.H()
	}},
	{"T(UserRawC)", func(g *vrt.Rand, f *filler, v *cval) mat.CMatrix {
		w := v.trans()
		return rawC{w, cRaw(g, f, w)}.T()
	}},
}

func genC(g *vrt.Rand, r, c int) *cval {
	v := &cval{r: r, c: c, d: make([]complex128, r*c)}
	for i := range v.d {
		v.d[i] = complex(g.SmallFinite(), g.SmallFinite())
	}
	return v
}

func readC(m mat.CMatrix) *cval {
	r, c := m.Dims()
	v := &cval{r: r, c: c, d: make([]complex128, r*c)}
	for i := 0; i < r; i++ {
		for j := 0; j < c; j++ {
			v.d[i*c+j] = m.At(i, j)
		}
	}
	return v
}

func sameC(a, b complex128) bool { return sameValue(real(a), real(b)) && sameValue(imag(a), imag(b)) }

// cReceiver builds a CDense receiver in the given state; returns the backing
// array, window predicate and previous contents for sized states.
type cRecv struct {
	m     *mat.CDense
	back  []complex128
	snap  []complex128
	inWin func(k int) bool
}

func cstale(seed uint64, i, j int) complex128 {
	return complex(staleAt(seed, i, j, true), staleAt(seed, j+50, i+50, true))
}

func newCRecv(g *vrt.Rand, state, r, c int, seed uint64) *cRecv {
	rc := &cRecv{}
	f := newFiller(g, state != stViewFin)
	switch state {
	case stZero:
		rc.m = &mat.CDense{}
	case stResetBig, stResetSmall:
		pr, pc := r+1+g.Intn(2), c+1+g.Intn(2)
		if state == stResetSmall {
			pr, pc = 1, 1
		}
		d := make([]complex128, pr*pc)
		for i := range d {
			d[i] = cstale(seed, i, 91)
		}
		rc.m = mat.NewCDense(pr, pc, d)
		rc.m.Reset()
	case stExact:
		d := make([]complex128, r*c)
		for i := 0; i < r; i++ {
			for j := 0; j < c; j++ {
				d[i*c+j] = cstale(seed, i, j)
			}
		}
		rc.m = mat.NewCDense(r, c, d)
	default:
		i0, j0 := g.Intn(3), g.Intn(3)
		R, C := i0+r+g.Intn(3), j0+c+1+g.Intn(3)
		rc.back = f.cslice(R * C)
		for i := 0; i < r; i++ {
			for j := 0; j < c; j++ {
				rc.back[(i0+i)*C+j0+j] = cstale(seed, i, j)
			}
		}
		rc.snap = append([]complex128(nil), rc.back...)
		for i := range rc.snap { // mask the snapshot
			rc.snap[i] = complex(math.Float64frombits(math.Float64bits(real(rc.snap[i]))^0x5555), math.Float64frombits(math.Float64bits(imag(rc.snap[i]))^0x5555))
		}
		rc.m = mat.NewCDense(R, C, rc.back).Slice(i0, i0+r, j0, j0+c).(*mat.CDense)
		rc.inWin = func(k int) bool {
			i, j := k/C-i0, k%C-j0
			return i >= 0 && i < r && j >= 0 && j < c
		}
	}
	return rc
}

func (rc *cRecv) outsideWrite() int {
	for k, v := range rc.back {
		if rc.inWin(k) {
			continue
		}
		s := rc.snap[k]
		if math.Float64bits(real(v)) != math.Float64bits(real(s))^0x5555 || math.Float64bits(imag(v)) != math.Float64bits(imag(s))^0x5555 {
			return k
		}
	}
	return -1
}

func runComplex(c *vrt.Ctx) {
	if *onlyOp != "" && *onlyOp != "CDense" {
		return
	}
	shapes := [][2]int{{1, 1}, {3, 3}, {4, 1}, {1, 5}, {2, 6}, {7, 3}}
	counts := map[string]int{}
	type job struct {
		op     string
		ka, kb int
		sh     int
	}
	var jobs []job
	for sh := range shapes {
		for ka := range ckinds {
			jobs = append(jobs, job{"CDense.Conj", ka, 0, sh}, job{"CDense.Copy", ka, 0, sh})
			for kb := range ckinds {
				jobs = append(jobs, job{"CEqual", ka, kb, sh}, job{"CEqualApprox", ka, kb, sh})
			}
		}
	}
	states := []int{stZero, stResetBig, stResetSmall, stExact, stViewNaN, stViewFin}
	for ji, jb := range jobs {
		r, cc := shapes[jb.sh][0], shapes[jb.sh][1]
		g := c.RNG("complex", ji)
		if r > 1 || cc > 1 {
			// vary the sizes while keeping the class of the shape
			if r > 1 {
				r = 2 + g.Intn(7)
			}
			if cc > 1 {
				cc = 2 + g.Intn(7)
			}
			if shapes[jb.sh][0] == shapes[jb.sh][1] {
				cc = r
			} else if r == cc {
				cc++
			}
		}
		v := genC(g, r, cc)
		seed := g.Uint64()
		mk := func(k int, val *cval, salt uint64) mat.CMatrix {
			gg := vrt.NewRand(seed ^ salt)
			return ckinds[k].from(gg, newFiller(gg, seed&1 == 0), val)
		}
		report := func(sig, detail string) {
			c.Violation(sig, fmt.Sprintf("%s [%dx%d job %d]", detail, r, cc, ji), map[string]any{"op": jb.op, "a": ckinds[jb.ka].name, "b": ckinds[jb.kb].name, "rows": r, "cols": cc, "values": v.d})
		}
		a := mk(jb.ka, v, 1)
		av := readC(a)
		bad := false
		for i := range av.d {
			if !sameC(av.d[i], v.d[i]) {
				report("At|"+ckinds[jb.ka].name+"|value-mismatch", fmt.Sprintf("At gives %v, stored %v", av.d[i], v.d[i]))
				bad = true
				break
			}
		}
		if bad {
			continue
		}
		switch jb.op {
		case "CEqual", "CEqualApprox":
			for mode := 0; mode < 3; mode++ {
				w := &cval{r: r, c: cc, d: append([]complex128(nil), v.d...)}
				eps := 1e-6
				want := true
				k := g.Intn(len(w.d))
				if jb.op == "CEqual" {
					if mode == 2 {
						continue
					}
					if mode == 1 {
						w.d[k] += complex(0, 0.5)
						want = false
					}
				} else {
					sc := math.Max(1, cmplx.Abs(w.d[k]))
					switch mode {
					case 1:
						w.d[k] += complex(0.2*eps*sc, -0.1*eps*sc)
					case 2:
						w.d[k] += complex(0, 3*eps*sc)
						want = false
					}
				}
				b := mk(jb.kb, w, 2)
				var got bool
				p := vrt.TryFast(func() {
					if jb.op == "CEqual" {
						got = mat.CEqual(a, b)
					} else {
						got = mat.CEqualApprox(a, b, eps)
					}
				})
				counts[jb.op]++
				c.Eval(jb.op+"|"+ckinds[jb.ka].name+"|"+ckinds[jb.kb].name, true)
				sigp := jb.op + "|a=" + ckinds[jb.ka].name + ",b=" + ckinds[jb.kb].name
				if p != nil {
					report(sigp+"|panic", "panicked: "+p.Msg)
				} else if got != want {
					report(sigp+"|wrong-value", fmt.Sprintf("returned %v, want %v (mode %d)", got, want, mode))
				}
			}
		default:
			for _, st := range states {
				if jb.op == "CDense.Copy" && !sized(st) {
					continue
				}
				if !c.Thorough() && (uint64(st)+seed)%3 != 0 {
					continue
				}
				rr, rcc := r, cc
				if jb.op == "CDense.Copy" && seed&2 != 0 {
					rr, rcc = 1+g.Intn(8), 1+g.Intn(8)
				}
				rcv := newCRecv(vrt.NewRand(seed^uint64(st)), st, rr, rcc, seed)
				want := &cval{r: rr, c: rcc, d: make([]complex128, rr*rcc)}
				if jb.op == "CDense.Conj" {
					for i := range v.d {
						want.d[i] = cmplx.Conj(v.d[i])
					}
				} else {
					for i := 0; i < rr; i++ {
						for j := 0; j < rcc; j++ {
							want.d[i*rcc+j] = cstale(seed, i, j)
							if i < r && j < cc {
								want.d[i*rcc+j] = v.d[i*cc+j]
							}
						}
					}
				}
				a := mk(jb.ka, v, 3)
				var n1, n2 int
				p := vrt.TryFast(func() {
					if jb.op == "CDense.Conj" {
						rcv.m.Conj(a)
					} else {
						n1, n2 = rcv.m.Copy(a)
					}
				})
				counts[jb.op]++
				c.Eval(jb.op+"|"+ckinds[jb.ka].name+"|"+stateName[st], true)
				sigp := jb.op + "|a=" + ckinds[jb.ka].name
				fail := func(clause, detail string) {
					// receiver-state dependence: does a plain receiver work?
					plain := stZero
					if jb.op == "CDense.Copy" {
						plain = stExact
					}
					if st != plain {
						r2 := newCRecv(vrt.NewRand(seed^99), plain, rr, rcc, seed)
						a2 := mk(jb.ka, v, 4)
						ok := vrt.TryFast(func() {
							if jb.op == "CDense.Conj" {
								r2.m.Conj(a2)
							} else {
								r2.m.Copy(a2)
							}
						}) == nil
						if ok {
							g2 := readC(r2.m)
							if g2.r == want.r && g2.c == want.c {
								for i := range g2.d {
									if !sameC(g2.d[i], want.d[i]) {
										ok = false
										break
									}
								}
							} else {
								ok = false
							}
						}
						if ok {
							sigp = jb.op + "|recv=" + stateClass(st)
						}
					}
					report(sigp+"|"+clause, detail+" (receiver "+stateName[st]+")")
				}
				if p != nil {
					fail("panic", "panicked: "+p.Msg)
					continue
				}
				got := readC(rcv.m)
				if got.r != want.r || got.c != want.c {
					fail("shape", fmt.Sprintf("result %dx%d, want %dx%d", got.r, got.c, want.r, want.c))
					continue
				}
				if jb.op == "CDense.Copy" && (n1 != min(r, rr) || n2 != min(cc, rcc)) {
					fail("wrong-value", fmt.Sprintf("Copy returned (%d,%d), want (%d,%d)", n1, n2, min(r, rr), min(cc, rcc)))
					continue
				}
				okv := true
				for i := range got.d {
					if !sameC(got.d[i], want.d[i]) {
						fail("wrong-value", fmt.Sprintf("element %d = %v, want %v", i, got.d[i], want.d[i]))
						okv = false
						break
					}
				}
				if okv && rcv.back != nil {
					if k := rcv.outsideWrite(); k >= 0 {
						fail("outside-write", fmt.Sprintf("backing element %d outside the window changed", k))
					}
				}
			}
		}
	}
	for k, n := range counts {
		c.Count("complex_calls."+k, int64(n))
	}
}
