package main

import (
	"math"

	"gonum.org/v1/gonum/verifx/vrt"
)

// filler produces the values written into storage that the operation must
// not address (margins of views, unused band corners, the unreferenced
// triangle of symmetric/triangular storage). Half of the cases use payload
// NaNs (a read shows up as NaN in the result), the other half large finite
// values (a NaN is invisible to comparisons such as Max/Min and to "+="
// writes, a finite canary is not).
type filler struct {
	g   *vrt.Rand
	nan bool
	n   int
}

func newFiller(g *vrt.Rand, nan bool) *filler { return &filler{g: g, nan: nan} }

func (f *filler) next() float64 {
	f.n++
	if f.nan {
		return vrt.Taint(f.n)
	}
	x := 1e9 * (1 + f.g.Float64())
	if f.g.Bool() {
		x = -x
	}
	return x
}

func (f *filler) slice(n int) []float64 {
	s := make([]float64, n)
	for i := range s {
		s[i] = f.next()
	}
	return s
}

func (f *filler) cslice(n int) []complex128 {
	s := make([]complex128, n)
	for i := range s {
		s[i] = complex(f.next(), f.next())
	}
	return s
}

// snapshot is an XOR-masked copy of the bit patterns of a backing array (a
// plain copy sitting right behind the original in memory could make an
// over-read return "correct" values).
type snapshot struct {
	bits []uint64
	mask uint64
}

func takeSnapshot(s []float64, mask uint64) snapshot {
	b := make([]uint64, len(s))
	for i, v := range s {
		b[i] = math.Float64bits(v) ^ mask
	}
	return snapshot{b, mask}
}

// firstDiff returns the first index not in the window (inWin(i) false) whose
// bits changed, or -1.
func (sn snapshot) firstDiff(s []float64, inWin func(i int) bool) int {
	for i, v := range s {
		if math.Float64bits(v)^sn.mask != sn.bits[i] {
			if inWin != nil && inWin(i) {
				continue
			}
			return i
		}
	}
	return -1
}

func (sn snapshot) at(i int) float64 { return math.Float64frombits(sn.bits[i] ^ sn.mask) }
