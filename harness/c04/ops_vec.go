package main

import (
	"math"

	"gonum.org/v1/gonum/mat"
	"gonum.org/v1/gonum/verifx/ref"
	"gonum.org/v1/gonum/verifx/vrt"
)

func colOf(d []float64) *ref.M { return &ref.M{R: len(d), C: 1, D: d} }

func init() {
	vv := []slot{{name: "a", t: sVector}, {name: "b", t: sVector}}
	vecPats := []pattern{
		pat(true, "1,1", "1,1", "1,1"),
		pat(true, "a,1", "a,1", "a,1"),
		pat(true, "a,1", "1,a", "a,1"),
		pat(true, "a,1", "a,1", "1,a"),
		pat(true, "a,1", "1,a", "1,a"),
	}
	vecElem := func(f func(a, b float64) float64) func(x *caseX) bool {
		return func(x *caseX) bool {
			a, b := x.val[0].D, x.val[1].D
			w := make([]float64, len(a))
			for i := range w {
				w[i] = f(a[i], b[i])
			}
			x.want = colOf(w)
			return true
		}
	}
	V := func(x *caseX, i int) mat.Vector { return x.obj[i].(mat.Vector) }

	addOp(&opSpec{name: "VecDense.AddVec", recv: rVec, slots: vv, pats: vecPats,
		model: vecElem(func(a, b float64) float64 { return a + b }),
		call:  func(x *caseX) { x.rc.V.AddVec(V(x, 0), V(x, 1)); x.outM = x.rc.V }})
	addOp(&opSpec{name: "VecDense.SubVec", recv: rVec, slots: vv, pats: vecPats,
		model: vecElem(func(a, b float64) float64 { return a - b }),
		call:  func(x *caseX) { x.rc.V.SubVec(V(x, 0), V(x, 1)); x.outM = x.rc.V }})
	addOp(&opSpec{name: "VecDense.MulElemVec", recv: rVec, slots: vv, pats: vecPats,
		model: vecElem(func(a, b float64) float64 { return a * b }),
		call:  func(x *caseX) { x.rc.V.MulElemVec(V(x, 0), V(x, 1)); x.outM = x.rc.V }})
	addOp(&opSpec{name: "VecDense.DivElemVec", recv: rVec, slots: vv, pats: vecPats,
		model: vecElem(func(a, b float64) float64 { return a / b }),
		call:  func(x *caseX) { x.rc.V.DivElemVec(V(x, 0), V(x, 1)); x.outM = x.rc.V }})
	addOp(&opSpec{name: "VecDense.AddScaledVec", recv: rVec, slots: vv, pats: vecPats,
		prm: func(g *vrt.Rand, x *caseX) bool { x.p.alpha = g.PickFloat(1, -1, 0, 0.5, -2.25, 3); return true },
		model: func(x *caseX) bool {
			a, b := x.val[0].D, x.val[1].D
			w := make([]float64, len(a))
			m := make([]float64, len(a))
			for i := range w {
				w[i] = a[i] + x.p.alpha*b[i]
				m[i] = math.Abs(a[i]) + math.Abs(x.p.alpha*b[i])
			}
			x.want, x.mag, x.cu = colOf(w), colOf(m), 6
			return true
		},
		call: func(x *caseX) { x.rc.V.AddScaledVec(V(x, 0), x.alphaS(), V(x, 1)); x.outM = x.rc.V }})

	v1 := []slot{{name: "a", t: sVector}}
	v1Pats := []pattern{
		pat(true, "1,1", "1,1"),
		pat(true, "a,1", "a,1"),
		pat(true, "a,1", "1,a"),
	}
	addOp(&opSpec{name: "VecDense.ScaleVec", recv: rVec, slots: v1, pats: v1Pats,
		prm: func(g *vrt.Rand, x *caseX) bool { x.p.alpha = g.PickFloat(1, -1, 0, 0.5, -2.25, 3); return true },
		model: func(x *caseX) bool {
			a := x.val[0].D
			w := make([]float64, len(a))
			for i := range w {
				w[i] = x.p.alpha * a[i]
			}
			x.want = colOf(w)
			return true
		},
		call: func(x *caseX) { x.rc.V.ScaleVec(x.alphaS(), V(x, 0)); x.outM = x.rc.V }})
	addOp(&opSpec{name: "VecDense.CloneFromVec", recv: rVec, slots: v1, pats: v1Pats,
		model: func(x *caseX) bool { x.want = colOf(append([]float64(nil), x.val[0].D...)); return true },
		call:  func(x *caseX) { x.rc.V.CloneFromVec(V(x, 0)); x.outM = x.rc.V }})
	addOp(&opSpec{name: "VecDenseCopyOf", recv: rNone, slots: v1, pats: v1Pats,
		model: func(x *caseX) bool { x.want = colOf(append([]float64(nil), x.val[0].D...)); return true },
		call:  func(x *caseX) { x.outM = mat.VecDenseCopyOf(V(x, 0)) }})
	addOp(&opSpec{name: "VecDense.CopyVec", recv: rVec, slots: v1, inout: true,
		pats: []pattern{
			pat(true, "1,1", "1,1"),
			pat(true, "a,1", "a,1"),
			pat(true, "a,1", "1,a"),
			pat(true, "a,1", "b,1"),
			pat(false, "a,1", "b,1"),
			pat(true, "a,1", "1,b"),
			pat(false, "a,1", "1,b"),
		},
		model: func(x *caseX) bool {
			a := x.val[0].D
			w := append([]float64(nil), x.prev.D...)
			n := min(len(a), len(w))
			copy(w, a[:n])
			x.want = colOf(w)
			x.wantS = []float64{float64(n)}
			return true
		},
		call: func(x *caseX) { n := x.rc.V.CopyVec(V(x, 0)); x.outM = x.rc.V; x.outS = []float64{float64(n)} }})
	addOp(&opSpec{name: "VecDense.Norm", recv: rNone, slots: []slot{{name: "v", t: sColVector, filter: func(k *kind) bool { return k.class == "*mat.VecDense" }}},
		pats:  []pattern{pat(true, "", "1,1"), pat(true, "", "a,1")},
		modes: 3,
		prm:   func(g *vrt.Rand, x *caseX) bool { x.p.norm = []float64{1, 2, math.Inf(1)}[x.p.mode]; return true },
		model: func(x *caseX) bool {
			a := x.val[0].D
			var w float64
			switch x.p.norm {
			case 1:
				for _, v := range a {
					w += math.Abs(v)
				}
			case 2:
				w = colOf(a).NormFro()
			default:
				for _, v := range a {
					w = math.Max(w, math.Abs(v))
				}
			}
			x.wantS = []float64{w}
			x.tolS = []float64{2 * float64(len(a)+4) * u * w}
			return true
		},
		call: func(x *caseX) { x.outS = []float64{x.obj[0].(*mat.VecDense).Norm(x.p.norm)} }})

	// MulVec: b must be a column (documented panic otherwise).
	addOp(&opSpec{name: "VecDense.MulVec", recv: rVec,
		slots: []slot{{name: "a", t: sMatrix}, {name: "b", t: sColVector}},
		pats: []pattern{
			pat(true, "1,1", "1,1", "1,1"),
			pat(true, "a,1", "a,a", "a,1"),
			pat(true, "a,1", "a,b", "b,1"),
			pat(false, "a,1", "a,b", "b,1"),
			pat(true, "1,1", "1,b", "b,1"),
			pat(true, "a,1", "a,1", "1,1"),
		},
		model: mulModel,
		call:  func(x *caseX) { x.rc.V.MulVec(x.obj[0], V(x, 1)); x.outM = x.rc.V }})

	addOp(&opSpec{name: "VecDense.SolveVec", recv: rVec,
		slots: []slot{{name: "a", t: sMatrix, fl: fDom}, {name: "b", t: sColVector}},
		pats: []pattern{
			pat(true, "1,1", "1,1", "1,1"),
			pat(true, "a,1", "a,a", "a,1"),
			pat(true, "a,1", "b,a", "b,1"),
			pat(false, "a,1", "b,a", "b,1"),
		},
		model: solveModel,
		call:  func(x *caseX) { x.err = x.rc.V.SolveVec(x.obj[0], V(x, 1)); x.outM = x.rc.V }})

	// DiagDense.DiagFrom.
	addOp(&opSpec{name: "DiagDense.DiagFrom", recv: rDiag, slots: []slot{{name: "m", t: sMatrix}},
		pats: []pattern{
			pat(true, "1,1", "1,1"),
			pat(true, "a,a", "a,a"),
			pat(true, "a,a", "a,b"),
			pat(false, "b,b", "a,b"),
			pat(true, "1,1", "a,1"),
			pat(true, "1,1", "1,a"),
		},
		model: func(x *caseX) bool {
			a := x.val[0]
			n := min(a.R, a.C)
			w := ref.New(n, n)
			for i := 0; i < n; i++ {
				w.D[i*n+i] = a.D[i*a.C+i]
			}
			x.want = w
			return true
		},
		call: func(x *caseX) { x.rc.G.DiagFrom(x.obj[0]); x.outM = x.rc.G }})
}
