package main

import (
	"fmt"

	"gonum.org/v1/gonum/blas"
	"gonum.org/v1/gonum/blas/blas64"
	"gonum.org/v1/gonum/lapack/lapack64"
	"gonum.org/v1/gonum/mat"
	"gonum.org/v1/gonum/verifx/ref"
	"gonum.org/v1/gonum/verifx/vrt"
)

// bctx is the context of one operand construction.
type bctx struct {
	g *vrt.Rand
	f *filler
}

func (b *bctx) margin() int { return b.g.Intn(3) }

// guarded returns an n-element slice (cap n) carved from the middle of a
// canary-filled array, so that an assembly kernel running past the end of a
// compact operand reads canaries, not whatever the heap holds there.
func (b *bctx) guarded(n int) []float64 {
	const guard = 8
	back := b.f.slice(guard + n + guard)
	return back[guard : guard+n : guard+n]
}
func (b *bctx) extra() int { return 1 + b.g.Intn(3) }

// kind is one operand representation.
type kind struct {
	name string
	// can reports whether the kind can take the shape r x c.
	can func(r, c int) bool
	// cons returns the structural constraint (with randomly chosen band
	// widths where applicable) of an r x c instance.
	cons func(g *vrt.Rand, r, c int) cons
	// from builds the representation of v, which satisfies cs.
	from func(b *bctx, v *ref.M, cs cons) mat.Matrix
	// fl is the numerical flavour the kind needs (factorizations).
	fl flavor
	// approx: At reproduces the value only to rounding (factorizations).
	approx bool
	// slack: a unit-increment vector whose Data slice is longer than N. mat's
	// unitary assembly kernels take their trip count from len(Data), so such
	// an operand can make them write past the destination; these kinds are
	// only combined with receivers that sit inside guard margins.
	slack bool

	// filled by probing
	id                     int
	isVector, isSym, isTri bool
	isBanded, isSymBanded  bool
	triUpper               bool
	class                  string // coarse family used in evidence keys
}

func anyShape(r, c int) bool { return r >= 1 && c >= 1 }
func square(r, c int) bool   { return r >= 1 && r == c }
func colVec(r, c int) bool   { return r >= 1 && c == 1 }
func rowVec(r, c int) bool   { return r == 1 && c >= 1 }

func consFull(_ *vrt.Rand, r, c int) cons { return fullCons(r, c) }
func consSym(_ *vrt.Rand, r, c int) cons {
	cs := fullCons(r, c)
	cs.sym = true
	return cs
}
func consUpper(_ *vrt.Rand, r, c int) cons { cs := fullCons(r, c); cs.kl = 0; return cs }
func consLower(_ *vrt.Rand, r, c int) cons { cs := fullCons(r, c); cs.ku = 0; return cs }
func consUnitUpper(g *vrt.Rand, r, c int) cons {
	cs := consUpper(g, r, c)
	cs.unit = true
	return cs
}
func consUnitLower(g *vrt.Rand, r, c int) cons {
	cs := consLower(g, r, c)
	cs.unit = true
	return cs
}
func consDiag(_ *vrt.Rand, r, c int) cons { return cons{r: r, c: c} }
func consTridiag(_ *vrt.Rand, r, c int) cons {
	return cons{r: r, c: c, kl: min(1, r-1), ku: min(1, c-1)}
}
func consBand(g *vrt.Rand, r, c int) cons {
	return cons{r: r, c: c, kl: g.Intn(r), ku: g.Intn(c)}
}
func consSymBand(g *vrt.Rand, r, c int) cons {
	k := g.Intn(r)
	return cons{r: r, c: c, kl: k, ku: k, sym: true}
}
func consTriBandU(g *vrt.Rand, r, c int) cons { return cons{r: r, c: c, ku: g.Intn(r)} }
func consTriBandL(g *vrt.Rand, r, c int) cons { return cons{r: r, c: c, kl: g.Intn(r)} }
func consUnitTriBandU(g *vrt.Rand, r, c int) cons {
	cs := consTriBandU(g, r, c)
	cs.unit = true
	return cs
}
func consUnitTriBandL(g *vrt.Rand, r, c int) cons {
	cs := consTriBandL(g, r, c)
	cs.unit = true
	return cs
}

// transposed returns the constraint of the transpose.
func (cs cons) transposed() cons {
	return cons{r: cs.c, c: cs.r, kl: cs.ku, ku: cs.kl, sym: cs.sym, unit: cs.unit}
}

// ---------------------------------------------------------------------------
// Storage writers. Layouts follow the documented row-major schemes of
// blas64.{General,Symmetric,Triangular,Band,SymmetricBand,TriangularBand}.

// general returns a row-major window holding v inside a canary-filled
// backing array. stride > cols unless compact; slack adds unused elements
// after the last addressed one.
func (b *bctx) general(v *ref.M, compact, slack bool) blas64.General {
	r, c := v.R, v.C
	if compact {
		d := b.guarded(r * c)
		copy(d, v.D)
		return blas64.General{Rows: r, Cols: c, Stride: c, Data: d}
	}
	stride := c + b.extra()
	head := b.g.Intn(stride + 1)
	n := (r-1)*stride + c
	tail := b.g.Intn(stride + 1)
	back := b.f.slice(head + n + tail)
	for i := 0; i < r; i++ {
		copy(back[head+i*stride:head+i*stride+c], v.D[i*c:(i+1)*c])
	}
	end := head + n
	if slack {
		end = len(back)
	}
	return blas64.General{Rows: r, Cols: c, Stride: stride, Data: back[head:end:end]}
}

// viewDense returns v as Slice(i0,i0+r,j0,j0+c) of a larger canary-filled Dense.
func (b *bctx) viewDense(v *ref.M) *mat.Dense {
	r, c := v.R, v.C
	i0, j0 := b.margin(), b.margin()
	R, C := i0+r+b.margin(), j0+c+b.extra()
	back := b.f.slice(R * C)
	for i := 0; i < r; i++ {
		copy(back[(i0+i)*C+j0:(i0+i)*C+j0+c], v.D[i*c:(i+1)*c])
	}
	big := mat.NewDense(R, C, back)
	return big.Slice(i0, i0+r, j0, j0+c).(*mat.Dense)
}

func (b *bctx) grownDense(v *ref.M) *mat.Dense {
	r, c := v.R, v.C
	i0, j0 := b.margin(), b.margin()
	R, C := i0+r+b.margin(), j0+c+b.extra()
	back := b.f.slice(R * C)
	for i := 0; i < r; i++ {
		copy(back[(i0+i)*C+j0:(i0+i)*C+j0+c], v.D[i*c:(i+1)*c])
	}
	big := mat.NewDense(R, C, back)
	r0, c0 := 1+b.g.Intn(r), 1+b.g.Intn(c)
	s := big.Slice(i0, i0+r0, j0, j0+c0).(*mat.Dense)
	return s.Grow(r-r0, c-c0).(*mat.Dense)
}

// symStorage writes the uplo triangle of v into a square window; the other
// triangle holds canaries.
func (b *bctx) triStorage(v *ref.M, upper, compact, unit bool) (data []float64, stride int) {
	n := v.R
	var back []float64
	head := 0
	if compact {
		stride = n
		back = b.guarded(n * n)
	} else {
		stride = n + b.extra()
		head = b.g.Intn(stride + 1)
		back = b.f.slice(head + (n-1)*stride + n + b.g.Intn(stride+1))
	}
	for i := 0; i < n; i++ {
		for j := 0; j < n; j++ {
			if (upper && j >= i) || (!upper && j <= i) {
				if unit && i == j {
					continue // the diagonal of unit storage is never referenced
				}
				back[head+i*stride+j] = v.D[i*n+j]
			}
		}
	}
	end := head + (n-1)*stride + n
	return back[head:end:end], stride
}

func uplo(upper bool) blas.Uplo {
	if upper {
		return blas.Upper
	}
	return blas.Lower
}

func (b *bctx) symDense(v *ref.M, compact bool) *mat.SymDense {
	data, stride := b.triStorage(v, true, compact, false)
	if compact {
		return mat.NewSymDense(v.R, data)
	}
	var s mat.SymDense
	s.SetRawSymmetric(blas64.Symmetric{N: v.R, Stride: stride, Data: data, Uplo: blas.Upper})
	return &s
}

// symView returns v as SliceSym of a larger SymDense.
func (b *bctx) symView(v *ref.M) *mat.SymDense {
	n := v.R
	i0 := b.margin()
	N := i0 + n + 1 + b.g.Intn(2)
	back := b.f.slice(N * N)
	for i := 0; i < n; i++ {
		for j := i; j < n; j++ {
			back[(i0+i)*N+i0+j] = v.D[i*n+j]
		}
	}
	big := mat.NewSymDense(N, back)
	return big.SliceSym(i0, i0+n).(*mat.SymDense)
}

func (b *bctx) triDense(v *ref.M, upper, compact bool) *mat.TriDense {
	n := v.R
	if compact {
		data, _ := b.triStorage(v, upper, true, false)
		return mat.NewTriDense(n, mat.TriKind(upper), data)
	}
	// SliceTri view of a larger TriDense.
	i0 := b.margin()
	N := i0 + n + 1 + b.g.Intn(2)
	back := b.f.slice(N * N)
	for i := 0; i < n; i++ {
		for j := 0; j < n; j++ {
			if (upper && j >= i) || (!upper && j <= i) {
				back[(i0+i)*N+i0+j] = v.D[i*n+j]
			}
		}
	}
	big := mat.NewTriDense(N, mat.TriKind(upper), back)
	return big.SliceTri(i0, i0+n).(*mat.TriDense)
}

// bandStorage writes the band of v: element (i,j) at data[i*stride + kl + j - i].
func (b *bctx) bandStorage(v *ref.M, kl, ku int, compact bool) blas64.Band {
	r, c := v.R, v.C
	rows := min(r, c+kl)
	w := kl + ku + 1
	stride := w
	head := 0
	var back []float64
	if compact {
		back = b.guarded(rows * w)
	} else {
		stride = w + b.extra()
		head = b.g.Intn(stride + 1)
		back = b.f.slice(head + rows*stride + b.g.Intn(stride+1))
	}
	for i := 0; i < rows; i++ {
		for j := max(0, i-kl); j < min(c, i+ku+1); j++ {
			back[head+i*stride+kl+j-i] = v.D[i*c+j]
		}
	}
	data := back[head:]
	if compact {
		data = back
	}
	return blas64.Band{Rows: r, Cols: c, KL: kl, KU: ku, Stride: stride, Data: data}
}

// symBandStorage writes the stored triangle of the symmetric (or triangular)
// band matrix v with bandwidth k. Upper: (i,j), j>=i at data[i*stride + j-i];
// lower: (i,j), j<=i at data[i*stride + k + j-i].
func (b *bctx) symBandStorage(v *ref.M, k int, upper, compact, unit bool) (data []float64, stride int) {
	n := v.R
	w := k + 1
	stride = w
	head := 0
	var back []float64
	if compact {
		back = b.guarded(n * w)
	} else {
		stride = w + b.extra()
		head = b.g.Intn(stride + 1)
		back = b.f.slice(head + n*stride + b.g.Intn(stride+1))
	}
	for i := 0; i < n; i++ {
		if upper {
			for j := i; j < min(n, i+k+1); j++ {
				if unit && i == j {
					continue
				}
				back[head+i*stride+j-i] = v.D[i*n+j]
			}
		} else {
			for j := max(0, i-k); j <= i; j++ {
				if unit && i == j {
					continue
				}
				back[head+i*stride+k+j-i] = v.D[i*n+j]
			}
		}
	}
	if compact {
		return back, stride
	}
	return back[head:], stride
}

// vector returns v (n x 1) as a strided vector in a canary-filled array.
func (b *bctx) vector(v *ref.M, inc int, slack bool) blas64.Vector {
	n := v.R * v.C
	head := 8 + b.g.Intn(3)
	need := (n-1)*inc + 1
	tail := 0
	if slack {
		tail = 1 + b.g.Intn(2*inc+2)
	}
	back := b.f.slice(head + need + tail + 8)
	for i := 0; i < n; i++ {
		back[head+i*inc] = v.D[i]
	}
	end := head + need + tail
	return blas64.Vector{N: n, Inc: inc, Data: back[head:end:end]}
}

func (b *bctx) vecDense(v *ref.M, how string) *mat.VecDense {
	n := v.R * v.C
	switch how {
	case "compact":
		d := b.guarded(n)
		copy(d, v.D)
		return mat.NewVecDense(n, d)
	case "col": // ColView of a wider Dense
		j0 := b.margin()
		C := j0 + 1 + b.extra()
		i0 := b.margin()
		R := i0 + n + b.margin()
		back := b.f.slice(R * C)
		for i := 0; i < n; i++ {
			back[(i0+i)*C+j0] = v.D[i]
		}
		big := mat.NewDense(R, C, back)
		d := big.Slice(i0, i0+n, 0, C).(*mat.Dense)
		return d.ColView(j0).(*mat.VecDense)
	case "row": // RowView of a larger Dense
		i0 := b.margin()
		R := i0 + 1 + b.margin()
		j0 := b.margin()
		C := j0 + n + b.extra()
		back := b.f.slice(R * C)
		copy(back[i0*C+j0:], v.D[:n])
		big := mat.NewDense(R, C, back)
		d := big.Slice(0, R, j0, j0+n).(*mat.Dense)
		return d.RowView(i0).(*mat.VecDense)
	case "slice": // SliceVec of a longer strided vector
		inc := 1 + b.extra()
		i0 := b.margin()
		N := i0 + n + b.margin()
		back := b.f.slice((N-1)*inc + 1)
		for i := 0; i < n; i++ {
			back[(i0+i)*inc] = v.D[i]
		}
		var long mat.VecDense
		long.SetRawVector(blas64.Vector{N: N, Inc: inc, Data: back})
		return long.SliceVec(i0, i0+n).(*mat.VecDense)
	case "slack1": // inc == 1, Data longer than N
		var w mat.VecDense
		w.SetRawVector(b.vector(v, 1, true))
		return &w
	case "slackinc":
		var w mat.VecDense
		w.SetRawVector(b.vector(v, 1+b.extra(), true))
		return &w
	}
	panic("c04: bad vecDense mode " + how)
}

func (b *bctx) tridiag(v *ref.M) lapack64.Tridiagonal {
	n := v.R
	back := b.f.slice(3*n + 6)
	dl := back[1 : 1+max(n-1, 0) : 1+max(n-1, 0)]
	d := back[n+2 : 2*n+2 : 2*n+2]
	du := back[2*n+4 : 2*n+4+max(n-1, 0) : 2*n+4+max(n-1, 0)]
	for i := 0; i < n; i++ {
		d[i] = v.D[i*n+i]
		if i+1 < n {
			du[i] = v.D[i*n+i+1]
			dl[i] = v.D[(i+1)*n+i]
		}
	}
	return lapack64.Tridiagonal{N: n, DL: dl, D: d, DU: du}
}

// ---------------------------------------------------------------------------

func tr(m mat.Matrix) mat.Matrix { return mat.Transpose{Matrix: m} }

var kinds []*kind
var kindByName = map[string]*kind{}

func addKind(k *kind) {
	if k.can == nil || k.cons == nil || k.from == nil {
		panic("c04: incomplete kind " + k.name)
	}
	if kindByName[k.name] != nil {
		panic("c04: duplicate kind " + k.name)
	}
	k.id = len(kinds)
	kinds = append(kinds, k)
	kindByName[k.name] = k
}

// viaT registers the kind "name" whose instances are wrap(inner instance of
// the transposed value).
func viaT(name string, inner *kind, wrap func(m mat.Matrix) mat.Matrix) {
	addKind(&kind{
		name: name,
		can:  func(r, c int) bool { return inner.can(c, r) },
		cons: func(g *vrt.Rand, r, c int) cons { return inner.cons(g, c, r).transposed() },
		from: func(b *bctx, v *ref.M, cs cons) mat.Matrix {
			return wrap(inner.from(b, v.T(), cs.transposed()))
		},
		fl: inner.fl, approx: inner.approx, slack: inner.slack,
	})
}

func init() {
	// ---- general shapes ----------------------------------------------------
	addKind(&kind{name: "Dense", can: anyShape, cons: consFull,
		from: func(b *bctx, v *ref.M, _ cons) mat.Matrix {
			g := b.general(v, true, false)
			return mat.NewDense(g.Rows, g.Cols, g.Data)
		}})
	addKind(&kind{name: "DenseView", can: anyShape, cons: consFull,
		from: func(b *bctx, v *ref.M, _ cons) mat.Matrix { return b.viewDense(v) }})
	addKind(&kind{name: "DenseGrown", can: anyShape, cons: consFull,
		from: func(b *bctx, v *ref.M, _ cons) mat.Matrix { return b.grownDense(v) }})
	addKind(&kind{name: "DenseRaw", can: anyShape, cons: consFull,
		from: func(b *bctx, v *ref.M, _ cons) mat.Matrix {
			var d mat.Dense
			d.SetRawMatrix(b.general(v, false, true))
			return &d
		}})
	viaT("T(DenseView)", kindByName["DenseView"], func(m mat.Matrix) mat.Matrix { return m.T() })
	viaT("T(Dense)", kindByName["Dense"], func(m mat.Matrix) mat.Matrix { return m.T() })
	addKind(&kind{name: "T(T(DenseView))", can: anyShape, cons: consFull,
		from: func(b *bctx, v *ref.M, _ cons) mat.Matrix { return tr(tr(b.viewDense(v))) }})
	addKind(&kind{name: "Basic", can: anyShape, cons: consFull,
		from: func(b *bctx, v *ref.M, _ cons) mat.Matrix { return &basicM{valM{v.Clone()}} }})
	viaT("T(Basic)", kindByName["Basic"], func(m mat.Matrix) mat.Matrix { return m.T() })
	addKind(&kind{name: "RawM", can: anyShape, cons: consFull,
		from: func(b *bctx, v *ref.M, _ cons) mat.Matrix {
			return &rawM{valM{v.Clone()}, b.general(v, false, b.g.Bool())}
		}})
	viaT("T(RawM)", kindByName["RawM"], func(m mat.Matrix) mat.Matrix { return m.T() })
	addKind(&kind{name: "Band", can: anyShape, cons: consBand,
		from: func(b *bctx, v *ref.M, cs cons) mat.Matrix {
			raw := b.bandStorage(v, cs.kl, cs.ku, true)
			return mat.NewBandDense(raw.Rows, raw.Cols, raw.KL, raw.KU, raw.Data)
		}})
	addKind(&kind{name: "BandRaw", can: anyShape, cons: consBand,
		from: func(b *bctx, v *ref.M, cs cons) mat.Matrix {
			var bd mat.BandDense
			bd.SetRawBand(b.bandStorage(v, cs.kl, cs.ku, false))
			return &bd
		}})
	viaT("T(BandRaw)", kindByName["BandRaw"], func(m mat.Matrix) mat.Matrix { return m.T() })
	viaT("TBand(BandRaw)", kindByName["BandRaw"], func(m mat.Matrix) mat.Matrix { return m.(mat.Banded).TBand() })
	addKind(&kind{name: "UserBand", can: anyShape, cons: consBand,
		from: func(b *bctx, v *ref.M, cs cons) mat.Matrix {
			return &rawBand{valM{v.Clone()}, b.bandStorage(v, cs.kl, cs.ku, false)}
		}})
	viaT("T(UserBand)", kindByName["UserBand"], func(m mat.Matrix) mat.Matrix { return m.T() })
	viaT("TBand(UserBand)", kindByName["UserBand"], func(m mat.Matrix) mat.Matrix { return m.(mat.Banded).TBand() })
	addKind(&kind{name: "BasicBand", can: anyShape, cons: consBand,
		from: func(b *bctx, v *ref.M, cs cons) mat.Matrix {
			return &basicBand{valM{v.Clone()}, cs.kl, cs.ku}
		}})
	addKind(&kind{name: "QR", can: func(r, c int) bool { return r >= c && c >= 1 }, cons: consFull, approx: true,
		from: func(b *bctx, v *ref.M, _ cons) mat.Matrix {
			var qr mat.QR
			qr.Factorize(b.viewDense(v))
			return &qr
		}})
	viaT("T(QR)", kindByName["QR"], func(m mat.Matrix) mat.Matrix { return m.T() })
	addKind(&kind{name: "LQ", can: func(r, c int) bool { return c >= r && r >= 1 }, cons: consFull, approx: true,
		from: func(b *bctx, v *ref.M, _ cons) mat.Matrix {
			var lq mat.LQ
			lq.Factorize(b.viewDense(v))
			return &lq
		}})

	// ---- square: symmetric -------------------------------------------------
	addKind(&kind{name: "Sym", can: square, cons: consSym,
		from: func(b *bctx, v *ref.M, _ cons) mat.Matrix { return b.symDense(v, true) }})
	addKind(&kind{name: "SymRaw", can: square, cons: consSym,
		from: func(b *bctx, v *ref.M, _ cons) mat.Matrix { return b.symDense(v, false) }})
	addKind(&kind{name: "SymView", can: square, cons: consSym,
		from: func(b *bctx, v *ref.M, _ cons) mat.Matrix { return b.symView(v) }})
	addKind(&kind{name: "SymGrown", can: square, cons: consSym,
		from: func(b *bctx, v *ref.M, _ cons) mat.Matrix {
			// GrowSym within the capacity of a slice of a larger SymDense.
			n := v.R
			i0 := b.margin()
			N := i0 + n + 1 + b.g.Intn(2)
			back := b.f.slice(N * N)
			for i := 0; i < n; i++ {
				for j := i; j < n; j++ {
					back[(i0+i)*N+i0+j] = v.D[i*n+j]
				}
			}
			n0 := 1 + b.g.Intn(n)
			s := mat.NewSymDense(N, back).SliceSym(i0, i0+n0).(*mat.SymDense)
			return s.GrowSym(n - n0).(*mat.SymDense)
		}})
	addKind(&kind{name: "T(SymView)", can: square, cons: consSym,
		from: func(b *bctx, v *ref.M, _ cons) mat.Matrix { return tr(b.symView(v)) }})
	addKind(&kind{name: "BasicSym", can: square, cons: consSym,
		from: func(b *bctx, v *ref.M, _ cons) mat.Matrix { return &basicSym{valM{v.Clone()}} }})
	addKind(&kind{name: "UserSymU", can: square, cons: consSym,
		from: func(b *bctx, v *ref.M, _ cons) mat.Matrix {
			data, stride := b.triStorage(v, true, false, false)
			return &rawSym{valM{v.Clone()}, blas64.Symmetric{N: v.R, Stride: stride, Data: data, Uplo: blas.Upper}}
		}})
	addKind(&kind{name: "UserSymL", can: square, cons: consSym,
		from: func(b *bctx, v *ref.M, _ cons) mat.Matrix {
			data, stride := b.triStorage(v, false, false, false)
			return &rawSym{valM{v.Clone()}, blas64.Symmetric{N: v.R, Stride: stride, Data: data, Uplo: blas.Lower}}
		}})
	addKind(&kind{name: "T(UserSymL)", can: square, cons: consSym,
		from: func(b *bctx, v *ref.M, _ cons) mat.Matrix {
			data, stride := b.triStorage(v, false, false, false)
			return tr(&rawSym{valM{v.Clone()}, blas64.Symmetric{N: v.R, Stride: stride, Data: data, Uplo: blas.Lower}})
		}})

	// ---- square: triangular ------------------------------------------------
	for _, up := range []bool{true, false} {
		up := up
		sfx, cf, ucf := "L", consLower, consUnitLower
		if up {
			sfx, cf, ucf = "U", consUpper, consUnitUpper
		}
		addKind(&kind{name: "Tri" + sfx, can: square, cons: cf,
			from: func(b *bctx, v *ref.M, _ cons) mat.Matrix { return b.triDense(v, up, true) }})
		addKind(&kind{name: "TriView" + sfx, can: square, cons: cf,
			from: func(b *bctx, v *ref.M, _ cons) mat.Matrix { return b.triDense(v, up, false) }})
		addKind(&kind{name: "BasicTri" + sfx, can: square, cons: cf,
			from: func(b *bctx, v *ref.M, _ cons) mat.Matrix { return &basicTri{valM{v.Clone()}, up} }})
		addKind(&kind{name: "UserTri" + sfx, can: square, cons: cf,
			from: func(b *bctx, v *ref.M, _ cons) mat.Matrix {
				data, stride := b.triStorage(v, up, false, false)
				return &rawTri{valM{v.Clone()}, blas64.Triangular{N: v.R, Stride: stride, Data: data, Uplo: uplo(up), Diag: blas.NonUnit}}
			}})
		addKind(&kind{name: "UserUnitTri" + sfx, can: square, cons: ucf,
			from: func(b *bctx, v *ref.M, _ cons) mat.Matrix {
				data, stride := b.triStorage(v, up, false, true)
				return &rawTri{valM{v.Clone()}, blas64.Triangular{N: v.R, Stride: stride, Data: data, Uplo: uplo(up), Diag: blas.Unit}}
			}})
	}
	// Transposes of triangular kinds (the transpose of TriViewL is upper...).
	viaT("T(TriViewL)", kindByName["TriViewL"], func(m mat.Matrix) mat.Matrix { return m.T() })
	viaT("T(TriViewU)", kindByName["TriViewU"], func(m mat.Matrix) mat.Matrix { return m.T() })
	viaT("TTri(TriViewL)", kindByName["TriViewL"], func(m mat.Matrix) mat.Matrix { return m.(mat.Triangular).TTri() })
	viaT("TTri(TriViewU)", kindByName["TriViewU"], func(m mat.Matrix) mat.Matrix { return m.(mat.Triangular).TTri() })
	viaT("TTri(UserTriL)", kindByName["UserTriL"], func(m mat.Matrix) mat.Matrix { return m.(mat.Triangular).TTri() })
	viaT("TTri(UserUnitTriU)", kindByName["UserUnitTriU"], func(m mat.Matrix) mat.Matrix { return m.(mat.Triangular).TTri() })
	viaT("T(UserUnitTriL)", kindByName["UserUnitTriL"], func(m mat.Matrix) mat.Matrix { return m.T() })

	// ---- square: symmetric band ---------------------------------------------
	addKind(&kind{name: "SymBand", can: square, cons: consSymBand,
		from: func(b *bctx, v *ref.M, cs cons) mat.Matrix {
			data, _ := b.symBandStorage(v, cs.ku, true, true, false)
			return mat.NewSymBandDense(v.R, cs.ku, data)
		}})
	addKind(&kind{name: "SymBandRaw", can: square, cons: consSymBand,
		from: func(b *bctx, v *ref.M, cs cons) mat.Matrix {
			data, stride := b.symBandStorage(v, cs.ku, true, false, false)
			var s mat.SymBandDense
			s.SetRawSymBand(blas64.SymmetricBand{N: v.R, K: cs.ku, Stride: stride, Data: data, Uplo: blas.Upper})
			return &s
		}})
	addKind(&kind{name: "UserSymBandU", can: square, cons: consSymBand,
		from: func(b *bctx, v *ref.M, cs cons) mat.Matrix {
			data, stride := b.symBandStorage(v, cs.ku, true, false, false)
			return &rawSymBand{valM{v.Clone()}, blas64.SymmetricBand{N: v.R, K: cs.ku, Stride: stride, Data: data, Uplo: blas.Upper}}
		}})
	addKind(&kind{name: "UserSymBandL", can: square, cons: consSymBand,
		from: func(b *bctx, v *ref.M, cs cons) mat.Matrix {
			data, stride := b.symBandStorage(v, cs.ku, false, false, false)
			return &rawSymBand{valM{v.Clone()}, blas64.SymmetricBand{N: v.R, K: cs.ku, Stride: stride, Data: data, Uplo: blas.Lower}}
		}})

	// ---- square: triangular band ---------------------------------------------
	for _, up := range []bool{true, false} {
		up := up
		sfx, cf, ucf := "L", consTriBandL, consUnitTriBandL
		if up {
			sfx, cf, ucf = "U", consTriBandU, consUnitTriBandU
		}
		kOf := func(cs cons) int {
			if up {
				return cs.ku
			}
			return cs.kl
		}
		addKind(&kind{name: "TriBand" + sfx, can: square, cons: cf,
			from: func(b *bctx, v *ref.M, cs cons) mat.Matrix {
				data, _ := b.symBandStorage(v, kOf(cs), up, true, false)
				return mat.NewTriBandDense(v.R, kOf(cs), mat.TriKind(up), data)
			}})
		addKind(&kind{name: "TriBandRaw" + sfx, can: square, cons: cf,
			from: func(b *bctx, v *ref.M, cs cons) mat.Matrix {
				data, stride := b.symBandStorage(v, kOf(cs), up, false, false)
				var t mat.TriBandDense
				t.SetRawTriBand(blas64.TriangularBand{N: v.R, K: kOf(cs), Stride: stride, Data: data, Uplo: uplo(up), Diag: blas.NonUnit})
				return &t
			}})
		addKind(&kind{name: "UserTriBand" + sfx, can: square, cons: cf,
			from: func(b *bctx, v *ref.M, cs cons) mat.Matrix {
				data, stride := b.symBandStorage(v, kOf(cs), up, false, false)
				return &rawTriBand{valM{v.Clone()}, blas64.TriangularBand{N: v.R, K: kOf(cs), Stride: stride, Data: data, Uplo: uplo(up), Diag: blas.NonUnit}}
			}})
		addKind(&kind{name: "UserUnitTriBand" + sfx, can: square, cons: ucf,
			from: func(b *bctx, v *ref.M, cs cons) mat.Matrix {
				data, stride := b.symBandStorage(v, kOf(cs), up, false, true)
				return &rawTriBand{valM{v.Clone()}, blas64.TriangularBand{N: v.R, K: kOf(cs), Stride: stride, Data: data, Uplo: uplo(up), Diag: blas.Unit}}
			}})
	}
	viaT("T(TriBandRawL)", kindByName["TriBandRawL"], func(m mat.Matrix) mat.Matrix { return m.T() })
	viaT("TTri(TriBandRawU)", kindByName["TriBandRawU"], func(m mat.Matrix) mat.Matrix { return m.(mat.Triangular).TTri() })
	viaT("TBand(TriBandRawL)", kindByName["TriBandRawL"], func(m mat.Matrix) mat.Matrix { return m.(mat.Banded).TBand() })
	viaT("TTriBand(TriBandRawU)", kindByName["TriBandRawU"], func(m mat.Matrix) mat.Matrix { return m.(mat.TriBanded).TTriBand() })
	viaT("TTriBand(TriBandRawL)", kindByName["TriBandRawL"], func(m mat.Matrix) mat.Matrix { return m.(mat.TriBanded).TTriBand() })

	// ---- square: diagonal --------------------------------------------------
	diagVals := func(v *ref.M) []float64 {
		d := make([]float64, v.R)
		for i := range d {
			d[i] = v.D[i*v.C+i]
		}
		return d
	}
	addKind(&kind{name: "Diag", can: square, cons: consDiag,
		from: func(b *bctx, v *ref.M, _ cons) mat.Matrix {
			d := b.guarded(v.R)
			copy(d, diagVals(v))
			return mat.NewDiagDense(v.R, d)
		}})
	addKind(&kind{name: "DiagView", can: square, cons: consDiag,
		from: func(b *bctx, v *ref.M, _ cons) mat.Matrix {
			// DiagView of a Dense view whose off-diagonal elements are canaries.
			n := v.R
			i0, j0 := b.margin(), b.margin()
			R, C := i0+n+b.margin(), j0+n+b.extra()
			back := b.f.slice(R * C)
			for i := 0; i < n; i++ {
				back[(i0+i)*C+j0+i] = v.D[i*n+i]
			}
			big := mat.NewDense(R, C, back)
			return big.Slice(i0, i0+n, j0, j0+n).(*mat.Dense).DiagView()
		}})
	addKind(&kind{name: "TTri(DiagView)", can: square, cons: consDiag,
		from: func(b *bctx, v *ref.M, cs cons) mat.Matrix {
			return kindByName["DiagView"].from(b, v, cs).(mat.Triangular).TTri()
		}})
	addKind(&kind{name: "TBand(Diag)", can: square, cons: consDiag,
		from: func(b *bctx, v *ref.M, cs cons) mat.Matrix {
			return kindByName["Diag"].from(b, v, cs).(mat.Banded).TBand()
		}})
	addKind(&kind{name: "TTriBand(DiagView)", can: square, cons: consDiag,
		from: func(b *bctx, v *ref.M, cs cons) mat.Matrix {
			return kindByName["DiagView"].from(b, v, cs).(mat.TriBanded).TTriBand()
		}})
	addKind(&kind{name: "T(T(Diag))", can: square, cons: consDiag,
		from: func(b *bctx, v *ref.M, cs cons) mat.Matrix {
			return tr(kindByName["Diag"].from(b, v, cs))
		}})

	// ---- square: tridiagonal -------------------------------------------------
	addKind(&kind{name: "Tridiag", can: square, cons: consTridiag,
		from: func(b *bctx, v *ref.M, _ cons) mat.Matrix {
			t := b.tridiag(v)
			return mat.NewTridiag(t.N, t.DL, t.D, t.DU)
		}})
	viaT("T(Tridiag)", kindByName["Tridiag"], func(m mat.Matrix) mat.Matrix { return m.T() })
	viaT("TBand(Tridiag)", kindByName["Tridiag"], func(m mat.Matrix) mat.Matrix { return m.(mat.Banded).TBand() })
	addKind(&kind{name: "UserTridiag", can: square, cons: consTridiag,
		from: func(b *bctx, v *ref.M, _ cons) mat.Matrix { return &rawTridiag{valM{v.Clone()}, b.tridiag(v)} }})
	viaT("T(UserTridiag)", kindByName["UserTridiag"], func(m mat.Matrix) mat.Matrix { return m.T() })

	// ---- square: factorizations used as matrices ----------------------------------
	addKind(&kind{name: "LU", can: square, cons: consFull, approx: true,
		from: func(b *bctx, v *ref.M, _ cons) mat.Matrix {
			var lu mat.LU
			lu.Factorize(b.viewDense(v))
			return &lu
		}})
	viaT("T(LU)", kindByName["LU"], func(m mat.Matrix) mat.Matrix { return m.T() })
	addKind(&kind{name: "Cholesky", can: square, cons: consSym, fl: fSPD, approx: true,
		from: func(b *bctx, v *ref.M, _ cons) mat.Matrix {
			var ch mat.Cholesky
			if !ch.Factorize(b.symView(v)) {
				panic("c04: Cholesky of a dominant matrix failed")
			}
			return &ch
		}})
	addKind(&kind{name: "PivotedCholesky", can: square, cons: consSym, fl: fSPD, approx: true,
		from: func(b *bctx, v *ref.M, _ cons) mat.Matrix {
			var ch mat.PivotedCholesky
			if !ch.Factorize(b.symView(v), -1) {
				panic("c04: PivotedCholesky of a dominant matrix failed")
			}
			return &ch
		}})
	addKind(&kind{name: "BandCholesky", can: square, cons: consSymBand, fl: fSPD, approx: true,
		from: func(b *bctx, v *ref.M, cs cons) mat.Matrix {
			var ch mat.BandCholesky
			if !ch.Factorize(kindByName["SymBandRaw"].from(b, v, cs).(mat.SymBanded)) {
				panic("c04: BandCholesky of a dominant matrix failed")
			}
			return &ch
		}})
	addKind(&kind{name: "EigenSym", can: square, cons: consSym, approx: true,
		from: func(b *bctx, v *ref.M, _ cons) mat.Matrix {
			var e mat.EigenSym
			if !e.Factorize(b.symView(v), true) {
				panic("c04: EigenSym failed")
			}
			return &e
		}})

	// ---- column vectors ------------------------------------------------------
	for _, how := range []string{"compact", "col", "row", "slice", "slack1", "slackinc"} {
		how := how
		addKind(&kind{name: "Vec:" + how, can: colVec, cons: consFull, slack: how == "slack1",
			from: func(b *bctx, v *ref.M, _ cons) mat.Matrix { return b.vecDense(v, how) }})
	}
	addKind(&kind{name: "BasicVec", can: colVec, cons: consFull,
		from: func(b *bctx, v *ref.M, _ cons) mat.Matrix { return &basicVec{valM{v.Clone()}} }})
	addKind(&kind{name: "UserVec", can: colVec, cons: consFull,
		from: func(b *bctx, v *ref.M, _ cons) mat.Matrix {
			return &rawVec{basicVec{valM{v.Clone()}}, b.vector(v, 1, false)}
		}})
	addKind(&kind{name: "UserVecInc", can: colVec, cons: consFull,
		from: func(b *bctx, v *ref.M, _ cons) mat.Matrix {
			return &rawVec{basicVec{valM{v.Clone()}}, b.vector(v, 2+b.g.Intn(3), b.g.Bool())}
		}})
	addKind(&kind{name: "UserVecSlack", can: colVec, cons: consFull, slack: true,
		from: func(b *bctx, v *ref.M, _ cons) mat.Matrix {
			return &rawVec{basicVec{valM{v.Clone()}}, b.vector(v, 1, true)}
		}})
	addKind(&kind{name: "TVec(TVec(Vec:col))", can: colVec, cons: consFull,
		from: func(b *bctx, v *ref.M, _ cons) mat.Matrix {
			return mat.TransposeVec{Vector: mat.TransposeVec{Vector: b.vecDense(v, "col")}}
		}})
	addKind(&kind{name: "T(TVec(Vec:col))", can: colVec, cons: consFull,
		from: func(b *bctx, v *ref.M, _ cons) mat.Matrix {
			return tr(mat.TransposeVec{Vector: b.vecDense(v, "col")})
		}})
	// ---- row vectors -----------------------------------------------------------
	viaT("T(Vec:col)", kindByName["Vec:col"], func(m mat.Matrix) mat.Matrix { return m.T() })
	viaT("T(Vec:compact)", kindByName["Vec:compact"], func(m mat.Matrix) mat.Matrix { return m.T() })
	viaT("TVec(Vec:col)", kindByName["Vec:col"], func(m mat.Matrix) mat.Matrix { return m.(*mat.VecDense).TVec() })
	viaT("TVec(Vec:compact)", kindByName["Vec:compact"], func(m mat.Matrix) mat.Matrix { return m.(*mat.VecDense).TVec() })
	viaT("TVec(BasicVec)", kindByName["BasicVec"], func(m mat.Matrix) mat.Matrix { return mat.TransposeVec{Vector: m.(mat.Vector)} })
	viaT("T(UserVec)", kindByName["UserVec"], func(m mat.Matrix) mat.Matrix { return m.T() })
	viaT("T(UserVecSlack)", kindByName["UserVecSlack"], func(m mat.Matrix) mat.Matrix { return m.T() })
	viaT("T(Vec:slack1)", kindByName["Vec:slack1"], func(m mat.Matrix) mat.Matrix { return m.T() })

	probeKinds()
}

// probeKinds builds one instance of every kind and records which mat
// interfaces its dynamic type satisfies.
func probeKinds() {
	g := vrt.NewRand(12345)
	for _, k := range kinds {
		r, c := 3, 3
		switch {
		case k.can(3, 3):
		case k.can(3, 1):
			r, c = 3, 1
		case k.can(1, 3):
			r, c = 1, 3
		default:
			panic("c04: cannot probe kind " + k.name)
		}
		b := &bctx{g: g, f: newFiller(g, true)}
		cs := k.cons(g, r, c)
		v := genValue(g, cs, k.fl)
		m := k.from(b, v, cs)
		if rr, cc := m.Dims(); rr != r || cc != c {
			panic(fmt.Sprintf("c04: kind %s built %dx%d, want %dx%d", k.name, rr, cc, r, c))
		}
		_, k.isVector = m.(mat.Vector)
		_, k.isSym = m.(mat.Symmetric)
		if t, ok := m.(mat.Triangular); ok {
			k.isTri = true
			_, kd := t.Triangle()
			k.triUpper = kd == mat.Upper
		}
		_, k.isBanded = m.(mat.Banded)
		_, k.isSymBanded = m.(mat.SymBanded)
		k.class = fmt.Sprintf("%T", m)
	}
}
