package main

import (
	"fmt"
	"math"

	"gonum.org/v1/gonum/mat"
	"gonum.org/v1/gonum/verifx/ref"
	"gonum.org/v1/gonum/verifx/vrt"
)

func sumAbs(a *ref.M) float64 {
	var s float64
	for _, v := range a.D {
		s += math.Abs(v)
	}
	return s
}

func ksum(xs []float64) float64 {
	var k vrt.KSum
	for _, v := range xs {
		k.Add(v)
	}
	return k.Sum()
}

func init() {
	m1 := []slot{{name: "a", t: sMatrix}}

	addOp(&opSpec{name: "Sum", slots: m1, pats: unaryPats,
		model: func(x *caseX) bool {
			a := x.val[0]
			x.wantS = []float64{ksum(a.D)}
			x.tolS = []float64{2 * float64(len(a.D)+2) * u * sumAbs(a)}
			return true
		},
		call: func(x *caseX) { x.outS = []float64{mat.Sum(x.obj[0])} }})
	addOp(&opSpec{name: "Max", slots: m1, pats: unaryPats,
		model: func(x *caseX) bool {
			mx := math.Inf(-1)
			for _, v := range x.val[0].D {
				mx = math.Max(mx, v)
			}
			x.wantS = []float64{mx}
			return true
		},
		call: func(x *caseX) { x.outS = []float64{mat.Max(x.obj[0])} }})
	addOp(&opSpec{name: "Min", slots: m1, pats: unaryPats,
		model: func(x *caseX) bool {
			mn := math.Inf(1)
			for _, v := range x.val[0].D {
				mn = math.Min(mn, v)
			}
			x.wantS = []float64{mn}
			return true
		},
		call: func(x *caseX) { x.outS = []float64{mat.Min(x.obj[0])} }})
	addOp(&opSpec{name: "Norm", slots: m1, pats: unaryPats, modes: 3,
		prm: func(g *vrt.Rand, x *caseX) bool { x.p.norm = []float64{1, 2, math.Inf(1)}[x.p.mode]; return true },
		model: func(x *caseX) bool {
			a := x.val[0]
			var w float64
			switch x.p.norm {
			case 1:
				w = a.Norm1()
			case 2:
				w = a.NormFro()
			default:
				w = a.NormInf()
			}
			x.wantS = []float64{w}
			x.tolS = []float64{2 * float64(len(a.D)+4) * u * w}
			return true
		},
		call: func(x *caseX) { x.outS = []float64{mat.Norm(x.obj[0], x.p.norm)} }})
	addOp(&opSpec{name: "Trace", slots: m1, pats: squarePats,
		model: func(x *caseX) bool {
			a := x.val[0]
			d := make([]float64, a.R)
			var s float64
			for i := range d {
				d[i] = a.D[i*a.C+i]
				s += math.Abs(d[i])
			}
			x.wantS = []float64{ksum(d)}
			x.tolS = []float64{2 * float64(a.R+2) * u * s}
			return true
		},
		call: func(x *caseX) { x.outS = []float64{mat.Trace(x.obj[0])} }})

	dom1 := []slot{{name: "a", t: sMatrix, fl: fDom}}
	addOp(&opSpec{name: "Det", slots: dom1, pats: squarePats,
		model: func(x *caseX) bool {
			a := x.val[0]
			kap := condBoundInf(a)
			if !(kap < 1e6) {
				return false
			}
			d := ref.Det(a)
			x.wantS = []float64{d}
			// Det is documented as exp(LogDet)*sign: the rounding of the
			// logarithm costs |log|det|| ulps on top of the LU error (it
			// matters for the scaled value classes, |log| up to 624).
			logd := math.Abs(math.Log(math.Abs(d))) + math.Abs(float64(x.outExp))*math.Ln2
			x.tolS = []float64{(detC*float64(a.R)*kap + 400*logd) * u * math.Abs(d)}
			return true
		},
		call: func(x *caseX) { x.outS = []float64{mat.Det(x.obj[0])} }})
	addOp(&opSpec{name: "LogDet", slots: dom1, pats: squarePats,
		model: func(x *caseX) bool {
			a := x.val[0]
			kap := condBoundInf(a)
			if !(kap < 1e6) {
				return false
			}
			d := ref.Det(a)
			if d == 0 || math.IsInf(d, 0) {
				return false
			}
			sign := 1.0
			if d < 0 {
				sign = -1
			}
			x.wantS = []float64{math.Log(math.Abs(d)), sign}
			x.tolS = []float64{detC * float64(a.R) * u * kap * (1 + math.Abs(math.Log(math.Abs(d)))), 0}
			return true
		},
		call: func(x *caseX) { d, s := mat.LogDet(x.obj[0]); x.outS = []float64{d, s} }})

	// Cond. Norm 2 against the Jacobi SVD; norms 1 and Inf (square only; the
	// non-square 1/Inf estimate is documented as inaccurate) are estimates:
	// they must not exceed the true condition number, and they must agree
	// with the same routine run on a plain compact Dense holding the same
	// values (the routine starts by copying its argument into a Dense).
	addOp(&opSpec{name: "Cond", slots: dom1,
		pats: []pattern{
			pat(true, "", "1,1"),
			pat(true, "", "a,a"),
			pat(true, "", "b,a"),
			pat(false, "", "b,a"),
		},
		modes: 3,
		prm: func(g *vrt.Rand, x *caseX) bool {
			x.p.norm = 2
			if x.dims[0][0] == x.dims[0][1] {
				x.p.norm = []float64{1, 2, math.Inf(1)}[x.p.mode]
			}
			return true
		},
		model: func(x *caseX) bool {
			a := x.val[0]
			if a.R > 40 || a.C > 40 {
				return false
			}
			k2 := ref.Cond2(a)
			if !(k2 < 1e6) {
				return false
			}
			if x.p.norm == 2 {
				x.wantS = []float64{k2}
				x.tolS = []float64{condC * float64(max(a.R, a.C)) * u * k2 * k2}
				return true
			}
			inv, ok := ref.Inverse(a)
			if !ok {
				return false
			}
			var truth float64
			if x.p.norm == 1 {
				truth = a.Norm1() * inv.Norm1()
			} else {
				truth = a.NormInf() * inv.NormInf()
			}
			norm := x.p.norm
			x.check = func(x *caseX) (string, string) {
				got := x.outS[0]
				if !(got <= truth*(1+1e-8)) || !(got >= 1-1e-8) {
					return "wrong-value", fmt.Sprintf("estimate %v outside [1, true condition number %v]", got, truth)
				}
				d := mat.NewDense(a.R, a.C, append([]float64(nil), a.D...))
				plain := mat.Cond(d, norm)
				if !(math.Abs(got-plain) <= 1e-9*k2*plain) {
					return "wrong-value", fmt.Sprintf("estimate %v differs from %v obtained for a compact Dense with the same values", got, plain)
				}
				return "", ""
			}
			return true
		},
		call: func(x *caseX) { x.outS = []float64{mat.Cond(x.obj[0], x.p.norm)} }})

	vv := []slot{{name: "a", t: sVector}, {name: "b", t: sVector}}
	vecPats := []pattern{
		pat(true, "", "1,1", "1,1"),
		pat(true, "", "a,1", "a,1"),
		pat(true, "", "1,a", "a,1"),
		pat(true, "", "a,1", "1,a"),
		pat(true, "", "1,a", "1,a"),
	}
	addOp(&opSpec{name: "Dot", slots: vv, pats: vecPats,
		model: func(x *caseX) bool {
			a, b := x.val[0].D, x.val[1].D
			t := make([]float64, len(a))
			var s float64
			for i := range a {
				t[i] = a[i] * b[i]
				s += math.Abs(t[i])
			}
			x.wantS = []float64{ksum(t)}
			x.tolS = []float64{2 * float64(len(a)+3) * u * s}
			return true
		},
		call: func(x *caseX) { x.outS = []float64{mat.Dot(x.obj[0].(mat.Vector), x.obj[1].(mat.Vector))} }})

	addOp(&opSpec{name: "Inner", slots: []slot{{name: "x", t: sVector}, {name: "a", t: sMatrix}, {name: "y", t: sVector}},
		pats: []pattern{
			pat(true, "", "1,1", "1,1", "1,1"),
			pat(true, "", "a,1", "a,a", "a,1"),
			pat(true, "", "a,1", "a,b", "b,1"),
			pat(false, "", "a,1", "a,b", "b,1"),
			pat(true, "", "1,a", "a,a", "1,a"),
			pat(true, "", "1,a", "a,b", "b,1"),
			pat(true, "", "a,1", "a,1", "1,1"),
			pat(true, "", "1,1", "1,b", "b,1"),
		},
		model: func(x *caseX) bool {
			xv, a, yv := x.val[0].D, x.val[1], x.val[2].D
			t := make([]float64, 0, len(xv)*len(yv))
			var s float64
			for i := range xv {
				for j := range yv {
					p := xv[i] * a.D[i*a.C+j] * yv[j]
					t = append(t, p)
					s += math.Abs(p)
				}
			}
			x.wantS = []float64{ksum(t)}
			x.tolS = []float64{2 * float64(len(t)+4) * u * s}
			return true
		},
		call: func(x *caseX) {
			x.outS = []float64{mat.Inner(x.obj[0].(mat.Vector), x.obj[1], x.obj[2].(mat.Vector))}
		}})

	// Equal / EqualApprox: both operands are representations of one common
	// value (mode 0: must compare equal), or differ in exactly one
	// representable element (mode 1: must compare unequal).
	exact := func(ks []*kind) bool {
		for _, k := range ks {
			if k.approx {
				return false
			}
		}
		return true
	}
	perturb := func(g *vrt.Rand, x *caseX, delta func(v float64) float64) bool {
		cs := x.cons[0].and(x.cons[1])
		var pos [][2]int
		for i := 0; i < cs.r; i++ {
			for j := 0; j < cs.c; j++ {
				if cs.allowed(i, j) && !(cs.unit && i == j) {
					pos = append(pos, [2]int{i, j})
				}
			}
		}
		if len(pos) == 0 {
			return false
		}
		p := pos[g.Intn(len(pos))]
		v := x.ival[1]
		nv := delta(v.D[p[0]*v.C+p[1]])
		v.D[p[0]*v.C+p[1]] = nv
		if cs.sym {
			v.D[p[1]*v.C+p[0]] = nv
		}
		return true
	}
	mm := []slot{{name: "a", t: sMatrix}, {name: "b", t: sMatrix}}
	addOp(&opSpec{name: "Equal", slots: mm, common: true, tupleFilter: exact, modes: 2,
		pats: []pattern{
			pat(true, "", "1,1", "1,1"),
			pat(true, "", "a,a", "a,a"),
			pat(true, "", "a,1", "a,1"),
			pat(true, "", "1,a", "1,a"),
			pat(true, "", "a,b", "a,b"),
			pat(false, "", "a,b", "a,b"),
		},
		fixup: func(g *vrt.Rand, x *caseX) {
			if x.p.mode == 1 {
				if !perturb(g, x, func(v float64) float64 {
					if v+0.5 != v {
						return v + 0.5
					}
					return 1.5 * v
				}) {
					x.p.mode = 0
				}
			}
		},
		model: func(x *caseX) bool { x.wantB = []bool{x.p.mode == 0}; return true },
		call:  func(x *caseX) { x.outB = []bool{mat.Equal(x.obj[0], x.obj[1])} }})
	addOp(&opSpec{name: "EqualApprox", slots: mm, common: true, tupleFilter: exact, modes: 3,
		pats: []pattern{
			pat(true, "", "1,1", "1,1"),
			pat(true, "", "a,a", "a,a"),
			pat(true, "", "a,1", "a,1"),
			pat(true, "", "1,a", "1,a"),
			pat(true, "", "a,b", "a,b"),
			pat(false, "", "a,b", "a,b"),
		},
		prm: func(g *vrt.Rand, x *caseX) bool {
			x.p.eps = g.PickFloat(1e-3, 1e-6, 1e-10)
			return true
		},
		fixup: func(g *vrt.Rand, x *caseX) {
			eps := x.p.eps
			switch x.p.mode {
			case 1: // one element clearly within the tolerance
				if !perturb(g, x, func(v float64) float64 { return v + 0.25*eps*math.Max(1, math.Abs(v)) }) {
					x.p.mode = 0
				}
			case 2: // one element clearly outside the tolerance
				if !perturb(g, x, func(v float64) float64 { return v + 3*eps*math.Max(1, math.Abs(v)) }) {
					x.p.mode = 0
				}
			}
		},
		model: func(x *caseX) bool { x.wantB = []bool{x.p.mode != 2}; return true },
		call:  func(x *caseX) { x.outB = []bool{mat.EqualApprox(x.obj[0], x.obj[1], x.p.eps)} }})

	// Row / Col into nil or exactly sized destinations.
	rowcol := func(row bool) func(x *caseX) bool {
		return func(x *caseX) bool {
			a := x.val[0]
			var w []float64
			if row {
				for j := 0; j < a.C; j++ {
					w = append(w, a.D[x.p.i*a.C+j])
				}
			} else {
				for i := 0; i < a.R; i++ {
					w = append(w, a.D[i*a.C+x.p.j])
				}
			}
			x.wantS = w
			return true
		}
	}
	addOp(&opSpec{name: "Row", slots: m1, pats: unaryPats,
		prm:   func(g *vrt.Rand, x *caseX) bool { x.p.i = g.Intn(x.dims[0][0]); x.p.mode = g.Intn(2); return true },
		model: rowcol(true),
		call: func(x *caseX) {
			var dst []float64
			if x.p.mode == 1 {
				dst = make([]float64, x.dims[0][1])
				for i := range dst {
					dst[i] = vrt.Taint(i)
				}
			}
			x.outS = mat.Row(dst, x.p.i, x.obj[0])
		}})
	addOp(&opSpec{name: "Col", slots: m1, pats: unaryPats,
		prm:   func(g *vrt.Rand, x *caseX) bool { x.p.j = g.Intn(x.dims[0][1]); x.p.mode = g.Intn(2); return true },
		model: rowcol(false),
		call: func(x *caseX) {
			var dst []float64
			if x.p.mode == 1 {
				dst = make([]float64, x.dims[0][0])
				for i := range dst {
					dst[i] = vrt.Taint(i)
				}
			}
			x.outS = mat.Col(dst, x.p.j, x.obj[0])
		}})
}
