package main

// Value classes: a dimension orthogonal to the kind x receiver-state table.
// The same kind tuples are run with operand values that are
//
//	H  near overflow   (every element multiplied by 2^E, E up to 900)
//	T  near underflow  (2^-E)
//	M  mixed           (every element multiplied by its own 2^e, |e| <= 250)
//	Z  signed zeros    (some elements replaced by -0)
//
// H and T use exact power-of-two scalings chosen per operation so that the
// mathematically exact result is representable (2^+-900 at most) although
// squares of the operands are not. Because such a scaling is exact, the
// reference is the reference of the unscaled values multiplied by the
// operation's power of two (and so is the band): the oracle itself can
// neither overflow nor underflow, and an implementation that is correct for
// these magnitudes (scaled norms, products of operands whose product is
// representable) reproduces it to the usual rounding. M and Z keep the
// ordinary models, which are evaluated on the actual values.

import (
	"math"

	"gonum.org/v1/gonum/verifx/ref"
	"gonum.org/v1/gonum/verifx/vrt"
)

const (
	clsN = iota // ordinary magnitudes
	clsH
	clsT
	clsM
	clsZ
)

var clsName = [...]string{"normal", "huge", "tiny", "mixed", "signed-zero"}

const bigE = 900

// scaling returns the exponent of every slot, of the scalar multiplier
// (alpha / f) and of the result for total exponent E; ok=false if the
// operation is not homogeneous (no H/T class).
type scaling func(x *caseX, E int) (slots []int, alpha, out int, ok bool)

func joint(x *caseX, E int) ([]int, int, int, bool) {
	s := make([]int, len(x.kinds))
	for i := range s {
		s[i] = E
	}
	return s, 0, E, true
}

func prod(x *caseX, E int) ([]int, int, int, bool) {
	n := len(x.kinds)
	s := make([]int, n)
	for i := range s {
		s[i] = E / n
	}
	return s, 0, (E / n) * n, true
}

func ratio(x *caseX, E int) ([]int, int, int, bool) { // a/b, A^-1 b, cond
	s, _, _, _ := joint(x, E)
	return s, 0, 0, true
}

func inverse(x *caseX, E int) ([]int, int, int, bool) { return []int{E}, 0, -E, true }

func detScale(x *caseX, E int) ([]int, int, int, bool) {
	n := x.dims[0][0]
	return []int{E / n}, 0, (E / n) * n, true
}

func powScale(x *caseX, E int) ([]int, int, int, bool) {
	n := max(1, x.p.n)
	return []int{E / n}, 0, (E / n) * x.p.n, true
}

// rank updates: slot 0 (if the op has 3 or 2+ slots with a matrix first) at
// E, the vectors / the factor x at E/2.
func rankUpd(first bool) scaling {
	return func(x *caseX, E int) ([]int, int, int, bool) {
		s := make([]int, len(x.kinds))
		for i := range s {
			s[i] = E / 2
		}
		if first {
			s[0] = E
		}
		if len(s) == 1 && !first { // SymOuterK
			return s, 0, (E / 2) * 2, true
		}
		return s, 0, E, true
	}
}

// scaled: result = f * a with an extreme multiplier.
func scaledBy(x *caseX, E int) ([]int, int, int, bool) {
	ae := 300
	if E < 0 {
		ae = -300
	}
	return []int{E - ae}, ae, E, true
}

func addScaled(x *caseX, E int) ([]int, int, int, bool) {
	ae := 300
	if E < 0 {
		ae = -300
	}
	return []int{E, E - ae}, ae, E, true
}

var scalings = map[string]scaling{}

func init() {
	for _, n := range []string{"Dense.Add", "Dense.Sub", "Dense.Product1", "Dense.CloneFrom", "DenseCopyOf", "Dense.Copy",
		"Dense.Stack", "Dense.Augment", "Sum", "Max", "Min", "Norm", "Trace", "Equal", "EqualApprox", "Row", "Col",
		"VecDense.AddVec", "VecDense.SubVec", "VecDense.CloneFromVec", "VecDenseCopyOf", "VecDense.CopyVec", "VecDense.Norm",
		"DiagDense.DiagFrom", "SymDense.AddSym", "SymDense.CopySym", "SymDense.SubsetSym",
		"TriDense.Copy(upper)", "TriDense.Copy(lower)"} {
		scalings[n] = joint
	}
	for _, n := range []string{"Dense.Mul", "Dense.MulElem", "Dense.Product3", "Dense.Product4", "Dense.Kronecker", "Dense.Outer",
		"Dot", "Inner", "VecDense.MulElemVec", "VecDense.MulVec", "TriDense.MulTri",
		"BandDense.MulVecTo", "SymBandDense.MulVecTo", "Tridiag.MulVecTo"} {
		scalings[n] = prod
	}
	for _, n := range []string{"Dense.DivElem", "VecDense.DivElemVec", "Dense.Solve", "VecDense.SolveVec", "Cond",
		"TriDense.SolveTo", "TriBandDense.SolveTo", "Tridiag.SolveTo", "TriBandDense.SolveVecTo", "Tridiag.SolveVecTo"} {
		scalings[n] = ratio
	}
	scalings["Dense.Inverse"] = inverse
	scalings["TriDense.InverseTri"] = inverse
	scalings["Det"] = detScale
	scalings["Dense.Pow"] = powScale
	scalings["Dense.RankOne"] = rankUpd(true)
	scalings["SymDense.SymRankOne"] = rankUpd(true)
	scalings["SymDense.RankTwo"] = rankUpd(true)
	scalings["SymDense.SymRankK"] = rankUpd(true)
	scalings["SymDense.SymOuterK"] = rankUpd(false)
	for _, n := range []string{"Dense.Scale", "VecDense.ScaleVec", "SymDense.ScaleSym", "TriDense.ScaleTri"} {
		scalings[n] = scaledBy
	}
	scalings["VecDense.AddScaledVec"] = addScaled
	// not homogeneous: Dense.Apply, Dense.Exp, LogDet, SymDense.PowPSD.
}

// mixedOK lists the operations whose ordinary model is evaluated on
// element-wise mixed magnitudes (no conditioning involved).
var mixedOK = map[string]bool{}

func init() {
	for _, n := range []string{"Dense.Add", "Dense.Sub", "Dense.MulElem", "Dense.DivElem", "Dense.Mul", "Dense.Product1", "Dense.Product3",
		"Dense.Scale", "Dense.CloneFrom", "DenseCopyOf", "Dense.Copy", "Dense.Stack", "Dense.Augment", "Dense.Kronecker", "Dense.Outer",
		"Sum", "Max", "Min", "Norm", "Trace", "Dot", "Inner", "Equal", "EqualApprox", "Row", "Col",
		"VecDense.AddVec", "VecDense.SubVec", "VecDense.MulElemVec", "VecDense.DivElemVec", "VecDense.ScaleVec", "VecDense.AddScaledVec",
		"VecDense.CloneFromVec", "VecDenseCopyOf", "VecDense.CopyVec", "VecDense.Norm", "VecDense.MulVec",
		"DiagDense.DiagFrom", "SymDense.AddSym", "SymDense.ScaleSym", "SymDense.CopySym", "SymDense.SubsetSym",
		"TriDense.ScaleTri", "TriDense.MulTri", "TriDense.Copy(upper)", "TriDense.Copy(lower)",
		"BandDense.MulVecTo", "SymBandDense.MulVecTo", "Tridiag.MulVecTo"} {
		mixedOK[n] = true
	}
}

// valueClasses lists the classes that apply to o.
func valueClasses(o *opSpec) []int {
	var cs []int
	if scalings[o.name] != nil {
		cs = append(cs, clsH, clsT)
	}
	if mixedOK[o.name] {
		cs = append(cs, clsM)
	}
	return append(cs, clsZ)
}

func ldexpM(m *ref.M, e int) *ref.M {
	o := ref.New(m.R, m.C)
	for i, v := range m.D {
		o.D[i] = math.Ldexp(v, e)
	}
	return o
}

// applyClass transforms the intended values of the case according to its
// value class. It returns false if the class does not apply to the tuple.
func (x *caseX) applyClass(g *vrt.Rand) bool {
	o := x.op
	x.slotExp, x.alphaExp, x.outExp = nil, 0, 0
	switch x.vcls {
	case clsH, clsT:
		E := bigE
		if x.vcls == clsT {
			E = -bigE
		}
		sc := scalings[o.name]
		if sc == nil {
			return false
		}
		se, ae, oe, ok := sc(x, E)
		if !ok {
			return false
		}
		x.slotExp, x.alphaExp, x.outExp = se, ae, oe
		for i := range x.ival {
			if x.cons[i].unit && se[i] != 0 {
				return false // a unit diagonal cannot be scaled
			}
			x.ival[i] = ldexpM(x.ival[i], se[i])
		}
	case clsM:
		for _, k := range x.kinds {
			if k.approx || k.fl != fGen {
				return false
			}
		}
		mix := func(v *ref.M, cs cons) {
			for i := 0; i < v.R; i++ {
				for j := 0; j < v.C; j++ {
					if cs.sym && j < i {
						v.D[i*v.C+j] = v.D[j*v.C+i]
						continue
					}
					if cs.unit && i == j {
						continue
					}
					v.D[i*v.C+j] = math.Ldexp(v.D[i*v.C+j], g.Range(-250, 250))
				}
			}
		}
		if o.common {
			cs := x.cons[0]
			for i := 1; i < len(x.cons); i++ {
				cs = cs.and(x.cons[i])
			}
			mix(x.ival[0], cs)
			for i := 1; i < len(x.ival); i++ {
				x.ival[i] = x.ival[0].Clone()
			}
		} else {
			for i := range x.ival {
				mix(x.ival[i], x.cons[i])
			}
		}
	case clsZ:
		neg := math.Copysign(0, -1)
		zero := func(v *ref.M, cs cons) {
			n := min(v.R, v.C)
			for i := 0; i < v.R; i++ {
				for j := 0; j < v.C; j++ {
					if !cs.allowed(i, j) || (i == j && i < n) {
						continue // keep the structure, the diagonal (dominance, unit)
					}
					if cs.sym && j < i {
						v.D[i*v.C+j] = v.D[j*v.C+i]
						continue
					}
					if v.D[i*v.C+j] == 0 || g.Intn(5) == 0 {
						v.D[i*v.C+j] = neg
					}
				}
			}
		}
		if o.common {
			cs := x.cons[0]
			for i := 1; i < len(x.cons); i++ {
				cs = cs.and(x.cons[i])
			}
			zero(x.ival[0], cs)
			for i := 1; i < len(x.ival); i++ {
				x.ival[i] = x.ival[0].Clone()
			}
		} else {
			for i := range x.ival {
				zero(x.ival[i], x.cons[i])
			}
		}
	}
	return true
}

// fS and alphaS are the scalar multipliers actually passed to gonum.
func (x *caseX) fS() float64     { return math.Ldexp(x.p.f, x.alphaExp) }
func (x *caseX) alphaS() float64 { return math.Ldexp(x.p.alpha, x.alphaExp) }

// runModel evaluates the operation's model. For the H and T classes it is
// evaluated on the exactly unscaled values and its outputs are scaled back.
func (x *caseX) runModel() bool {
	if x.vcls != clsH && x.vcls != clsT {
		return x.op.model(x)
	}
	saved, savedPrev := x.val, x.prev
	u := make([]*ref.M, len(x.val))
	for i, v := range x.val {
		u[i] = ldexpM(v, -x.slotExp[i])
	}
	x.val = u
	if x.prev != nil {
		x.prev = ldexpM(x.prev, -x.outExp)
	}
	ok := x.op.model(x)
	x.val, x.prev = saved, savedPrev
	if !ok {
		return false
	}
	scalarOnly := x.want == nil
	if x.want != nil {
		x.want = ldexpM(x.want, x.outExp)
		if x.mag != nil {
			x.mag = ldexpM(x.mag, x.outExp)
		}
		x.absTol = math.Ldexp(x.absTol, x.outExp)
	}
	if scalarOnly {
		for i := range x.wantS {
			x.wantS[i] = math.Ldexp(x.wantS[i], x.outExp)
			if x.tolS != nil {
				x.tolS[i] = math.Ldexp(x.tolS[i], x.outExp)
			}
		}
	}
	return true
}
