//go:build verif

package main

import (
	"sync/atomic"

	blasgonum "gonum.org/v1/gonum/blas/gonum"
)

var parBlocks [2]atomic.Int64 // [0] Sgemm, [1] Dgemm block goroutines observed

func init() {
	// Evidence that the goroutine-parallel gemm path (>= 4 blocks of C) was
	// really taken by the block-edge shapes.
	blasgonum.VerifSetBlockHook(func(double bool, i, j, leni, lenj int) {
		if double {
			parBlocks[1].Add(1)
		} else {
			parBlocks[0].Add(1)
		}
	})
}
