// Command c01 is the runtime monitor for property C01: every BLAS routine of
// blas/gonum.Implementation (reached directly and through the
// blas64/blas32/cblas128/cblas64 wrappers) computes the reference operation
// on exactly the addressed elements.
package main

import (
	"flag"
	"fmt"
	"math"
	"sort"
	"sync"

	"gonum.org/v1/gonum/blas"
	"gonum.org/v1/gonum/verifx/c01/blasmodel"
	"gonum.org/v1/gonum/verifx/vrt"
)

var mode = flag.String("mode", "", "race: only the parallel (>= 4 block) gemm cases")

func main() { vrt.Main("C01", run) }

// Class value tables (DESIGN §3 C01 "Workload").
var (
	dimsSmall = []int{0, 1, 2, 3, 4, 5, 7, 8, 9, 15, 16, 17, 31, 33}
	dimsLarge = []int{63, 64, 65, 127, 128, 129, 130, 193}
	lensL1Thr = []int{0, 1, 2, 3, 4, 5, 6, 7, 8, 9, 10, 11, 12, 13, 15, 16, 17, 23, 24, 25, 31, 32, 33, 47, 63, 64, 65, 67, 127, 129}
	ldExtras  = []int{0, 1, 5}
	incs      = []int{1, -1, 2, -2, 3, -3, 7}
	scalars   = []complex128{0, 1, -1, 0.7, complex(-1.3, 0.4)}
	scalarTag = []string{"0", "1", "-1", "g", "gc"}
)

// incPairs is every (incX, incY) combination once, plus the all-unit-stride
// pair (the SIMD fast path of every routine) seven more times.
var incPairs = func() [][2]int {
	var p [][2]int
	for _, a := range incs {
		for _, b := range incs {
			p = append(p, [2]int{a, b})
		}
	}
	for i := 0; i < 7; i++ {
		p = append(p, [2]int{1, 1})
	}
	return p
}()

type flagCombo struct {
	side   blas.Side
	uplo   blas.Uplo
	tA, tB blas.Transpose
	diag   blas.Diag
}

func flagCombos(r *blasmodel.Routine) []flagCombo {
	out := []flagCombo{{}}
	mul := func(n int, set func(f *flagCombo, i int)) {
		var next []flagCombo
		for _, f := range out {
			for i := 0; i < n; i++ {
				g := f
				set(&g, i)
				next = append(next, g)
			}
		}
		out = next
	}
	f := r.Fam
	if f.Has(blasmodel.RSide) {
		mul(2, func(f *flagCombo, i int) { f.side = []blas.Side{blas.Left, blas.Right}[i] })
	}
	if f.Has(blasmodel.RUplo) {
		mul(2, func(f *flagCombo, i int) { f.uplo = []blas.Uplo{blas.Upper, blas.Lower}[i] })
	}
	if f.Has(blasmodel.RTransA) {
		ta := r.TransAllowed()
		mul(len(ta), func(f *flagCombo, i int) { f.tA = ta[i] })
	}
	if f.Has(blasmodel.RTransB) {
		mul(3, func(f *flagCombo, i int) { f.tB = []blas.Transpose{blas.NoTrans, blas.Trans, blas.ConjTrans}[i] })
	}
	if f.Has(blasmodel.RDiag) {
		mul(2, func(f *flagCombo, i int) { f.diag = []blas.Diag{blas.NonUnit, blas.Unit}[i] })
	}
	return out
}

// balanced returns a sequence of n class indices in [0,k) made of
// concatenated random permutations, so that every class value is used
// floor(n/k) or ceil(n/k) times.
func balanced(r *vrt.Rand, k, n int) []int {
	out := make([]int, 0, n+k)
	for len(out) < n {
		out = append(out, r.Perm(k)...)
	}
	return out[:n]
}

type job struct {
	r     *blasmodel.Routine
	ri    int
	fc    flagCombo
	ci    int
	reps  int
	large bool // dims from the large table (block edges, parallel gemm)
	fixed []blasmodel.Params
}

type stats struct {
	mu       sync.Mutex
	ratio    [4]float64
	ratioBy  map[string]float64
	perFam   map[string]int64
	trivial  int64
	total    int64
	routines map[string]bool
	viaWrap  int64
	guarded  int64
	pairs    map[string]bool
}

func run(c *vrt.Ctx) {
	targets := map[blasmodel.Prec][]*blasmodel.Target{}
	for _, p := range []blasmodel.Prec{blasmodel.S, blasmodel.D, blasmodel.C, blasmodel.Z} {
		targets[p] = []*blasmodel.Target{blasmodel.Gonum}
		if w := wrapperTarget(p); w != nil {
			targets[p] = append(targets[p], w)
		}
	}
	st := &stats{ratioBy: map[string]float64{}, perFam: map[string]int64{}, routines: map[string]bool{}, pairs: map[string]bool{}}

	var jobs []job
	raceOnly := *mode == "race"
	for ri, r := range blasmodel.Routines() {
		for ci, fc := range flagCombos(r) {
			if !raceOnly {
				reps := c.Pick(56, 1100)
				switch r.Fam.Level {
				case 1:
					reps = c.Pick(400, 6000)
				case 2:
					reps = c.Pick(96, 2000)
				}
				switch r.Fam.Name {
				case "rotg", "rotmg":
					reps = c.Pick(1500, 30000)
				}
				jobs = append(jobs, job{r: r, ri: ri, fc: fc, ci: ci, reps: reps})
			}
			if hasLarge(r) {
				if fx := fixedLarge(c, r, fc, raceOnly); len(fx) > 0 {
					jobs = append(jobs, job{r: r, ri: ri, fc: fc, ci: ci, fixed: fx})
				}
				if c.Thorough() && !raceOnly {
					jobs = append(jobs, job{r: r, ri: ri, fc: fc, ci: ci, reps: 8, large: true})
				}
			}
		}
	}
	// Large jobs first so that the tail of the parallel run is made of small ones.
	sort.SliceStable(jobs, func(i, j int) bool {
		wi, wj := jobs[i].large || jobs[i].fixed != nil, jobs[j].large || jobs[j].fixed != nil
		return wi && !wj
	})
	vrt.Parallel(len(jobs), func(i int) { runJob(c, st, targets, &jobs[i]) })

	c.Note("routines_exercised", len(st.routines))
	c.Note("routines_in_model", len(blasmodel.Routines()))
	c.Note("calls_per_family", st.perFam)
	c.Note("calls_total", st.total)
	c.Note("calls_quick_return", st.trivial)
	c.Note("calls_via_wrapper_packages", st.viaWrap)
	c.Note("calls_with_guard_page_operands", st.guarded)
	c.Note("max_band_ratio", map[string]float64{"S": st.ratio[0], "D": st.ratio[1], "C": st.ratio[2], "Z": st.ratio[3]})
	c.Note("class_pairs_covered", len(st.pairs))
	c.Count("gemm.parallel_block_goroutines.S", parBlocks[0].Load())
	c.Count("gemm.parallel_block_goroutines.D", parBlocks[1].Load())
	if parBlocks[0].Load() == 0 || parBlocks[1].Load() == 0 {
		c.Inconclusive("parallel-gemm", "no block goroutine of the parallel Sgemm/Dgemm was observed")
	}
	top := map[string]float64{}
	for k, v := range st.ratioBy {
		if v > 0.2 {
			top[k] = v
		}
	}
	c.Note("band_ratio_above_0.2_by_routine", top)
	if len(st.routines) != len(blasmodel.Routines()) && !raceOnly {
		c.Inconclusive("coverage", fmt.Sprintf("only %d of %d routines were exercised", len(st.routines), len(blasmodel.Routines())))
	}
}

func hasLarge(r *blasmodel.Routine) bool {
	if r.Fam.Level == 3 {
		return true
	}
	switch r.Fam.Name {
	case "gemv", "ger", "geru", "gerc":
		return true
	}
	return false
}

// fixedLarge returns the block-edge / parallel-threshold shapes that are run
// in every tier: 64 is the gemm block size and a C with >= 4 blocks (65×65,
// 130×70, 64×193, ...) takes the goroutine-parallel path.
func fixedLarge(c *vrt.Ctx, r *blasmodel.Routine, fc flagCombo, raceOnly bool) []blasmodel.Params {
	var shapes [][3]int
	switch r.Fam.Name {
	case "gemm":
		shapes = [][3]int{{65, 65, 3}, {130, 70, 9}, {64, 64, 65}, {63, 129, 1}, {1, 257, 5}, {129, 65, 0}}
		if c.Thorough() {
			shapes = append(shapes, [3]int{193, 65, 64}, [3]int{65, 130, 130}, [3]int{128, 128, 7}, [3]int{66, 191, 65})
		}
		if raceOnly {
			shapes = [][3]int{{65, 65, 3}, {130, 70, 9}, {64, 193, 17}, {129, 129, 65}, {193, 65, 2}}
		}
	case "gemv", "ger", "geru", "gerc":
		if raceOnly {
			return nil
		}
		shapes = [][3]int{{65, 63, 0}, {64, 129, 0}}
	default:
		if raceOnly {
			return nil
		}
		shapes = [][3]int{{65, 64, 3}, {63, 66, 65}}
	}
	var out []blasmodel.Params
	for i, s := range shapes {
		p := blasmodel.Params{Side: fc.side, Uplo: fc.uplo, TransA: fc.tA, TransB: fc.tB, Diag: fc.diag,
			M: s[0], N: s[1], K: s[2]}
		p.Alpha = scalars[3+i%2]
		p.Beta = scalars[(i*2+1)%5]
		p.LdExtra = [3]int{ldExtras[i%3], ldExtras[(i+1)%3], ldExtras[(i+2)%3]}
		p.IncX, p.IncY = incs[i%7], incs[(i+3)%7]
		out = append(out, p)
	}
	return out
}

func kClass(cls, n int) int {
	var k int
	switch cls {
	case 0:
		k = 0
	case 1:
		k = 1
	case 2:
		k = 2
	case 3:
		k = n - 1
	case 4:
		k = n
	default:
		k = n + 2
	}
	if k < 0 {
		k = 0
	}
	return k
}

func runJob(c *vrt.Ctx, st *stats, targets map[blasmodel.Prec][]*blasmodel.Target, j *job) {
	r := j.r
	tl := targets[r.Prec]
	seqR := c.RNG("classes", j.ri, j.ci, boolInt(j.large))
	n := j.reps
	if j.fixed != nil {
		n = len(j.fixed)
	}
	dimTab := dimsSmall
	if r.Fam.Level == 1 && c.Thorough() {
		dimTab = lensL1Thr
	}
	if j.large {
		dimTab = dimsLarge
	}
	sM, sN, sK := balanced(seqR, len(dimTab), n), balanced(seqR, len(dimTab), n), balanced(seqR, len(dimTab), n)
	sKL, sKU := balanced(seqR, 6, n), balanced(seqR, 6, n)
	sLd := [3][]int{balanced(seqR, 3, n), balanced(seqR, 3, n), balanced(seqR, 3, n)}
	sInc := balanced(seqR, len(incPairs), n)
	sAl, sBe := balanced(seqR, len(scalars), n), balanced(seqR, len(scalars), n)
	sMem := balanced(seqR, 8, n)
	sFill := balanced(seqR, 2, n) // half of the cases: finite canaries instead of NaN taint

	var local struct {
		ratio   float64
		trivial int64
		wrap    int64
		guard   int64
		pairs   map[string]bool
	}
	local.pairs = map[string]bool{}
	for rep := 0; rep < n; rep++ {
		// Two streams: one for the parameter choices, one consumed only by
		// NewCall, so that a tuple can be regenerated exactly from p.
		rnd := c.RNG("params", j.ri, j.ci, rep, boolInt(j.large), boolInt(j.fixed != nil))
		caseRNG := func() *vrt.Rand {
			return c.RNG("case", j.ri, j.ci, rep, boolInt(j.large), boolInt(j.fixed != nil))
		}
		var p blasmodel.Params
		var cls string
		if j.fixed != nil {
			p = j.fixed[rep]
			cls = fmt.Sprintf("fixed%d", rep)
		} else {
			p = blasmodel.Params{Side: j.fc.side, Uplo: j.fc.uplo, TransA: j.fc.tA, TransB: j.fc.tB, Diag: j.fc.diag}
			p.M, p.N, p.K = dimTab[sM[rep]], dimTab[sN[rep]], dimTab[sK[rep]]
			if j.large && rep%2 == 1 {
				// mix: one large and otherwise small dims
				p.K = dimsSmall[sK[rep]%len(dimsSmall)]
			}
			if r.Fam.Has(blasmodel.RKL) {
				p.KL, p.KU = kClass(sKL[rep], p.M), kClass(sKU[rep], p.N)
			} else if r.Fam.Level == 2 && r.Fam.Has(blasmodel.RK) {
				p.K = kClass(sKL[rep], p.N)
			}
			p.Alpha, p.Beta = scalars[sAl[rep]], scalars[sBe[rep]]
			if sAl[rep] >= 3 && rnd.Bool() {
				// a fresh generic scalar instead of the fixed one
				p.Alpha = complex(rnd.Uniform(-2, 2), rnd.Uniform(-2, 2))
			}
			p.LdExtra = [3]int{ldExtras[sLd[0][rep]], ldExtras[sLd[1][rep]], ldExtras[sLd[2][rep]]}
			p.IncX, p.IncY = incPairs[sInc[rep]][0], incPairs[sInc[rep]][1]
			// memory class: guard page position / slice longer than necessary / spare capacity
			switch sMem[rep] {
			case 0, 1:
				p.Guard = blasmodel.GuardTail // last required element flush against the guard
			case 2:
				p.Guard, p.LenExtra = blasmodel.GuardHead, 2
			case 3:
				p.CapExtra = 3
			case 4:
				p.LenExtra = 1
			case 5:
				p.LenExtra = 2
			case 6:
				p.LenExtra, p.CapExtra = 2, 3
			case 7:
				p.LenExtra, p.CapExtra = 1, 3
			}
			p.FiniteFill = sFill[rep] == 0
			l1Scalars(r, &p, rnd)
			cls = fmt.Sprintf("m%d n%d k%d kl%d ku%d|ld%d%d%d|inc%d,%d|a%s b%s|mem%d",
				dimClass(p.M), dimClass(p.N), dimClass(p.K), sKL[rep], sKU[rep],
				sLd[0][rep], sLd[1][rep], sLd[2][rep], p.IncX, p.IncY, scalarTag[sAl[rep]], scalarTag[sBe[rep]], sMem[rep]*2+sFill[rep])
			local.pairs[fmt.Sprintf("inc%d,%d", p.IncX, p.IncY)] = true
			local.pairs[fmt.Sprintf("a%s,b%s", scalarTag[sAl[rep]], scalarTag[sBe[rep]])] = true
			local.pairs[fmt.Sprintf("m%d,n%d", dimClass(p.M), dimClass(p.N))] = true
			local.pairs[fmt.Sprintf("n%d,incx%d", dimClass(p.N), p.IncX)] = true
			local.pairs[fmt.Sprintf("n%d,ld%d", dimClass(p.N), sLd[0][rep])] = true
		}
		// Half of the calls go through the wrapper package.
		t := tl[rep%len(tl)]
		if !t.Has(r) || (r.SingleVector() && p.IncX < 0) {
			// The wrappers document a panic for a negative increment of a
			// single-vector routine; the implementation documents a no-op.
			t = tl[0]
		}
		call := r.NewCall(p, caseRNG())
		desc := t.Name + "." + call.Describe()
		c.LastCase(desc)
		o := call.Run(t)
		key := t.Name + "." + r.Name + "|" + call.FlagString() + "|" + cls
		c.Eval(key, !o.Trivial)
		if o.Trivial {
			local.trivial++
		}
		if t != tl[0] {
			local.wrap++
		}
		if p.Guard != blasmodel.Heap {
			local.guard++
		}
		if o.Ratio > local.ratio && len(o.Findings) == 0 {
			local.ratio = o.Ratio
		}
		if len(o.Findings) > 0 {
			// Regenerate the tuple from the same stream: the replay object
			// holds the operands as they were before the call.
			regen := func() *blasmodel.Call {
				return r.NewCall(p, caseRNG())
			}
			again := regen()
			pre := again.Replay()
			pre["target"] = t.Name
			again.Scrub()
			again.Free()
			// A finding seen through a wrapper is attributed to the wrapper
			// only if the implementation itself handles the same tuple
			// without that finding.
			// (Any finding counts: a kernel that reads outside its operands
			// does not fail the same way twice.)
			directFails := false
			if t != tl[0] {
				call.Scrub()
				rerun := func(tt *blasmodel.Target) bool {
					dc := regen()
					failed := len(dc.Run(tt).Findings) > 0
					dc.Scrub()
					dc.Free()
					return failed
				}
				// wrapper-specific = reproducible through the wrapper (2 more
				// runs) and never through the implementation (2 runs)
				wrapperOnly := rerun(t) && rerun(t) && !rerun(tl[0]) && !rerun(tl[0])
				directFails = !wrapperOnly
			}
			for _, f := range o.Findings {
				name := r.Name
				if t != tl[0] && !directFails {
					name = t.Name + "." + r.Name
				}
				sig := name + "|" + call.FlagString() + "|" + f.Clause
				if f.Clause == "fault" {
					// One defective kernel is reached from many routines: key the
					// class by the faulting function, not by the caller.
					sig = "fault|" + o.FaultIn + "|access-outside-operand"
				}
				c.Violation(sig, desc+": "+f.Detail, pre)
			}
		}
		if o.Exact != nil {
			c.Digest(fmt.Sprintf("%s.%s/%d/%d/%v", t.Name, r.Name, j.ci, rep, j.large), "exact", o.Exact...)
		}
		if !o.Trivial && len(o.Findings) == 0 && c.WantSample() && call.N <= 5 && call.M <= 5 {
			rp := call.Replay()
			rp["target"] = t.Name
			c.Sample(rp)
		}
		call.Free()
	}
	st.mu.Lock()
	st.routines[r.Name] = true
	st.perFam[r.Fam.Name] += int64(n)
	st.total += int64(n)
	st.trivial += local.trivial
	st.viaWrap += local.wrap
	st.guarded += local.guard
	if local.ratio > st.ratio[r.Prec] {
		st.ratio[r.Prec] = local.ratio
	}
	if local.ratio > st.ratioBy[r.Name] {
		st.ratioBy[r.Name] = local.ratio
	}
	for k := range local.pairs {
		st.pairs[k] = true
	}
	st.mu.Unlock()
}

func boolInt(b bool) int {
	if b {
		return 1
	}
	return 0
}

func dimClass(n int) int { return n }

// l1Scalars draws the scalar inputs of rot, rotm, rotg and rotmg.
func l1Scalars(r *blasmodel.Routine, p *blasmodel.Params, rnd *vrt.Rand) {
	switch r.Fam.Name {
	case "rot":
		th := rnd.Uniform(0, 2*math.Pi)
		p.RotC, p.RotS = math.Cos(th), math.Sin(th)
		switch rnd.Intn(8) {
		case 0:
			p.RotC, p.RotS = 1, 0
		case 1:
			p.RotC, p.RotS = 0, 1
		case 2:
			p.RotC, p.RotS = 0, 0
		}
	case "rotm":
		p.RotmFlag = []blas.Flag{blas.Identity, blas.Rescaling, blas.OffDiagonal, blas.Diagonal}[rnd.Intn(4)]
		for i := range p.RotmH {
			p.RotmH[i] = rnd.Uniform(-2, 2)
		}
	case "rotg", "rotmg":
		single := r.Prec == blasmodel.S
		mag := func() float64 {
			e := 200
			if single {
				e = 20
			}
			if r.Fam.Name == "rotmg" {
				e = 40
				if single {
					e = 20
				}
			}
			switch rnd.Intn(4) {
			case 0:
				return math.Ldexp(1+rnd.Float64(), rnd.Range(-e, e))
			}
			return rnd.Uniform(0.01, 4)
		}
		val := func() float64 {
			switch rnd.Intn(12) {
			case 0:
				return 0
			case 1:
				return 1
			case 2:
				return -1
			}
			v := mag()
			if rnd.Bool() {
				v = -v
			}
			return v
		}
		if r.Fam.Name == "rotg" {
			p.G[0], p.G[1] = val(), val()
			if rnd.Intn(10) == 0 {
				p.G[1] = p.G[0] // |a| == |b|
				if rnd.Bool() {
					p.G[1] = -p.G[0]
				}
			}
			return
		}
		// rotmg: d1 >= 0 (mostly > 0), d2 mostly > 0, occasionally 0 or negative.
		p.G[0] = mag()
		p.G[1] = mag()
		switch rnd.Intn(16) {
		case 0:
			p.G[0] = 0
		case 1:
			p.G[1] = 0
		case 2:
			p.G[1] = -p.G[1]
		case 3:
			p.G[0] = -p.G[0]
		}
		p.G[2], p.G[3] = rnd.SmallFinite()*4, rnd.SmallFinite()*4
		if rnd.Intn(6) == 0 {
			p.G[2] *= math.Ldexp(1, rnd.Range(-12, 12))
		}
	}
}
