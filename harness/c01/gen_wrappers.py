real = '''
// w{P} implements the blas.{IFACE} method set on top of the {PKG} wrapper
// functions, so that the reflective C01 sweep also exercises the wrappers'
// argument plumbing (struct fields -> positional arguments).
type w{P} struct{}

func (w{P}) {L}dot(n int, x []{F}, incX int, y []{F}, incY int) {F} {
	return {PKG}.Dot({PKG}.Vector{N: n, Data: x, Inc: incX}, {PKG}.Vector{N: n, Data: y, Inc: incY})
}
func (w{P}) {L}nrm2(n int, x []{F}, incX int) {F} {
	return {PKG}.Nrm2({PKG}.Vector{N: n, Data: x, Inc: incX})
}
func (w{P}) {L}asum(n int, x []{F}, incX int) {F} {
	return {PKG}.Asum({PKG}.Vector{N: n, Data: x, Inc: incX})
}
func (w{P}) I{l}amax(n int, x []{F}, incX int) int {
	return {PKG}.Iamax({PKG}.Vector{N: n, Data: x, Inc: incX})
}
func (w{P}) {L}swap(n int, x []{F}, incX int, y []{F}, incY int) {
	{PKG}.Swap({PKG}.Vector{N: n, Data: x, Inc: incX}, {PKG}.Vector{N: n, Data: y, Inc: incY})
}
func (w{P}) {L}copy(n int, x []{F}, incX int, y []{F}, incY int) {
	{PKG}.Copy({PKG}.Vector{N: n, Data: x, Inc: incX}, {PKG}.Vector{N: n, Data: y, Inc: incY})
}
func (w{P}) {L}axpy(n int, alpha {F}, x []{F}, incX int, y []{F}, incY int) {
	{PKG}.Axpy(alpha, {PKG}.Vector{N: n, Data: x, Inc: incX}, {PKG}.Vector{N: n, Data: y, Inc: incY})
}
func (w{P}) {L}rotg(a, b {F}) (c, s, r, z {F}) { return {PKG}.Rotg(a, b) }
func (w{P}) {L}rotmg(d1, d2, b1, b2 {F}) (p blas.{L}rotmParams, rd1, rd2, rb1 {F}) {
	return {PKG}.Rotmg(d1, d2, b1, b2)
}
func (w{P}) {L}rot(n int, x []{F}, incX int, y []{F}, incY int, c, s {F}) {
	{PKG}.Rot({ROTN}{PKG}.Vector{N: n, Data: x, Inc: incX}, {PKG}.Vector{N: n, Data: y, Inc: incY}, c, s)
}
func (w{P}) {L}rotm(n int, x []{F}, incX int, y []{F}, incY int, p blas.{L}rotmParams) {
	{PKG}.Rotm({ROTN}{PKG}.Vector{N: n, Data: x, Inc: incX}, {PKG}.Vector{N: n, Data: y, Inc: incY}, p)
}
func (w{P}) {L}scal(n int, alpha {F}, x []{F}, incX int) {
	{PKG}.Scal(alpha, {PKG}.Vector{N: n, Data: x, Inc: incX})
}

func (w{P}) {L}gemv(tA blas.Transpose, m, n int, alpha {F}, a []{F}, lda int, x []{F}, incX int, beta {F}, y []{F}, incY int) {
	lx, ly := n, m
	if tA != blas.NoTrans {
		lx, ly = m, n
	}
	{PKG}.Gemv(tA, alpha, {PKG}.General{Rows: m, Cols: n, Data: a, Stride: lda}, {PKG}.Vector{N: lx, Data: x, Inc: incX}, beta, {PKG}.Vector{N: ly, Data: y, Inc: incY})
}
func (w{P}) {L}gbmv(tA blas.Transpose, m, n, kL, kU int, alpha {F}, a []{F}, lda int, x []{F}, incX int, beta {F}, y []{F}, incY int) {
	lx, ly := n, m
	if tA != blas.NoTrans {
		lx, ly = m, n
	}
	{PKG}.Gbmv(tA, alpha, {PKG}.Band{Rows: m, Cols: n, KL: kL, KU: kU, Data: a, Stride: lda}, {PKG}.Vector{N: lx, Data: x, Inc: incX}, beta, {PKG}.Vector{N: ly, Data: y, Inc: incY})
}
func (w{P}) {L}trmv(ul blas.Uplo, tA blas.Transpose, d blas.Diag, n int, a []{F}, lda int, x []{F}, incX int) {
	{PKG}.Trmv(tA, {PKG}.Triangular{Uplo: ul, Diag: d, N: n, Data: a, Stride: lda}, {PKG}.Vector{N: n, Data: x, Inc: incX})
}
func (w{P}) {L}tbmv(ul blas.Uplo, tA blas.Transpose, d blas.Diag, n, k int, a []{F}, lda int, x []{F}, incX int) {
	{PKG}.Tbmv(tA, {PKG}.TriangularBand{Uplo: ul, Diag: d, N: n, K: k, Data: a, Stride: lda}, {PKG}.Vector{N: n, Data: x, Inc: incX})
}
func (w{P}) {L}tpmv(ul blas.Uplo, tA blas.Transpose, d blas.Diag, n int, ap []{F}, x []{F}, incX int) {
	{PKG}.Tpmv(tA, {PKG}.TriangularPacked{Uplo: ul, Diag: d, N: n, Data: ap}, {PKG}.Vector{N: n, Data: x, Inc: incX})
}
func (w{P}) {L}trsv(ul blas.Uplo, tA blas.Transpose, d blas.Diag, n int, a []{F}, lda int, x []{F}, incX int) {
	{PKG}.Trsv(tA, {PKG}.Triangular{Uplo: ul, Diag: d, N: n, Data: a, Stride: lda}, {PKG}.Vector{N: n, Data: x, Inc: incX})
}
func (w{P}) {L}tbsv(ul blas.Uplo, tA blas.Transpose, d blas.Diag, n, k int, a []{F}, lda int, x []{F}, incX int) {
	{PKG}.Tbsv(tA, {PKG}.TriangularBand{Uplo: ul, Diag: d, N: n, K: k, Data: a, Stride: lda}, {PKG}.Vector{N: n, Data: x, Inc: incX})
}
func (w{P}) {L}tpsv(ul blas.Uplo, tA blas.Transpose, d blas.Diag, n int, ap []{F}, x []{F}, incX int) {
	{PKG}.Tpsv(tA, {PKG}.TriangularPacked{Uplo: ul, Diag: d, N: n, Data: ap}, {PKG}.Vector{N: n, Data: x, Inc: incX})
}
'''
real_only = '''
func (w{P}) {L}symv(ul blas.Uplo, n int, alpha {F}, a []{F}, lda int, x []{F}, incX int, beta {F}, y []{F}, incY int) {
	{PKG}.Symv(alpha, {PKG}.Symmetric{Uplo: ul, N: n, Data: a, Stride: lda}, {PKG}.Vector{N: n, Data: x, Inc: incX}, beta, {PKG}.Vector{N: n, Data: y, Inc: incY})
}
func (w{P}) {L}sbmv(ul blas.Uplo, n, k int, alpha {F}, a []{F}, lda int, x []{F}, incX int, beta {F}, y []{F}, incY int) {
	{PKG}.Sbmv(alpha, {PKG}.SymmetricBand{Uplo: ul, N: n, K: k, Data: a, Stride: lda}, {PKG}.Vector{N: n, Data: x, Inc: incX}, beta, {PKG}.Vector{N: n, Data: y, Inc: incY})
}
func (w{P}) {L}spmv(ul blas.Uplo, n int, alpha {F}, ap []{F}, x []{F}, incX int, beta {F}, y []{F}, incY int) {
	{PKG}.Spmv(alpha, {PKG}.SymmetricPacked{Uplo: ul, N: n, Data: ap}, {PKG}.Vector{N: n, Data: x, Inc: incX}, beta, {PKG}.Vector{N: n, Data: y, Inc: incY})
}
func (w{P}) {L}ger(m, n int, alpha {F}, x []{F}, incX int, y []{F}, incY int, a []{F}, lda int) {
	{PKG}.Ger(alpha, {PKG}.Vector{N: m, Data: x, Inc: incX}, {PKG}.Vector{N: n, Data: y, Inc: incY}, {PKG}.General{Rows: m, Cols: n, Data: a, Stride: lda})
}
func (w{P}) {L}syr(ul blas.Uplo, n int, alpha {F}, x []{F}, incX int, a []{F}, lda int) {
	{PKG}.Syr(alpha, {PKG}.Vector{N: n, Data: x, Inc: incX}, {PKG}.Symmetric{Uplo: ul, N: n, Data: a, Stride: lda})
}
func (w{P}) {L}spr(ul blas.Uplo, n int, alpha {F}, x []{F}, incX int, ap []{F}) {
	{PKG}.Spr(alpha, {PKG}.Vector{N: n, Data: x, Inc: incX}, {PKG}.SymmetricPacked{Uplo: ul, N: n, Data: ap})
}
func (w{P}) {L}syr2(ul blas.Uplo, n int, alpha {F}, x []{F}, incX int, y []{F}, incY int, a []{F}, lda int) {
	{PKG}.Syr2(alpha, {PKG}.Vector{N: n, Data: x, Inc: incX}, {PKG}.Vector{N: n, Data: y, Inc: incY}, {PKG}.Symmetric{Uplo: ul, N: n, Data: a, Stride: lda})
}
func (w{P}) {L}spr2(ul blas.Uplo, n int, alpha {F}, x []{F}, incX int, y []{F}, incY int, ap []{F}) {
	{PKG}.Spr2(alpha, {PKG}.Vector{N: n, Data: x, Inc: incX}, {PKG}.Vector{N: n, Data: y, Inc: incY}, {PKG}.SymmetricPacked{Uplo: ul, N: n, Data: ap})
}
'''
level3 = '''
func genDims(t blas.Transpose, r, c int) (int, int) {
	if t != blas.NoTrans {
		return c, r
	}
	return r, c
}
'''
l3 = '''
func (w{P}) {L}gemm(tA, tB blas.Transpose, m, n, k int, alpha {F}, a []{F}, lda int, b []{F}, ldb int, beta {F}, c []{F}, ldc int) {
	ra, ca := genDims(tA, m, k)
	rb, cb := genDims(tB, k, n)
	{PKG}.Gemm(tA, tB, alpha, {PKG}.General{Rows: ra, Cols: ca, Data: a, Stride: lda}, {PKG}.General{Rows: rb, Cols: cb, Data: b, Stride: ldb}, beta, {PKG}.General{Rows: m, Cols: n, Data: c, Stride: ldc})
}
func (w{P}) {L}symm(s blas.Side, ul blas.Uplo, m, n int, alpha {F}, a []{F}, lda int, b []{F}, ldb int, beta {F}, c []{F}, ldc int) {
	na := m
	if s == blas.Right {
		na = n
	}
	{PKG}.Symm(s, alpha, {PKG}.Symmetric{Uplo: ul, N: na, Data: a, Stride: lda}, {PKG}.General{Rows: m, Cols: n, Data: b, Stride: ldb}, beta, {PKG}.General{Rows: m, Cols: n, Data: c, Stride: ldc})
}
func (w{P}) {L}syrk(ul blas.Uplo, t blas.Transpose, n, k int, alpha {F}, a []{F}, lda int, beta {F}, c []{F}, ldc int) {
	ra, ca := genDims(t, n, k)
	{PKG}.Syrk(t, alpha, {PKG}.General{Rows: ra, Cols: ca, Data: a, Stride: lda}, beta, {PKG}.Symmetric{Uplo: ul, N: n, Data: c, Stride: ldc})
}
func (w{P}) {L}syr2k(ul blas.Uplo, t blas.Transpose, n, k int, alpha {F}, a []{F}, lda int, b []{F}, ldb int, beta {F}, c []{F}, ldc int) {
	ra, ca := genDims(t, n, k)
	{PKG}.Syr2k(t, alpha, {PKG}.General{Rows: ra, Cols: ca, Data: a, Stride: lda}, {PKG}.General{Rows: ra, Cols: ca, Data: b, Stride: ldb}, beta, {PKG}.Symmetric{Uplo: ul, N: n, Data: c, Stride: ldc})
}
func (w{P}) {L}trmm(s blas.Side, ul blas.Uplo, tA blas.Transpose, d blas.Diag, m, n int, alpha {F}, a []{F}, lda int, b []{F}, ldb int) {
	na := m
	if s == blas.Right {
		na = n
	}
	{PKG}.Trmm(s, tA, alpha, {PKG}.Triangular{Uplo: ul, Diag: d, N: na, Data: a, Stride: lda}, {PKG}.General{Rows: m, Cols: n, Data: b, Stride: ldb})
}
func (w{P}) {L}trsm(s blas.Side, ul blas.Uplo, tA blas.Transpose, d blas.Diag, m, n int, alpha {F}, a []{F}, lda int, b []{F}, ldb int) {
	na := m
	if s == blas.Right {
		na = n
	}
	{PKG}.Trsm(s, tA, alpha, {PKG}.Triangular{Uplo: ul, Diag: d, N: na, Data: a, Stride: lda}, {PKG}.General{Rows: m, Cols: n, Data: b, Stride: ldb})
}
'''
s32extra = '''
func (w32) Dsdot(n int, x []float32, incX int, y []float32, incY int) float64 {
	return blas32.DDot(blas32.Vector{N: n, Data: x, Inc: incX}, blas32.Vector{N: n, Data: y, Inc: incY})
}
func (w32) Sdsdot(n int, alpha float32, x []float32, incX int, y []float32, incY int) float32 {
	return blas32.SDDot(alpha, blas32.Vector{N: n, Data: x, Inc: incX}, blas32.Vector{N: n, Data: y, Inc: incY})
}
'''
cplx_l1 = '''
// w{P} implements the blas.{IFACE} method set on top of {PKG}.
type w{P} struct{}

func (w{P}) {L}dotu(n int, x []{F}, incX int, y []{F}, incY int) {F} {
	return {PKG}.Dotu({PKG}.Vector{N: n, Data: x, Inc: incX}, {PKG}.Vector{N: n, Data: y, Inc: incY})
}
func (w{P}) {L}dotc(n int, x []{F}, incX int, y []{F}, incY int) {F} {
	return {PKG}.Dotc({PKG}.Vector{N: n, Data: x, Inc: incX}, {PKG}.Vector{N: n, Data: y, Inc: incY})
}
func (w{P}) {RL}{l}nrm2(n int, x []{F}, incX int) {R} {
	return {PKG}.Nrm2({PKG}.Vector{N: n, Data: x, Inc: incX})
}
func (w{P}) {RL}{l}asum(n int, x []{F}, incX int) {R} {
	return {PKG}.Asum({PKG}.Vector{N: n, Data: x, Inc: incX})
}
func (w{P}) I{l}amax(n int, x []{F}, incX int) int {
	return {PKG}.Iamax({PKG}.Vector{N: n, Data: x, Inc: incX})
}
func (w{P}) {L}swap(n int, x []{F}, incX int, y []{F}, incY int) {
	{PKG}.Swap({PKG}.Vector{N: n, Data: x, Inc: incX}, {PKG}.Vector{N: n, Data: y, Inc: incY})
}
func (w{P}) {L}copy(n int, x []{F}, incX int, y []{F}, incY int) {
	{PKG}.Copy({PKG}.Vector{N: n, Data: x, Inc: incX}, {PKG}.Vector{N: n, Data: y, Inc: incY})
}
func (w{P}) {L}axpy(n int, alpha {F}, x []{F}, incX int, y []{F}, incY int) {
	{PKG}.Axpy(alpha, {PKG}.Vector{N: n, Data: x, Inc: incX}, {PKG}.Vector{N: n, Data: y, Inc: incY})
}
func (w{P}) {L}scal(n int, alpha {F}, x []{F}, incX int) {
	{PKG}.Scal(alpha, {PKG}.Vector{N: n, Data: x, Inc: incX})
}
func (w{P}) {L}{rl}scal(n int, alpha {R}, x []{F}, incX int) {
	{PKG}.Dscal(alpha, {PKG}.Vector{N: n, Data: x, Inc: incX})
}
'''
cplx_l2 = '''
func (w{P}) {L}hemv(ul blas.Uplo, n int, alpha {F}, a []{F}, lda int, x []{F}, incX int, beta {F}, y []{F}, incY int) {
	{PKG}.Hemv(alpha, {PKG}.Hermitian{Uplo: ul, N: n, Data: a, Stride: lda}, {PKG}.Vector{N: n, Data: x, Inc: incX}, beta, {PKG}.Vector{N: n, Data: y, Inc: incY})
}
func (w{P}) {L}hbmv(ul blas.Uplo, n, k int, alpha {F}, a []{F}, lda int, x []{F}, incX int, beta {F}, y []{F}, incY int) {
	{PKG}.Hbmv(alpha, {PKG}.HermitianBand{Uplo: ul, N: n, K: k, Data: a, Stride: lda}, {PKG}.Vector{N: n, Data: x, Inc: incX}, beta, {PKG}.Vector{N: n, Data: y, Inc: incY})
}
func (w{P}) {L}hpmv(ul blas.Uplo, n int, alpha {F}, ap []{F}, x []{F}, incX int, beta {F}, y []{F}, incY int) {
	{PKG}.Hpmv(alpha, {PKG}.HermitianPacked{Uplo: ul, N: n, Data: ap}, {PKG}.Vector{N: n, Data: x, Inc: incX}, beta, {PKG}.Vector{N: n, Data: y, Inc: incY})
}
func (w{P}) {L}geru(m, n int, alpha {F}, x []{F}, incX int, y []{F}, incY int, a []{F}, lda int) {
	{PKG}.Geru(alpha, {PKG}.Vector{N: m, Data: x, Inc: incX}, {PKG}.Vector{N: n, Data: y, Inc: incY}, {PKG}.General{Rows: m, Cols: n, Data: a, Stride: lda})
}
func (w{P}) {L}gerc(m, n int, alpha {F}, x []{F}, incX int, y []{F}, incY int, a []{F}, lda int) {
	{PKG}.Gerc(alpha, {PKG}.Vector{N: m, Data: x, Inc: incX}, {PKG}.Vector{N: n, Data: y, Inc: incY}, {PKG}.General{Rows: m, Cols: n, Data: a, Stride: lda})
}
func (w{P}) {L}her(ul blas.Uplo, n int, alpha {R}, x []{F}, incX int, a []{F}, lda int) {
	{PKG}.Her(alpha, {PKG}.Vector{N: n, Data: x, Inc: incX}, {PKG}.Hermitian{Uplo: ul, N: n, Data: a, Stride: lda})
}
func (w{P}) {L}hpr(ul blas.Uplo, n int, alpha {R}, x []{F}, incX int, ap []{F}) {
	{PKG}.Hpr(alpha, {PKG}.Vector{N: n, Data: x, Inc: incX}, {PKG}.HermitianPacked{Uplo: ul, N: n, Data: ap})
}
func (w{P}) {L}her2(ul blas.Uplo, n int, alpha {F}, x []{F}, incX int, y []{F}, incY int, a []{F}, lda int) {
	{PKG}.Her2(alpha, {PKG}.Vector{N: n, Data: x, Inc: incX}, {PKG}.Vector{N: n, Data: y, Inc: incY}, {PKG}.Hermitian{Uplo: ul, N: n, Data: a, Stride: lda})
}
func (w{P}) {L}hpr2(ul blas.Uplo, n int, alpha {F}, x []{F}, incX int, y []{F}, incY int, ap []{F}) {
	{PKG}.Hpr2(alpha, {PKG}.Vector{N: n, Data: x, Inc: incX}, {PKG}.Vector{N: n, Data: y, Inc: incY}, {PKG}.HermitianPacked{Uplo: ul, N: n, Data: ap})
}
'''
cplx_l3 = '''
func (w{P}) {L}hemm(s blas.Side, ul blas.Uplo, m, n int, alpha {F}, a []{F}, lda int, b []{F}, ldb int, beta {F}, c []{F}, ldc int) {
	na := m
	if s == blas.Right {
		na = n
	}
	{PKG}.Hemm(s, alpha, {PKG}.Hermitian{Uplo: ul, N: na, Data: a, Stride: lda}, {PKG}.General{Rows: m, Cols: n, Data: b, Stride: ldb}, beta, {PKG}.General{Rows: m, Cols: n, Data: c, Stride: ldc})
}
func (w{P}) {L}herk(ul blas.Uplo, t blas.Transpose, n, k int, alpha {R}, a []{F}, lda int, beta {R}, c []{F}, ldc int) {
	ra, ca := genDims(t, n, k)
	{PKG}.Herk(t, alpha, {PKG}.General{Rows: ra, Cols: ca, Data: a, Stride: lda}, beta, {PKG}.Hermitian{Uplo: ul, N: n, Data: c, Stride: ldc})
}
func (w{P}) {L}her2k(ul blas.Uplo, t blas.Transpose, n, k int, alpha {F}, a []{F}, lda int, b []{F}, ldb int, beta {R}, c []{F}, ldc int) {
	ra, ca := genDims(t, n, k)
	{PKG}.Her2k(t, alpha, {PKG}.General{Rows: ra, Cols: ca, Data: a, Stride: lda}, {PKG}.General{Rows: ra, Cols: ca, Data: b, Stride: ldb}, beta, {PKG}.Hermitian{Uplo: ul, N: n, Data: c, Stride: ldc})
}
'''
def sub(t, d):
    for k,v in d.items():
        t = t.replace('{'+k+'}', v)
    return t

out = '''// Code generated by gen_wrappers.py (python3 gen_wrappers.py, then gofmt); DO NOT EDIT by hand
// without keeping the four precisions in step.

package main

import (
	"gonum.org/v1/gonum/blas"
	"gonum.org/v1/gonum/blas/blas32"
	"gonum.org/v1/gonum/blas/blas64"
	"gonum.org/v1/gonum/blas/cblas128"
	"gonum.org/v1/gonum/blas/cblas64"
	"gonum.org/v1/gonum/verifx/c01/blasmodel"
)

// Compile-time proof that the adapters have the full BLAS method sets.
var (
	_ blas.Float64    = w64{}
	_ blas.Float32    = w32{}
	_ blas.Complex128 = w128{}
	_ blas.Complex64  = wc64{}
)

var wrapTargets = map[blasmodel.Prec]*blasmodel.Target{
	blasmodel.S: blasmodel.NewTarget("blas32", w32{}),
	blasmodel.D: blasmodel.NewTarget("blas64", w64{}),
	blasmodel.C: blasmodel.NewTarget("cblas64", wc64{}),
	blasmodel.Z: blasmodel.NewTarget("cblas128", w128{}),
}

// wrapperTarget returns the wrapper-package adapter for a precision.
func wrapperTarget(p blasmodel.Prec) *blasmodel.Target { return wrapTargets[p] }
'''
out += level3
d64 = dict(P='64', IFACE='Float64', PKG='blas64', F='float64', L='D', l='d', ROTN='')
d32 = dict(P='32', IFACE='Float32', PKG='blas32', F='float32', L='S', l='s', ROTN='n, ')
for d in (d64, d32):
    out += sub(real, d) + sub(real_only, d) + sub(l3, d)
out += s32extra
z = dict(P='128', IFACE='Complex128', PKG='cblas128', F='complex128', R='float64', L='Z', l='z', RL='D', rl='d')
c = dict(P='c64', IFACE='Complex64', PKG='cblas64', F='complex64', R='float32', L='C', l='c', RL='S', rl='s')
# complex shares gemv..tpsv section of `real` (everything after the level-1 block)
l2common = real[real.index('func (w{P}) {L}gemv'):]
for d in (z, c):
    out += sub(cplx_l1, d) + sub(l2common, d) + sub(cplx_l2, d) + sub(l3, d) + sub(cplx_l3, d)
open(__import__('os').path.join(__import__('os').path.dirname(__import__('os').path.abspath(__file__)),'wrappers.go'),'w').write(out)
