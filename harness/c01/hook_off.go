//go:build !verif

package main

import "sync/atomic"

// Without the verif tag gonum has no block hook; every vctl variant sets it.
var parBlocks [2]atomic.Int64
