package blasmodel

import (
	"fmt"
	"math"
	"reflect"
	"runtime/debug"
	"sort"
	"strings"

	"gonum.org/v1/gonum/blas"
	blasgonum "gonum.org/v1/gonum/blas/gonum"
	"gonum.org/v1/gonum/verifx/vrt"
)

// Routine is one method of the BLAS implementation.
type Routine struct {
	Name string
	Fam  *Family
	Prec Prec
	// AlphaReal/BetaReal: the scalar is real although the routine is complex
	// (Zher, Zherk, Zher2k's beta, Zdscal, ...).
	AlphaReal, BetaReal bool
	in                  []reflect.Type
}

// Target is an object with (a subset of) the BLAS method set: the gonum
// implementation itself or a wrapper adapter.
type Target struct {
	Name string
	v    reflect.Value
	m    map[string]reflect.Value
}

// NewTarget wraps impl.
func NewTarget(name string, impl any) *Target {
	t := &Target{Name: name, v: reflect.ValueOf(impl), m: make(map[string]reflect.Value)}
	ty := t.v.Type()
	for i := 0; i < ty.NumMethod(); i++ {
		t.m[ty.Method(i).Name] = t.v.Method(i)
	}
	return t
}

// Gonum is the implementation under test.
var Gonum = NewTarget("gonum", blasgonum.Implementation{})

// Has reports whether the target implements r.
func (t *Target) Has(r *Routine) bool {
	_, ok := t.m[r.Name]
	return ok
}

var precOfName = map[string]Prec{
	"Scnrm2": C, "Dznrm2": Z, "Scasum": C, "Dzasum": Z,
	"Isamax": S, "Idamax": D, "Icamax": C, "Izamax": Z,
	"Dsdot": S, "Sdsdot": S, "Csscal": C, "Zdscal": Z,
}

func precFor(name string) Prec {
	if p, ok := precOfName[name]; ok {
		return p
	}
	switch name[0] {
	case 'S':
		return S
	case 'D':
		return D
	case 'C':
		return C
	case 'Z':
		return Z
	}
	panic("blasmodel: cannot derive precision of " + name)
}

var (
	routines   []*Routine
	routineIdx = map[string]*Routine{}
)

func init() {
	implT := reflect.TypeOf(blasgonum.Implementation{})
	for _, f := range Families {
		for _, name := range f.Names {
			m, ok := implT.MethodByName(name)
			if !ok {
				panic("blasmodel: Implementation has no method " + name)
			}
			r := &Routine{Name: name, Fam: f, Prec: precFor(name)}
			mt := m.Type // receiver is In(0)
			if mt.NumIn()-1 != len(f.Roles) {
				panic(fmt.Sprintf("blasmodel: %s takes %d args, model has %d", name, mt.NumIn()-1, len(f.Roles)))
			}
			for i, role := range f.Roles {
				ty := mt.In(i + 1)
				r.in = append(r.in, ty)
				if err := checkRoleType(role, ty, r.Prec); err != "" {
					panic(fmt.Sprintf("blasmodel: %s arg %d (%s): %s", name, i, role, err))
				}
				isReal := ty.Kind() == reflect.Float32 || ty.Kind() == reflect.Float64
				if role == RAlpha && isReal && r.Prec.IsComplex() {
					r.AlphaReal = true
				}
				if role == RBeta && isReal && r.Prec.IsComplex() {
					r.BetaReal = true
				}
			}
			if routineIdx[name] != nil {
				panic("blasmodel: duplicate routine " + name)
			}
			routineIdx[name] = r
			routines = append(routines, r)
		}
	}
	// The model must cover the whole method set.
	var missing []string
	for i := 0; i < implT.NumMethod(); i++ {
		if routineIdx[implT.Method(i).Name] == nil {
			missing = append(missing, implT.Method(i).Name)
		}
	}
	if len(missing) > 0 {
		panic("blasmodel: methods not covered by the model: " + strings.Join(missing, ","))
	}
	sort.SliceStable(routines, func(i, j int) bool { return routines[i].Name < routines[j].Name })
}

func checkRoleType(role Role, ty reflect.Type, p Prec) string {
	want := func(k ...reflect.Kind) string {
		for _, x := range k {
			if ty.Kind() == x {
				return ""
			}
		}
		return "unexpected type " + ty.String()
	}
	switch role {
	case RSide:
		if ty != reflect.TypeOf(blas.Left) {
			return "want blas.Side"
		}
	case RUplo:
		if ty != reflect.TypeOf(blas.Upper) {
			return "want blas.Uplo"
		}
	case RTransA, RTransB:
		if ty != reflect.TypeOf(blas.NoTrans) {
			return "want blas.Transpose"
		}
	case RDiag:
		if ty != reflect.TypeOf(blas.Unit) {
			return "want blas.Diag"
		}
	case RM, RN, RK, RKL, RKU, RLdA, RLdB, RLdC, RIncX, RIncY:
		return want(reflect.Int)
	case RAlpha, RBeta:
		return want(reflect.Float32, reflect.Float64, reflect.Complex64, reflect.Complex128)
	case RRotC, RRotS, RG1, RG2, RG3, RG4:
		return want(reflect.Float32, reflect.Float64)
	case RA, RB, RC, RAP, RX, RY:
		if ty.Kind() != reflect.Slice {
			return "want slice"
		}
		ek := [...]reflect.Kind{reflect.Float32, reflect.Float64, reflect.Complex64, reflect.Complex128}[p]
		if ty.Elem().Kind() != ek {
			return "slice element type does not match precision " + p.String()
		}
	case RRotmP:
		return want(reflect.Struct)
	}
	return ""
}

// Routines returns all 142 routines sorted by name.
func Routines() []*Routine { return routines }

// Lookup returns the routine with the given method name, or nil.
func Lookup(name string) *Routine { return routineIdx[name] }

// Params are the abstract choices from which a valid call is generated.
type Params struct {
	Side           blas.Side
	Uplo           blas.Uplo
	TransA, TransB blas.Transpose
	Diag           blas.Diag
	M, N, K        int
	KL, KU         int
	Alpha, Beta    complex128
	LdExtra        [3]int // lda/ldb/ldc = minimum + LdExtra
	IncX, IncY     int
	LenExtra       int // slice elements beyond the required length
	CapExtra       int // capacity beyond the length
	Guard          AllocMode
	// FiniteFill: unaddressed words hold finite canaries instead of payload
	// NaNs (see Alloc.Finite).
	FiniteFill bool
	// Level 1 scalar inputs.
	RotC, RotS float64
	RotmFlag   blas.Flag
	RotmH      [4]float64
	G          [4]float64 // rotg (a,b), rotmg (d1,d2,x1,y1)
}

// Call is one concrete argument tuple. All fields may be mutated after
// generation (to build invalid tuples); Shapes, Invalid and Invoke always use
// the current field values.
type Call struct {
	R              *Routine
	Side           blas.Side
	Uplo           blas.Uplo
	TransA, TransB blas.Transpose
	Diag           blas.Diag
	M, N, K        int
	KL, KU         int
	Alpha, Beta    complex128
	Ld             [3]int
	Inc            [2]int
	Buf            [NumOps]*Buf
	RotC, RotS     float64
	RotmFlag       blas.Flag
	RotmH          [4]float64
	G              [4]float64

	gen Shapes // shapes at generation time (defines the addressed words)
}

// Shapes returns the operand shapes for the current flags and dims (which
// must be legal / non-negative).
func (c *Call) Shapes() Shapes {
	if c.R.Fam.shape == nil {
		return Shapes{}
	}
	return c.R.Fam.shape(c)
}

// Scrub overwrites every operand slab with payload NaNs. The harness calls
// it on tuples it no longer needs, so that a defective kernel reading outside
// its operands cannot pick up the right values from a stale identical copy
// lying next to it in the heap.
func (c *Call) Scrub() {
	for _, b := range c.Buf {
		if b == nil {
			continue
		}
		if b.w32 != nil {
			vrt.FillTaint32(b.w32)
		}
		if b.w64 != nil {
			vrt.FillTaint(b.w64)
		}
	}
}

// Free releases guard-page operands.
func (c *Call) Free() {
	for _, b := range c.Buf {
		b.Free()
	}
}

func defaultFlags(p *Params) {
	if p.Side == 0 {
		p.Side = blas.Left
	}
	if p.Uplo == 0 {
		p.Uplo = blas.Upper
	}
	if p.TransA == 0 {
		p.TransA = blas.NoTrans
	}
	if p.TransB == 0 {
		p.TransB = blas.NoTrans
	}
	if p.Diag == 0 {
		p.Diag = blas.NonUnit
	}
	if p.IncX == 0 {
		p.IncX = 1
	}
	if p.IncY == 0 {
		p.IncY = 1
	}
}

// NewCall generates a valid argument tuple: operands of exactly the required
// length (+LenExtra), addressed elements drawn from rnd (finite, in [-1,1],
// some exact zeros and ±1; triangular operands of solves well conditioned),
// every other word a taint NaN.
func (r *Routine) NewCall(p Params, rnd *vrt.Rand) *Call {
	defaultFlags(&p)
	c := &Call{R: r, Side: p.Side, Uplo: p.Uplo, TransA: p.TransA, TransB: p.TransB, Diag: p.Diag,
		M: p.M, N: p.N, K: p.K, KL: p.KL, KU: p.KU,
		Inc:  [2]int{p.IncX, p.IncY},
		RotC: p.RotC, RotS: p.RotS, RotmFlag: p.RotmFlag, RotmH: p.RotmH, G: p.G}
	c.Alpha = r.Prec.Round(p.Alpha)
	c.Beta = r.Prec.Round(p.Beta)
	if r.AlphaReal {
		c.Alpha = complex(real(c.Alpha), 0)
	}
	if r.BetaReal {
		c.Beta = complex(real(c.Beta), 0)
	}
	if r.Prec.IsSingle() {
		c.RotC, c.RotS = float64(float32(c.RotC)), float64(float32(c.RotS))
		for i := range c.RotmH {
			c.RotmH[i] = float64(float32(c.RotmH[i]))
		}
		for i := range c.G {
			c.G[i] = float64(float32(c.G[i]))
		}
	}
	sh := c.Shapes()
	c.gen = sh
	alloc := func() Alloc {
		return Alloc{Mode: p.Guard, Pre: 1 + rnd.Intn(8), Post: 3, CapTail: p.CapExtra, Finite: p.FiniteFill}
	}
	val := func() complex128 {
		if r.Prec.IsComplex() {
			return r.Prec.Round(complex(rnd.SmallFinite(), rnd.SmallFinite()))
		}
		return r.Prec.Round(complex(rnd.SmallFinite(), 0))
	}
	for op := 0; op < 3; op++ {
		if !sh.HasMat[op] {
			continue
		}
		m := sh.Mat[op]
		ld := m.MinLd() + p.LdExtra[op]
		if m.Scheme == SPacked {
			ld = 0
		}
		c.Ld[op] = ld
		b := NewBuf(r.Prec, m.ReqLen(ld)+p.LenExtra, alloc())
		c.Buf[op] = b
		solveT := r.Fam.Solve && m.Kind == KTri
		scale := 1.0
		if solveT && m.Rows > 8 {
			scale = 4 / float64(m.Rows)
		}
		m.Each(ld, func(i, j, idx int) {
			v := val()
			switch {
			case solveT && i == j:
				// |diag| in [1,2]
				mag := 1 + rnd.Float64()
				if r.Prec.IsComplex() {
					th := rnd.Uniform(0, 6.283185307179586)
					v = r.Prec.Round(complex(mag*math.Cos(th), mag*math.Sin(th)))
				} else {
					if rnd.Bool() {
						mag = -mag
					}
					v = r.Prec.Round(complex(mag, 0))
				}
			case solveT:
				v = r.Prec.Round(complex(real(v)*scale, imag(v)*scale))
			}
			if m.Kind == KHerm && i == j {
				if r.Fam.HermIgnored {
					b.SetRe(idx, real(v))
				} else {
					// "assumed to be zero": a finite non-zero value that a
					// conforming routine treats as zero.
					g := 0.25 + rnd.Float64()
					if rnd.Bool() {
						g = -g
					}
					b.Set(idx, r.Prec.Round(complex(real(v), g)))
				}
			} else {
				b.Set(idx, v)
			}
			if sh.Result[op] {
				b.markWrite(idx, m.Kind == KHerm && i == j)
			}
		})
	}
	for k := 0; k < 2; k++ {
		if !sh.HasVec[k] {
			continue
		}
		v := sh.Vec[k]
		b := NewBuf(r.Prec, v.ReqLen()+p.LenExtra, alloc())
		c.Buf[OpX+k] = b
		for i := 0; i < v.N; i++ {
			idx := v.Index(i)
			b.Set(idx, val())
			if sh.Result[OpX+k] {
				b.markWrite(idx, false)
			}
		}
	}
	return c
}

// Invoke calls the routine on target t with the current tuple. A panic is
// recovered and returned.
func (c *Call) Invoke(t *Target) (ret []reflect.Value, p *vrt.PanicInfo) {
	m, ok := t.m[c.R.Name]
	if !ok {
		panic("blasmodel: target " + t.Name + " lacks " + c.R.Name)
	}
	args := make([]reflect.Value, len(c.R.Fam.Roles))
	for i, role := range c.R.Fam.Roles {
		ty := c.R.in[i]
		var v reflect.Value
		switch role {
		case RSide:
			v = reflect.ValueOf(c.Side)
		case RUplo:
			v = reflect.ValueOf(c.Uplo)
		case RTransA:
			v = reflect.ValueOf(c.TransA)
		case RTransB:
			v = reflect.ValueOf(c.TransB)
		case RDiag:
			v = reflect.ValueOf(c.Diag)
		case RM:
			v = reflect.ValueOf(c.M)
		case RN:
			v = reflect.ValueOf(c.N)
		case RK:
			v = reflect.ValueOf(c.K)
		case RKL:
			v = reflect.ValueOf(c.KL)
		case RKU:
			v = reflect.ValueOf(c.KU)
		case RAlpha:
			v = scalarValue(ty, c.Alpha)
		case RBeta:
			v = scalarValue(ty, c.Beta)
		case RA, RAP:
			v = c.Buf[OpA].Slice()
		case RB:
			v = c.Buf[OpB].Slice()
		case RC:
			v = c.Buf[OpC].Slice()
		case RX:
			v = c.Buf[OpX].Slice()
		case RY:
			v = c.Buf[OpY].Slice()
		case RLdA:
			v = reflect.ValueOf(c.Ld[OpA])
		case RLdB:
			v = reflect.ValueOf(c.Ld[OpB])
		case RLdC:
			v = reflect.ValueOf(c.Ld[OpC])
		case RIncX:
			v = reflect.ValueOf(c.Inc[0])
		case RIncY:
			v = reflect.ValueOf(c.Inc[1])
		case RRotC:
			v = scalarValue(ty, complex(c.RotC, 0))
		case RRotS:
			v = scalarValue(ty, complex(c.RotS, 0))
		case RG1, RG2, RG3, RG4:
			v = scalarValue(ty, complex(c.G[role-RG1], 0))
		case RRotmP:
			if c.R.Prec == S {
				var h [4]float32
				for k := range h {
					h[k] = float32(c.RotmH[k])
				}
				v = reflect.ValueOf(blas.SrotmParams{Flag: c.RotmFlag, H: h})
			} else {
				v = reflect.ValueOf(blas.DrotmParams{Flag: c.RotmFlag, H: c.RotmH})
			}
		}
		args[i] = v
	}
	// SetPanicOnFault is per goroutine: a fault on a guard page inside an
	// assembly kernel must become a recoverable panic on whichever worker
	// goroutine runs the call.
	old := debug.SetPanicOnFault(true)
	p = vrt.Try(func() { ret = m.Call(args) })
	debug.SetPanicOnFault(old)
	return ret, p
}

func scalarValue(ty reflect.Type, v complex128) reflect.Value {
	switch ty.Kind() {
	case reflect.Float32:
		return reflect.ValueOf(float32(real(v)))
	case reflect.Float64:
		return reflect.ValueOf(real(v))
	case reflect.Complex64:
		return reflect.ValueOf(complex64(v))
	}
	return reflect.ValueOf(v)
}

// Describe renders the scalar part of the tuple (no element values).
func (c *Call) Describe() string {
	var sb strings.Builder
	sb.WriteString(c.R.Name)
	sb.WriteByte('(')
	for i, role := range c.R.Fam.Roles {
		if i > 0 {
			sb.WriteString(", ")
		}
		switch role {
		case RSide:
			fmt.Fprintf(&sb, "side=%c", c.Side)
		case RUplo:
			fmt.Fprintf(&sb, "uplo=%c", c.Uplo)
		case RTransA:
			fmt.Fprintf(&sb, "tA=%c", c.TransA)
		case RTransB:
			fmt.Fprintf(&sb, "tB=%c", c.TransB)
		case RDiag:
			fmt.Fprintf(&sb, "diag=%c", c.Diag)
		case RM:
			fmt.Fprintf(&sb, "m=%d", c.M)
		case RN:
			fmt.Fprintf(&sb, "n=%d", c.N)
		case RK:
			fmt.Fprintf(&sb, "k=%d", c.K)
		case RKL:
			fmt.Fprintf(&sb, "kL=%d", c.KL)
		case RKU:
			fmt.Fprintf(&sb, "kU=%d", c.KU)
		case RAlpha:
			fmt.Fprintf(&sb, "alpha=%v", c.Alpha)
		case RBeta:
			fmt.Fprintf(&sb, "beta=%v", c.Beta)
		case RA, RAP, RB, RC, RX, RY:
			op := map[Role]int{RA: OpA, RAP: OpA, RB: OpB, RC: OpC, RX: OpX, RY: OpY}[role]
			b := c.Buf[op]
			if b == nil {
				fmt.Fprintf(&sb, "%s=nil", role)
			} else {
				fmt.Fprintf(&sb, "%s[len=%d cap=%d]", role, b.Len(), b.Cap())
			}
		case RLdA:
			fmt.Fprintf(&sb, "lda=%d", c.Ld[OpA])
		case RLdB:
			fmt.Fprintf(&sb, "ldb=%d", c.Ld[OpB])
		case RLdC:
			fmt.Fprintf(&sb, "ldc=%d", c.Ld[OpC])
		case RIncX:
			fmt.Fprintf(&sb, "incX=%d", c.Inc[0])
		case RIncY:
			fmt.Fprintf(&sb, "incY=%d", c.Inc[1])
		case RRotC:
			fmt.Fprintf(&sb, "c=%v", c.RotC)
		case RRotS:
			fmt.Fprintf(&sb, "s=%v", c.RotS)
		case RRotmP:
			fmt.Fprintf(&sb, "p={flag=%d H=%v}", c.RotmFlag, c.RotmH)
		case RG1, RG2, RG3, RG4:
			fmt.Fprintf(&sb, "%v", c.G[role-RG1])
		}
	}
	sb.WriteByte(')')
	return sb.String()
}

// FlagString renders the flag arguments only (used as the path class of a
// violation signature).
func (c *Call) FlagString() string {
	var parts []string
	for _, role := range c.R.Fam.Roles {
		switch role {
		case RSide:
			parts = append(parts, fmt.Sprintf("side=%c", c.Side))
		case RUplo:
			parts = append(parts, fmt.Sprintf("uplo=%c", c.Uplo))
		case RTransA:
			parts = append(parts, fmt.Sprintf("tA=%c", c.TransA))
		case RTransB:
			parts = append(parts, fmt.Sprintf("tB=%c", c.TransB))
		case RDiag:
			parts = append(parts, fmt.Sprintf("diag=%c", c.Diag))
		}
	}
	if len(parts) == 0 {
		return "-"
	}
	return strings.Join(parts, " ")
}

// Replay returns a JSON-able object with the complete tuple, including the
// slice contents (NaN words are rendered by vrt.San).
func (c *Call) Replay() map[string]any {
	r := map[string]any{"call": c.Describe()}
	for op, b := range c.Buf {
		if b != nil {
			r[opName[op]] = b.Values()
		}
	}
	return r
}
