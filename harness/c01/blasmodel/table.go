package blasmodel

import (
	"strings"

	"gonum.org/v1/gonum/blas"
)

// Role is the meaning of one positional argument.
type Role uint8

const (
	RSide Role = iota
	RUplo
	RTransA
	RTransB
	RDiag
	RM
	RN
	RK
	RKL
	RKU
	RAlpha
	RBeta
	RA
	RLdA
	RB
	RLdB
	RC
	RLdC
	RAP
	RX
	RIncX
	RY
	RIncY
	RRotC
	RRotS
	RRotmP
	RG1
	RG2
	RG3
	RG4
)

var roleTok = map[string]Role{
	"s": RSide, "ul": RUplo, "tA": RTransA, "tB": RTransB, "d": RDiag,
	"m": RM, "n": RN, "k": RK, "kl": RKL, "ku": RKU,
	"alpha": RAlpha, "beta": RBeta,
	"a": RA, "lda": RLdA, "b": RB, "ldb": RLdB, "c": RC, "ldc": RLdC, "ap": RAP,
	"x": RX, "incx": RIncX, "y": RY, "incy": RIncY,
	"rc": RRotC, "rs": RRotS, "p": RRotmP,
	"g1": RG1, "g2": RG2, "g3": RG3, "g4": RG4,
}

var roleName = func() map[Role]string {
	m := make(map[Role]string)
	for k, v := range roleTok {
		m[v] = k
	}
	return m
}()

func (r Role) String() string { return roleName[r] }

// Operand indices.
const (
	OpA = iota
	OpB
	OpC
	OpX
	OpY
	NumOps
)

var opName = [NumOps]string{"a", "b", "c", "x", "y"}

// Shapes is the set of operand shapes of one call.
type Shapes struct {
	Mat    [3]Mat
	HasMat [3]bool
	Vec    [2]Vec // X, Y
	HasVec [2]bool
	Result [NumOps]bool
}

func (s *Shapes) mat(op int, m Mat) { s.Mat[op] = m; s.HasMat[op] = true }
func (s *Shapes) vec(op int, n, inc int) {
	s.Vec[op-OpX] = Vec{N: n, Inc: inc}
	s.HasVec[op-OpX] = true
}

// term is alpha·P·Q with P m×k and Q given as Qᵀ (n×k, row-major).
type term struct {
	alpha complex128
	P, Qt dense
}

// linear describes result = Σ terms + beta·c0 on logical dense matrices.
type linear struct {
	m, n int
	ts   []term
	beta complex128
	c0   dense
	hasC bool
	res  int  // result operand
	herm bool // Hermitian result: diagonal imaginary parts become exactly 0
	noop bool // documented quick return (nothing is written)
}

// Inputs holds the logical operands before the call.
type Inputs struct {
	M [3]dense
	V [2]dense
}

// Family is one row of the signature model.
type Family struct {
	Name  string
	Level int
	Names []string // routine names in blas/gonum.Implementation
	Roles []Role
	// HermIgnored: the doc comment says the imaginary parts of the Hermitian
	// diagonal are "ignored" on entry (hemv, hbmv, hpmv, her, her2). Where it
	// only says "assumed to be zero" (hemm, hpr, hpr2, herk, her2k) a finite
	// value is planted instead of a taint NaN.
	HermIgnored bool
	// Solve marks triangular solves (oracle in backward form; operands are
	// generated well conditioned).
	Solve bool
	// shape returns the operand shapes for the current flag/dim fields of c
	// (which must be legal flags and non-negative dims).
	shape func(c *Call) Shapes
	// lin returns the mathematical operation. For solves xhat is the
	// computed solution (post-call); otherwise nil.
	lin func(c *Call, in *Inputs, xhat *dense) linear
	// zeroSize reports the dims==0 quick return that precedes the slice
	// length checks in the documented contract.
	zeroSize func(c *Call) bool
}

func (f *Family) has(r Role) bool {
	for _, x := range f.Roles {
		if x == r {
			return true
		}
	}
	return false
}

// Has reports whether the family takes an argument with the given role.
func (f *Family) Has(r Role) bool { return f.has(r) }

func roles(s string) []Role {
	var out []Role
	for _, t := range strings.Fields(s) {
		r, ok := roleTok[t]
		if !ok {
			panic("blasmodel: bad role token " + t)
		}
		out = append(out, r)
	}
	return out
}

func isTrans(t blas.Transpose) bool { return t != blas.NoTrans }

func rowOf(v dense) dense { return dense{1, v.r, v.v} }

// transposed returns op(d)ᵀ as a fresh or shared matrix.
func qtOf(d dense, t blas.Transpose) dense {
	switch t {
	case blas.NoTrans:
		return d.op(blas.Trans)
	case blas.Trans:
		return d
	}
	return d.conj()
}

func cconj(z complex128) complex128 { return complex(real(z), -imag(z)) }

func zeroMN(c *Call) bool { return c.M == 0 || c.N == 0 }
func zeroN(c *Call) bool  { return c.N == 0 }

// triMat returns the triangular/symmetric/Hermitian operand of a family in
// the requested storage.
func triMat(sch Scheme, kind Kind, n, k int, ul blas.Uplo, d blas.Diag) Mat {
	m := Mat{Scheme: sch, Kind: kind, Rows: n, Cols: n, Uplo: ul}
	if sch == STriBand {
		m.KU = k
	}
	if kind == KTri {
		m.Diag = d
	}
	return m
}

// --- Level 2 ---------------------------------------------------------------

func famGemvLike(name string, names []string, band bool) *Family {
	r := "tA m n alpha a lda x incx beta y incy"
	if band {
		r = "tA m n kl ku alpha a lda x incx beta y incy"
	}
	return &Family{
		Name: name, Level: 2, Names: names, Roles: roles(r),
		zeroSize: zeroMN,
		shape: func(c *Call) Shapes {
			var s Shapes
			if band {
				s.mat(OpA, Mat{Scheme: SGenBand, Rows: c.M, Cols: c.N, KL: c.KL, KU: c.KU})
			} else {
				s.mat(OpA, Mat{Scheme: SGeneral, Rows: c.M, Cols: c.N})
			}
			lx, ly := c.N, c.M
			if isTrans(c.TransA) {
				lx, ly = c.M, c.N
			}
			s.vec(OpX, lx, c.Inc[0])
			s.vec(OpY, ly, c.Inc[1])
			s.Result[OpY] = true
			return s
		},
		lin: func(c *Call, in *Inputs, _ *dense) linear {
			P := in.M[OpA].op(c.TransA)
			return linear{m: P.r, n: 1, ts: []term{{c.Alpha, P, rowOf(in.V[0])}},
				beta: c.Beta, c0: in.V[1], hasC: true, res: OpY,
				noop: c.Alpha == 0 && c.Beta == 1}
		},
	}
}

// symvLike: y = alpha*A*x + beta*y with A symmetric/Hermitian in full, band
// or packed storage.
func famSymvLike(name string, names []string, sch Scheme, kind Kind) *Family {
	var r string
	switch sch {
	case STriFull:
		r = "ul n alpha a lda x incx beta y incy"
	case STriBand:
		r = "ul n k alpha a lda x incx beta y incy"
	case SPacked:
		r = "ul n alpha ap x incx beta y incy"
	}
	return &Family{
		Name: name, Level: 2, Names: names, Roles: roles(r),
		zeroSize: zeroN,
		shape: func(c *Call) Shapes {
			var s Shapes
			s.mat(OpA, triMat(sch, kind, c.N, c.K, c.Uplo, blas.NonUnit))
			s.vec(OpX, c.N, c.Inc[0])
			s.vec(OpY, c.N, c.Inc[1])
			s.Result[OpY] = true
			return s
		},
		lin: func(c *Call, in *Inputs, _ *dense) linear {
			return linear{m: c.N, n: 1, ts: []term{{c.Alpha, in.M[OpA], rowOf(in.V[0])}},
				beta: c.Beta, c0: in.V[1], hasC: true, res: OpY,
				noop: c.Alpha == 0 && c.Beta == 1}
		},
	}
}

// trmvLike: x = op(A)*x, or the solve op(A)*x = b.
func famTrmvLike(name string, names []string, sch Scheme, solve bool) *Family {
	var r string
	switch sch {
	case STriFull:
		r = "ul tA d n a lda x incx"
	case STriBand:
		r = "ul tA d n k a lda x incx"
	case SPacked:
		r = "ul tA d n ap x incx"
	}
	return &Family{
		Name: name, Level: 2, Names: names, Roles: roles(r), Solve: solve,
		zeroSize: zeroN,
		shape: func(c *Call) Shapes {
			var s Shapes
			s.mat(OpA, triMat(sch, KTri, c.N, c.K, c.Uplo, c.Diag))
			s.vec(OpX, c.N, c.Inc[0])
			s.Result[OpX] = true
			return s
		},
		lin: func(c *Call, in *Inputs, xhat *dense) linear {
			P := in.M[OpA].op(c.TransA)
			if solve {
				// residual b - op(A)*xhat
				return linear{m: c.N, n: 1, ts: []term{{-1, P, rowOf(*xhat)}},
					beta: 1, c0: in.V[0], hasC: true, res: OpX}
			}
			return linear{m: c.N, n: 1, ts: []term{{1, P, rowOf(in.V[0])}}, res: OpX}
		},
	}
}

// gerLike: A += alpha*x*yᵀ (conj: yᴴ).
func famGer(name string, names []string, conj bool) *Family {
	return &Family{
		Name: name, Level: 2, Names: names, Roles: roles("m n alpha x incx y incy a lda"),
		zeroSize: zeroMN,
		shape: func(c *Call) Shapes {
			var s Shapes
			s.mat(OpA, Mat{Scheme: SGeneral, Rows: c.M, Cols: c.N})
			s.vec(OpX, c.M, c.Inc[0])
			s.vec(OpY, c.N, c.Inc[1])
			s.Result[OpA] = true
			return s
		},
		lin: func(c *Call, in *Inputs, _ *dense) linear {
			y := in.V[1]
			if conj {
				y = y.conj()
			}
			return linear{m: c.M, n: c.N, ts: []term{{c.Alpha, in.V[0], y}},
				beta: 1, c0: in.M[OpA], hasC: true, res: OpA, noop: c.Alpha == 0}
		},
	}
}

// syrLike: A += alpha*x*xᵀ (herm: xᴴ) on one triangle; two=true adds the
// second vector: A += alpha*x*yᵀ + alpha*y*xᵀ (herm: alpha*x*yᴴ + conj(alpha)*y*xᴴ).
func famSyr(name string, names []string, sch Scheme, herm, two bool) *Family {
	r := "ul n alpha x incx"
	if two {
		r += " y incy"
	}
	if sch == SPacked {
		r += " ap"
	} else {
		r += " a lda"
	}
	kind := KSym
	if herm {
		kind = KHerm
	}
	return &Family{
		Name: name, Level: 2, Names: names, Roles: roles(r),
		zeroSize: zeroN,
		shape: func(c *Call) Shapes {
			var s Shapes
			s.mat(OpA, triMat(sch, kind, c.N, 0, c.Uplo, blas.NonUnit))
			s.vec(OpX, c.N, c.Inc[0])
			if two {
				s.vec(OpY, c.N, c.Inc[1])
			}
			s.Result[OpA] = true
			return s
		},
		lin: func(c *Call, in *Inputs, _ *dense) linear {
			x := in.V[0]
			l := linear{m: c.N, n: c.N, beta: 1, c0: in.M[OpA], hasC: true, res: OpA,
				herm: herm, noop: c.Alpha == 0}
			if !two {
				q := x
				if herm {
					q = x.conj()
				}
				l.ts = []term{{c.Alpha, x, q}}
				return l
			}
			y := in.V[1]
			if herm {
				l.ts = []term{{c.Alpha, x, y.conj()}, {cconj(c.Alpha), y, x.conj()}}
			} else {
				l.ts = []term{{c.Alpha, x, y}, {c.Alpha, y, x}}
			}
			return l
		},
	}
}

// --- Level 3 ---------------------------------------------------------------

func famGemm() *Family {
	return &Family{
		Name: "gemm", Level: 3, Names: []string{"Sgemm", "Dgemm", "Cgemm", "Zgemm"},
		Roles:    roles("tA tB m n k alpha a lda b ldb beta c ldc"),
		zeroSize: zeroMN,
		shape: func(c *Call) Shapes {
			var s Shapes
			ra, ca := c.M, c.K
			if isTrans(c.TransA) {
				ra, ca = c.K, c.M
			}
			rb, cb := c.K, c.N
			if isTrans(c.TransB) {
				rb, cb = c.N, c.K
			}
			s.mat(OpA, Mat{Scheme: SGeneral, Rows: ra, Cols: ca})
			s.mat(OpB, Mat{Scheme: SGeneral, Rows: rb, Cols: cb})
			s.mat(OpC, Mat{Scheme: SGeneral, Rows: c.M, Cols: c.N})
			s.Result[OpC] = true
			return s
		},
		lin: func(c *Call, in *Inputs, _ *dense) linear {
			return linear{m: c.M, n: c.N,
				ts:   []term{{c.Alpha, in.M[OpA].op(c.TransA), qtOf(in.M[OpB], c.TransB)}},
				beta: c.Beta, c0: in.M[OpC], hasC: true, res: OpC,
				noop: (c.Alpha == 0 || c.K == 0) && c.Beta == 1}
		},
	}
}

func famSymm(name string, names []string, herm bool) *Family {
	kind := KSym
	if herm {
		kind = KHerm
	}
	return &Family{
		Name: name, Level: 3, Names: names,
		Roles:    roles("s ul m n alpha a lda b ldb beta c ldc"),
		zeroSize: zeroMN,
		shape: func(c *Call) Shapes {
			var s Shapes
			na := c.M
			if c.Side == blas.Right {
				na = c.N
			}
			s.mat(OpA, triMat(STriFull, kind, na, 0, c.Uplo, blas.NonUnit))
			s.mat(OpB, Mat{Scheme: SGeneral, Rows: c.M, Cols: c.N})
			s.mat(OpC, Mat{Scheme: SGeneral, Rows: c.M, Cols: c.N})
			s.Result[OpC] = true
			return s
		},
		lin: func(c *Call, in *Inputs, _ *dense) linear {
			l := linear{m: c.M, n: c.N, beta: c.Beta, c0: in.M[OpC], hasC: true, res: OpC,
				noop: c.Alpha == 0 && c.Beta == 1}
			if c.Side == blas.Left {
				l.ts = []term{{c.Alpha, in.M[OpA], in.M[OpB].op(blas.Trans)}}
			} else {
				l.ts = []term{{c.Alpha, in.M[OpB], in.M[OpA].op(blas.Trans)}}
			}
			return l
		},
	}
}

// syrkLike covers syrk, herk, syr2k, her2k.
func famSyrk(name string, names []string, herm, two bool) *Family {
	r := "ul tA n k alpha a lda beta c ldc"
	if two {
		r = "ul tA n k alpha a lda b ldb beta c ldc"
	}
	kind := KSym
	if herm {
		kind = KHerm
	}
	return &Family{
		Name: name, Level: 3, Names: names, Roles: roles(r),
		zeroSize: zeroN,
		shape: func(c *Call) Shapes {
			var s Shapes
			ra, ca := c.N, c.K
			if isTrans(c.TransA) {
				ra, ca = c.K, c.N
			}
			s.mat(OpA, Mat{Scheme: SGeneral, Rows: ra, Cols: ca})
			if two {
				s.mat(OpB, Mat{Scheme: SGeneral, Rows: ra, Cols: ca})
			}
			s.mat(OpC, triMat(STriFull, kind, c.N, 0, c.Uplo, blas.NonUnit))
			s.Result[OpC] = true
			return s
		},
		lin: func(c *Call, in *Inputs, _ *dense) linear {
			l := linear{m: c.N, n: c.N, beta: c.Beta, c0: in.M[OpC], hasC: true, res: OpC,
				herm: herm, noop: (c.Alpha == 0 || c.K == 0) && c.Beta == 1}
			pa := in.M[OpA].op(c.TransA) // n×k
			if !two {
				q := pa
				if herm {
					q = pa.conj()
				}
				l.ts = []term{{c.Alpha, pa, q}}
				return l
			}
			pb := in.M[OpB].op(c.TransA)
			if herm {
				l.ts = []term{{c.Alpha, pa, pb.conj()}, {cconj(c.Alpha), pb, pa.conj()}}
			} else {
				l.ts = []term{{c.Alpha, pa, pb}, {c.Alpha, pb, pa}}
			}
			return l
		},
	}
}

func famTrmm(name string, names []string, solve bool) *Family {
	return &Family{
		Name: name, Level: 3, Names: names, Solve: solve,
		Roles:    roles("s ul tA d m n alpha a lda b ldb"),
		zeroSize: zeroMN,
		shape: func(c *Call) Shapes {
			var s Shapes
			na := c.M
			if c.Side == blas.Right {
				na = c.N
			}
			s.mat(OpA, triMat(STriFull, KTri, na, 0, c.Uplo, c.Diag))
			s.mat(OpB, Mat{Scheme: SGeneral, Rows: c.M, Cols: c.N})
			s.Result[OpB] = true
			return s
		},
		lin: func(c *Call, in *Inputs, xhat *dense) linear {
			T := in.M[OpA].op(c.TransA)
			l := linear{m: c.M, n: c.N, res: OpB}
			src := in.M[OpB]
			al := c.Alpha
			if solve {
				// residual alpha*B - op(A)*X (Left) or alpha*B - X*op(A) (Right)
				src, al = *xhat, -1
				l.beta, l.c0, l.hasC = c.Alpha, in.M[OpB], true
			}
			if c.Side == blas.Left {
				l.ts = []term{{al, T, src.op(blas.Trans)}}
			} else {
				l.ts = []term{{al, src, T.op(blas.Trans)}}
			}
			return l
		},
	}
}

// Families is the signature model: every routine of
// blas/gonum.Implementation belongs to exactly one entry.
var Families = buildFamilies()

func buildFamilies() []*Family {
	fs := buildFamilies0()
	for _, f := range fs {
		switch f.Name {
		case "hemv", "hbmv", "hpmv", "her", "her2":
			f.HermIgnored = true
		}
	}
	return fs
}

func buildFamilies0() []*Family {
	fs := []*Family{
		// Level 2
		famGemvLike("gemv", []string{"Sgemv", "Dgemv", "Cgemv", "Zgemv"}, false),
		famGemvLike("gbmv", []string{"Sgbmv", "Dgbmv", "Cgbmv", "Zgbmv"}, true),
		famSymvLike("symv", []string{"Ssymv", "Dsymv"}, STriFull, KSym),
		famSymvLike("hemv", []string{"Chemv", "Zhemv"}, STriFull, KHerm),
		famSymvLike("sbmv", []string{"Ssbmv", "Dsbmv"}, STriBand, KSym),
		famSymvLike("hbmv", []string{"Chbmv", "Zhbmv"}, STriBand, KHerm),
		famSymvLike("spmv", []string{"Sspmv", "Dspmv"}, SPacked, KSym),
		famSymvLike("hpmv", []string{"Chpmv", "Zhpmv"}, SPacked, KHerm),
		famTrmvLike("trmv", []string{"Strmv", "Dtrmv", "Ctrmv", "Ztrmv"}, STriFull, false),
		famTrmvLike("tbmv", []string{"Stbmv", "Dtbmv", "Ctbmv", "Ztbmv"}, STriBand, false),
		famTrmvLike("tpmv", []string{"Stpmv", "Dtpmv", "Ctpmv", "Ztpmv"}, SPacked, false),
		famTrmvLike("trsv", []string{"Strsv", "Dtrsv", "Ctrsv", "Ztrsv"}, STriFull, true),
		famTrmvLike("tbsv", []string{"Stbsv", "Dtbsv", "Ctbsv", "Ztbsv"}, STriBand, true),
		famTrmvLike("tpsv", []string{"Stpsv", "Dtpsv", "Ctpsv", "Ztpsv"}, SPacked, true),
		famGer("ger", []string{"Sger", "Dger"}, false),
		famGer("geru", []string{"Cgeru", "Zgeru"}, false),
		famGer("gerc", []string{"Cgerc", "Zgerc"}, true),
		famSyr("syr", []string{"Ssyr", "Dsyr"}, STriFull, false, false),
		famSyr("her", []string{"Cher", "Zher"}, STriFull, true, false),
		famSyr("spr", []string{"Sspr", "Dspr"}, SPacked, false, false),
		famSyr("hpr", []string{"Chpr", "Zhpr"}, SPacked, true, false),
		famSyr("syr2", []string{"Ssyr2", "Dsyr2"}, STriFull, false, true),
		famSyr("her2", []string{"Cher2", "Zher2"}, STriFull, true, true),
		famSyr("spr2", []string{"Sspr2", "Dspr2"}, SPacked, false, true),
		famSyr("hpr2", []string{"Chpr2", "Zhpr2"}, SPacked, true, true),
		// Level 3
		famGemm(),
		famSymm("symm", []string{"Ssymm", "Dsymm", "Csymm", "Zsymm"}, false),
		famSymm("hemm", []string{"Chemm", "Zhemm"}, true),
		famSyrk("syrk", []string{"Ssyrk", "Dsyrk", "Csyrk", "Zsyrk"}, false, false),
		famSyrk("herk", []string{"Cherk", "Zherk"}, true, false),
		famSyrk("syr2k", []string{"Ssyr2k", "Dsyr2k", "Csyr2k", "Zsyr2k"}, false, true),
		famSyrk("her2k", []string{"Cher2k", "Zher2k"}, true, true),
		famTrmm("trmm", []string{"Strmm", "Dtrmm", "Ctrmm", "Ztrmm"}, false),
		famTrmm("trsm", []string{"Strsm", "Dtrsm", "Ctrsm", "Ztrsm"}, true),
	}
	fs = append(fs, level1Families()...)
	return fs
}

// TransAllowed returns the legal values of the (first) transpose flag for a
// routine: complex symmetric rank-k updates do not take ConjTrans, Hermitian
// ones do not take Trans.
func (r *Routine) TransAllowed() []blas.Transpose {
	if r.Prec.IsComplex() {
		switch r.Fam.Name {
		case "syrk", "syr2k":
			return []blas.Transpose{blas.NoTrans, blas.Trans}
		case "herk", "her2k":
			return []blas.Transpose{blas.NoTrans, blas.ConjTrans}
		}
	}
	return []blas.Transpose{blas.NoTrans, blas.Trans, blas.ConjTrans}
}
