package blasmodel

import (
	"gonum.org/v1/gonum/blas"
)

// Scheme is the storage scheme of a matrix operand (row-major, as documented
// in the package comment of gonum.org/v1/gonum/blas/gonum).
type Scheme uint8

const (
	SGeneral Scheme = iota // rows×cols, element (i,j) at i*ld+j
	SGenBand               // general band, (i,j) at i*ld+kl+j-i
	STriFull               // n×n in general storage, one triangle addressed
	STriBand               // n×n triangle in band storage with k off-diagonals
	SPacked                // n×n triangle in packed storage
)

// Kind says how the stored elements define the logical dense matrix.
type Kind uint8

const (
	KGeneral Kind = iota
	KSym          // other triangle by symmetry
	KHerm         // other triangle by conjugate symmetry; diagonal imaginary parts ignored
	KTri          // other triangle zero; unit diagonal if Diag == blas.Unit
)

// Mat is the shape of one matrix operand.
type Mat struct {
	Scheme     Scheme
	Kind       Kind
	Rows, Cols int
	KL, KU     int // band widths (STriBand: KU = k)
	Uplo       blas.Uplo
	Diag       blas.Diag // blas.Unit: the diagonal is not addressed
}

// Vec is the shape of one vector operand.
type Vec struct {
	N   int
	Inc int
}

// MinLd returns the smallest valid leading dimension.
func (m Mat) MinLd() int {
	switch m.Scheme {
	case SGeneral, STriFull:
		return max(1, m.Cols)
	case SGenBand:
		return m.KL + m.KU + 1
	case STriBand:
		return m.KU + 1
	}
	return 0
}

// ReqLen returns the slice length gonum requires for the operand (which for
// band storage is more than the last addressed index: every stored row must
// be complete).
func (m Mat) ReqLen(ld int) int {
	switch m.Scheme {
	case SGeneral:
		if m.Rows <= 0 {
			return 0
		}
		return max(0, ld*(m.Rows-1)+m.Cols)
	case STriFull:
		if m.Rows <= 0 {
			return 0
		}
		return ld*(m.Rows-1) + m.Rows
	case SGenBand:
		nr := min(m.Rows, m.Cols+m.KL)
		if nr <= 0 {
			return 0
		}
		return ld*(nr-1) + m.KL + m.KU + 1
	case STriBand:
		if m.Rows <= 0 {
			return 0
		}
		return ld*(m.Rows-1) + m.KU + 1
	case SPacked:
		return m.Rows * (m.Rows + 1) / 2
	}
	return 0
}

// Each calls f for every stored element the routine may address, with its
// logical position (i,j) and its slice index.
func (m Mat) Each(ld int, f func(i, j, idx int)) {
	n := m.Rows
	unit := m.Diag == blas.Unit
	switch m.Scheme {
	case SGeneral:
		for i := 0; i < m.Rows; i++ {
			for j := 0; j < m.Cols; j++ {
				f(i, j, i*ld+j)
			}
		}
	case SGenBand:
		nr := min(m.Rows, m.Cols+m.KL)
		for i := 0; i < nr; i++ {
			for j := max(0, i-m.KL); j <= min(m.Cols-1, i+m.KU); j++ {
				f(i, j, i*ld+m.KL+j-i)
			}
		}
	case STriFull:
		for i := 0; i < n; i++ {
			lo, hi := i, n-1
			if m.Uplo == blas.Lower {
				lo, hi = 0, i
			}
			for j := lo; j <= hi; j++ {
				if unit && i == j {
					continue
				}
				f(i, j, i*ld+j)
			}
		}
	case STriBand:
		k := m.KU
		for i := 0; i < n; i++ {
			if m.Uplo == blas.Upper {
				for j := i; j <= min(n-1, i+k); j++ {
					if unit && i == j {
						continue
					}
					f(i, j, i*ld+j-i)
				}
			} else {
				for j := max(0, i-k); j <= i; j++ {
					if unit && i == j {
						continue
					}
					f(i, j, i*ld+k+j-i)
				}
			}
		}
	case SPacked:
		for i := 0; i < n; i++ {
			if m.Uplo == blas.Upper {
				row := i*n - i*(i-1)/2
				for j := i; j < n; j++ {
					if unit && i == j {
						continue
					}
					f(i, j, row+j-i)
				}
			} else {
				row := i * (i + 1) / 2
				for j := 0; j <= i; j++ {
					if unit && i == j {
						continue
					}
					f(i, j, row+j)
				}
			}
		}
	}
}

// ReqLen returns the slice length required for the vector.
func (v Vec) ReqLen() int {
	if v.N <= 0 {
		return 0
	}
	inc := v.Inc
	if inc < 0 {
		inc = -inc
	}
	return (v.N-1)*inc + 1
}

// Index returns the slice index of logical element i: for a negative
// increment the vector is traversed backwards from (n-1)*|inc|.
func (v Vec) Index(i int) int {
	if v.Inc > 0 {
		return i * v.Inc
	}
	return (v.N - 1 - i) * (-v.Inc)
}

// dense is a logical dense complex matrix.
type dense struct {
	r, c int
	v    []complex128
}

func newDense(r, c int) dense { return dense{r, c, make([]complex128, r*c)} }

func (d dense) at(i, j int) complex128     { return d.v[i*d.c+j] }
func (d dense) set(i, j int, x complex128) { d.v[i*d.c+j] = x }

// op returns op(d) materialised: d, dᵀ or dᴴ.
func (d dense) op(t blas.Transpose) dense {
	if t == blas.NoTrans {
		return d
	}
	o := newDense(d.c, d.r)
	conj := t == blas.ConjTrans
	for i := 0; i < d.r; i++ {
		for j := 0; j < d.c; j++ {
			x := d.v[i*d.c+j]
			if conj {
				x = complex(real(x), -imag(x))
			}
			o.v[j*o.c+i] = x
		}
	}
	return o
}

// conj returns the element-wise conjugate.
func (d dense) conj() dense {
	o := newDense(d.r, d.c)
	for i, x := range d.v {
		o.v[i] = complex(real(x), -imag(x))
	}
	return o
}

// Dense extracts the logical matrix from its storage.
func (m Mat) Dense(b *Buf, ld int) dense {
	d := newDense(m.Rows, m.Cols)
	m.Each(ld, func(i, j, idx int) {
		x := b.At(idx)
		switch m.Kind {
		case KGeneral, KTri:
			d.set(i, j, x)
		case KSym:
			d.set(i, j, x)
			d.set(j, i, x)
		case KHerm:
			if i == j {
				d.set(i, i, complex(real(x), 0))
			} else {
				d.set(i, j, x)
				d.set(j, i, complex(real(x), -imag(x)))
			}
		}
	})
	if m.Kind == KTri && m.Diag == blas.Unit {
		for i := 0; i < m.Rows; i++ {
			d.set(i, i, 1)
		}
	}
	return d
}

// Dense extracts the logical vector as an n×1 matrix.
func (v Vec) Dense(b *Buf) dense {
	d := newDense(v.N, 1)
	for i := 0; i < v.N; i++ {
		d.v[i] = b.At(v.Index(i))
	}
	return d
}
