package blasmodel

import "gonum.org/v1/gonum/blas"

// Panic messages of blas/gonum (errors.go); Invalid reports violated clauses
// with exactly these strings.
const (
	MsgZeroIncX     = "blas: zero x index increment"
	MsgZeroIncY     = "blas: zero y index increment"
	MsgMLT0         = "blas: m < 0"
	MsgNLT0         = "blas: n < 0"
	MsgKLT0         = "blas: k < 0"
	MsgKLLT0        = "blas: kL < 0"
	MsgKULT0        = "blas: kU < 0"
	MsgBadUplo      = "blas: illegal triangle"
	MsgBadTranspose = "blas: illegal transpose"
	MsgBadDiag      = "blas: illegal diagonal"
	MsgBadSide      = "blas: illegal side"
	MsgBadLdA       = "blas: bad leading dimension of A"
	MsgBadLdB       = "blas: bad leading dimension of B"
	MsgBadLdC       = "blas: bad leading dimension of C"
	MsgShortX       = "blas: insufficient length of x"
	MsgShortY       = "blas: insufficient length of y"
	MsgShortAP      = "blas: insufficient length of ap"
	MsgShortA       = "blas: insufficient length of a"
	MsgShortB       = "blas: insufficient length of b"
	MsgShortC       = "blas: insufficient length of c"
)

// SingleVector reports whether the routine takes exactly one vector and no
// matrix (nrm2, asum, iamax, scal): for these a negative increment is a
// documented no-op (result 0 / -1 / x unchanged) rather than a reversed walk.
func (r *Routine) SingleVector() bool {
	f := r.Fam
	return f.Level == 1 && f.has(RX) && !f.has(RY)
}

// Invalid returns the clauses of the documented argument contract that the
// current tuple violates (empty: the call is valid and must not panic).
// The clauses are checked in three stages, as the implementation does:
// flags and dimensions; leading dimensions and increments; then, unless a
// dimension is zero (documented quick return), slice lengths. A later stage
// is only evaluated if the earlier ones pass.
func (c *Call) Invalid() []string {
	f := c.R.Fam
	var bad []string
	add := func(cond bool, msg string) {
		if cond {
			bad = append(bad, msg)
		}
	}
	for _, role := range f.Roles {
		switch role {
		case RSide:
			add(c.Side != blas.Left && c.Side != blas.Right, MsgBadSide)
		case RUplo:
			add(c.Uplo != blas.Upper && c.Uplo != blas.Lower, MsgBadUplo)
		case RTransA, RTransB:
			t := c.TransA
			if role == RTransB {
				t = c.TransB
			}
			ok := false
			for _, a := range c.R.TransAllowed() {
				if a == t {
					ok = true
				}
			}
			add(!ok, MsgBadTranspose)
		case RDiag:
			add(c.Diag != blas.NonUnit && c.Diag != blas.Unit, MsgBadDiag)
		case RM:
			add(c.M < 0, MsgMLT0)
		case RN:
			add(c.N < 0, MsgNLT0)
		case RK:
			add(c.K < 0, MsgKLT0)
		case RKL:
			add(c.KL < 0, MsgKLLT0)
		case RKU:
			add(c.KU < 0, MsgKULT0)
		}
	}
	if len(bad) > 0 {
		return bad
	}
	sh := c.Shapes()
	ldMsg := [3]string{MsgBadLdA, MsgBadLdB, MsgBadLdC}
	for op := 0; op < 3; op++ {
		if sh.HasMat[op] && sh.Mat[op].Scheme != SPacked {
			add(c.Ld[op] < sh.Mat[op].MinLd(), ldMsg[op])
		}
	}
	add(f.has(RX) && c.Inc[0] == 0, MsgZeroIncX)
	add(f.has(RY) && c.Inc[1] == 0, MsgZeroIncY)
	if len(bad) > 0 {
		return bad
	}
	if f.zeroSize != nil && f.zeroSize(c) {
		return nil
	}
	if c.R.SingleVector() && c.Inc[0] < 0 {
		return nil
	}
	lenMsg := [NumOps]string{MsgShortA, MsgShortB, MsgShortC, MsgShortX, MsgShortY}
	for op := 0; op < 3; op++ {
		if !sh.HasMat[op] {
			continue
		}
		msg := lenMsg[op]
		if sh.Mat[op].Scheme == SPacked {
			msg = MsgShortAP
		}
		add(c.Buf[op] == nil || c.Buf[op].Len() < sh.Mat[op].ReqLen(c.Ld[op]), msg)
	}
	for k := 0; k < 2; k++ {
		if !sh.HasVec[k] {
			continue
		}
		v := sh.Vec[k]
		v.Inc = c.Inc[k]
		add(c.Buf[OpX+k] == nil || c.Buf[OpX+k].Len() < v.ReqLen(), lenMsg[OpX+k])
	}
	return bad
}

// Valid reports whether the tuple satisfies the documented contract.
func (c *Call) Valid() bool { return len(c.Invalid()) == 0 }

// Snapshot is a bit image of all operands of a call. The words are stored
// XOR-ed with snapMask: a snapshot has the size of the slab it images and is
// allocated right after it, so a plain copy would sit exactly where a kernel
// that walks off the end of an operand looks next - and would hand it the
// right values (observed: the defective f64.Ger passed 25% of its runs this way).
type Snapshot [NumOps][]uint64

const snapMask = 0xa5a5a5a5a5a5a5a5

// Bits returns the recorded bit pattern of slab word w of operand op.
func (s Snapshot) Bits(op, w int) uint64 { return s[op][w] ^ snapMask }

// Snapshot records the bit patterns of every word of every operand slab
// (slice contents, capacity tail and the canary words around it).
func (c *Call) Snapshot() Snapshot {
	var s Snapshot
	for op, b := range c.Buf {
		if b != nil {
			s[op] = b.Snapshot()
		}
	}
	return s
}

// Change is one word whose bits differ from a snapshot.
type Change struct {
	Op     int    // operand index (OpA..OpY)
	Word   int    // slab word
	Region string // before-slice, read-only-element, unaddressed-in-slice, result-element, cap-tail, after-cap
	Where  string // human readable position
	Old    uint64
	New    uint64
}

// OpName returns the argument name of operand op.
func OpName(op int) string { return opName[op] }

// Changed returns the words that differ from s. With resultToo=false words
// of the generated result region are skipped (they are expected to change).
func (c *Call) Changed(s Snapshot, resultToo bool) []Change {
	var out []Change
	for op, b := range c.Buf {
		if b == nil {
			continue
		}
		for w := range b.flag {
			if !resultToo && b.flag[w]&(fWrite|fHermIm) != 0 {
				continue
			}
			nb := b.WordBits(w)
			if nb != s.Bits(op, w) {
				reg := b.wordRegion(w)
				if b.flag[w]&(fWrite|fHermIm) != 0 {
					reg = "result-element"
				}
				out = append(out, Change{Op: op, Word: w, Region: reg, Where: b.WordDesc(w), Old: s.Bits(op, w), New: nb})
			}
		}
	}
	return out
}
