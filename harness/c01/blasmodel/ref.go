package blasmodel

import "math"

// acc is a compensated accumulator for sums of products (Ogita, Rump, Oishi
// "Dot2"): every product is split exactly with an FMA and every addition with
// TwoSum, so the result is as accurate as if computed in twice the working
// precision. It is the reference arithmetic for float64/complex128 routines;
// for float32/complex64 routines plain float64 accumulation is already
// 2^29 times finer than the routine's unit roundoff.
type acc struct{ s, c float64 }

func (a *acc) addProd(x, y float64) {
	p := x * y
	e := math.FMA(x, y, -p)
	t := a.s + p
	z := t - a.s
	a.c += ((a.s - (t - z)) + (p - z)) + e
	a.s = t
}

func (a *acc) add(x float64) {
	t := a.s + x
	z := t - a.s
	a.c += (a.s - (t - z)) + (x - z)
	a.s = t
}

func (a *acc) sum() float64 { return a.s + a.c }

func cabs1(z complex128) float64 { return math.Abs(real(z)) + math.Abs(imag(z)) }

// evalLinear evaluates l on logical dense operands. It returns, for every
// result element, the reference value, the absolute-value companion
// S = Σ|alpha||P||Q| + |beta||c0| (moduli replaced by the upper bound
// |re|+|im|), and the number of terms K summed into one element.
func evalLinear(l *linear, accurate, realOnly bool) (val []complex128, S []float64, K int) {
	m, n := l.m, l.n
	val = make([]complex128, m*n)
	S = make([]float64, m*n)
	for _, t := range l.ts {
		K += t.P.c
	}
	if l.hasC {
		K++
	}
	for i := 0; i < m; i++ {
		for j := 0; j < n; j++ {
			var re, im acc
			var s float64
			for _, t := range l.ts {
				k := t.P.c
				p := t.P.v[i*k : i*k+k]
				q := t.Qt.v[j*k : j*k+k]
				var dre, dim float64
				var ds float64
				switch {
				case realOnly && !accurate:
					for x, pv := range p {
						pr, qr := real(pv), real(q[x])
						dre += pr * qr
						ds += math.Abs(pr * qr)
					}
				case realOnly:
					var a acc
					for x, pv := range p {
						pr, qr := real(pv), real(q[x])
						a.addProd(pr, qr)
						ds += math.Abs(pr * qr)
					}
					dre = a.sum()
				case !accurate:
					for x, pv := range p {
						qv := q[x]
						dre += real(pv)*real(qv) - imag(pv)*imag(qv)
						dim += real(pv)*imag(qv) + imag(pv)*real(qv)
						ds += cabs1(pv) * cabs1(qv)
					}
				default:
					var ar, ai acc
					for x, pv := range p {
						qv := q[x]
						ar.addProd(real(pv), real(qv))
						ar.addProd(-imag(pv), imag(qv))
						ai.addProd(real(pv), imag(qv))
						ai.addProd(imag(pv), real(qv))
						ds += cabs1(pv) * cabs1(qv)
					}
					dre, dim = ar.sum(), ai.sum()
				}
				// alpha * dot
				al := t.alpha
				if accurate {
					re.addProd(real(al), dre)
					re.addProd(-imag(al), dim)
					im.addProd(real(al), dim)
					im.addProd(imag(al), dre)
				} else {
					re.add(real(al)*dre - imag(al)*dim)
					im.add(real(al)*dim + imag(al)*dre)
				}
				s += cabs1(al) * ds
			}
			if l.hasC {
				cv := l.c0.v[i*n+j]
				b := l.beta
				if accurate {
					re.addProd(real(b), real(cv))
					re.addProd(-imag(b), imag(cv))
					im.addProd(real(b), imag(cv))
					im.addProd(imag(b), real(cv))
				} else {
					re.add(real(b)*real(cv) - imag(b)*imag(cv))
					im.add(real(b)*imag(cv) + imag(b)*real(cv))
				}
				s += cabs1(b) * cabs1(cv)
			}
			val[i*n+j] = complex(re.sum(), im.sum())
			S[i*n+j] = s
		}
	}
	return val, S, K
}
