// Package blasmodel is a signature model of the BLAS API implemented by
// gonum.org/v1/gonum/blas/gonum.Implementation (and, through adapters with
// the same method set, by the blas64/blas32/cblas128/cblas64 wrappers).
//
// Every routine family (gemv, gbmv, trsm, ...) is described once: the order
// and role of its arguments, the storage scheme of each matrix operand, which
// operand is the result, the documented argument contract and the
// mathematical operation on logical dense matrices. The four precisions are
// reached through reflection on the method set.
//
// The package offers, per routine,
//
//   - NewCall: a generator of a valid argument tuple for given flags, dims,
//     leading-dimension / increment choices, with every word that the call
//     must not address filled with a payload NaN,
//   - (*Call).Invalid / Valid: the documented argument contract,
//   - (*Call).Invoke: a reflective call with the (possibly mutated, possibly
//     invalid) tuple,
//   - (*Call).Snapshot / Changed: bit images of all operands,
//   - (*Call).Run: the complete C01 oracle for one call.
package blasmodel

import (
	"fmt"
	"math"
	"reflect"
	"unsafe"

	"gonum.org/v1/gonum/verifx/vrt"
)

// Prec is the element type of a routine.
type Prec uint8

const (
	S Prec = iota // float32
	D             // float64
	C             // complex64
	Z             // complex128
)

func (p Prec) String() string { return [...]string{"S", "D", "C", "Z"}[p] }

// IsComplex reports whether elements are complex.
func (p Prec) IsComplex() bool { return p >= C }

// IsSingle reports whether the real word type is float32.
func (p Prec) IsSingle() bool { return p == S || p == C }

// Eps returns the unit roundoff of the real word type.
func (p Prec) Eps() float64 {
	if p.IsSingle() {
		return vrt.Eps32
	}
	return vrt.Eps64
}

// Tiny is an absolute floor added to every rounding band so that products of
// three operands that underflow are never reported.
func (p Prec) Tiny() float64 {
	if p.IsSingle() {
		return 1e-36
	}
	return 1e-290
}

// Round returns v rounded to the precision (imaginary part dropped for real
// precisions).
func (p Prec) Round(v complex128) complex128 {
	switch p {
	case S:
		return complex(float64(float32(real(v))), 0)
	case D:
		return complex(real(v), 0)
	case C:
		return complex(float64(float32(real(v))), float64(float32(imag(v))))
	}
	return v
}

// AllocMode selects where an operand lives.
type AllocMode uint8

const (
	Heap      AllocMode = iota // Go heap, canary elements on both sides
	GuardTail                  // last element flush against an inaccessible page
	GuardHead                  // first element directly after an inaccessible page
)

// Alloc describes the surroundings of an operand slice.
type Alloc struct {
	Mode    AllocMode
	Pre     int // canary elements in front of the slice (ignored for GuardHead)
	Post    int // canary elements after cap (ignored for GuardTail)
	CapTail int // cap-len (forced to 0 for GuardTail)
	// Finite fills the unaddressed words with distinct finite canary values
	// (1000+index) instead of payload NaNs. A NaN canary exposes every use of
	// an unaddressed word, even one multiplied by zero, but is blind to an
	// in-place update (NaN += v keeps the payload bits); a finite canary
	// exposes such writes and still spoils any result computed from it.
	Finite bool
}

// Word flags.
const (
	fRead   uint8 = 1 << iota // the call may read this word
	fWrite                    // the call may write this word (result region)
	fHermIm                   // imaginary part of a Hermitian diagonal of a result operand
)

// Buf is one slice operand. The slice handed to the routine is a window
// [pre, pre+n) (cap capN) of a slab of real words; a complex element occupies
// two consecutive words. Every word starts out as a taint NaN.
type Buf struct {
	Prec Prec
	w32  []float32
	w64  []float64
	pre  int
	n    int
	capN int
	wpe  int
	flag []uint8
	free func()
}

// NewBuf allocates an operand of n elements.
func NewBuf(p Prec, n int, a Alloc) *Buf {
	b := &Buf{Prec: p, n: n, wpe: 1}
	if p.IsComplex() {
		b.wpe = 2
	}
	pre, post, ct := a.Pre, a.Post, a.CapTail
	switch a.Mode {
	case GuardTail:
		post, ct = 0, 0
	case GuardHead:
		pre = 0
	}
	b.pre = pre
	b.capN = n + ct
	words := (pre + b.capN + post) * b.wpe
	switch a.Mode {
	case Heap:
		if p.IsSingle() {
			b.w32 = make([]float32, words)
		} else {
			b.w64 = make([]float64, words)
		}
	default:
		bytes := words * 8
		if p.IsSingle() {
			bytes = words * 4
		}
		g, err := vrt.NewGuardRegion(bytes)
		if err != nil {
			panic(err)
		}
		b.free = g.Free
		tail := a.Mode == GuardTail
		switch {
		case p.IsSingle() && tail:
			b.w32 = g.Float32sTail(words)
		case p.IsSingle():
			b.w32 = g.Float32sHead(words)
		case tail:
			b.w64 = g.Float64sTail(words)
		default:
			b.w64 = g.Float64sHead(words)
		}
	}
	b.flag = make([]uint8, words)
	switch {
	case a.Finite && p.IsSingle():
		for i := range b.w32 {
			b.w32[i] = float32(1000 + i%100000)
		}
	case a.Finite:
		for i := range b.w64 {
			b.w64[i] = float64(1000 + i%100000)
		}
	case p.IsSingle():
		vrt.FillTaint32(b.w32)
	default:
		vrt.FillTaint(b.w64)
	}
	return b
}

// Free releases a guard-page mapping (no-op for heap operands).
func (b *Buf) Free() {
	if b != nil && b.free != nil {
		b.free()
		b.free = nil
		b.w32, b.w64 = nil, nil
	}
}

// Len returns the length of the slice passed to the routine.
func (b *Buf) Len() int { return b.n }

// Cap returns its capacity.
func (b *Buf) Cap() int { return b.capN }

// SetLen changes the length of the slice passed to the routine (0 <= n <=
// Cap); used to build too-short operands.
func (b *Buf) SetLen(n int) {
	if n < 0 || n > b.capN {
		panic("blasmodel: SetLen out of range")
	}
	b.n = n
}

// NumWords returns the number of real words in the slab.
func (b *Buf) NumWords() int { return len(b.flag) }

func (b *Buf) word(i, part int) int { return (b.pre+i)*b.wpe + part }

func (b *Buf) getw(w int) float64 {
	if b.w32 != nil {
		return float64(b.w32[w])
	}
	return b.w64[w]
}

func (b *Buf) setw(w int, v float64) {
	if b.w32 != nil {
		b.w32[w] = float32(v)
		return
	}
	b.w64[w] = v
}

// WordBits returns the bit pattern of slab word w.
func (b *Buf) WordBits(w int) uint64 {
	if b.w32 != nil {
		return uint64(math.Float32bits(b.w32[w]))
	}
	return math.Float64bits(b.w64[w])
}

// wordIsTaint reports whether slab word w currently holds a taint NaN.
func (b *Buf) wordIsTaint(w int) bool {
	if b.w32 != nil {
		return vrt.IsTaint32(b.w32[w])
	}
	return vrt.IsTaint(b.w64[w])
}

// At returns slice element i (0 <= i < Cap) as a complex128.
func (b *Buf) At(i int) complex128 {
	w := b.word(i, 0)
	if b.wpe == 1 {
		return complex(b.getw(w), 0)
	}
	return complex(b.getw(w), b.getw(w+1))
}

// Set stores v (rounded to the precision) in slice element i and marks it
// addressed.
func (b *Buf) Set(i int, v complex128) {
	w := b.word(i, 0)
	b.setw(w, real(v))
	b.flag[w] |= fRead
	if b.wpe == 2 {
		b.setw(w+1, imag(v))
		b.flag[w+1] |= fRead
	}
}

// SetRe stores only the real part of element i (Hermitian diagonal): the
// imaginary word stays a taint NaN.
func (b *Buf) SetRe(i int, re float64) {
	w := b.word(i, 0)
	b.setw(w, re)
	b.flag[w] |= fRead
}

// markWrite marks element i as part of the result region. hermDiag marks
// its imaginary word as "must become exactly zero".
func (b *Buf) markWrite(i int, hermDiag bool) {
	w := b.word(i, 0)
	b.flag[w] |= fWrite
	if b.wpe == 2 {
		if hermDiag {
			b.flag[w+1] |= fHermIm
		} else {
			b.flag[w+1] |= fWrite
		}
	}
}

// Snapshot returns the masked bit image of the whole slab (see Snapshot.Bits).
func (b *Buf) Snapshot() []uint64 {
	s := make([]uint64, len(b.flag))
	if b.w32 != nil {
		for i, v := range b.w32 {
			s[i] = uint64(math.Float32bits(v)) ^ snapMask
		}
	} else {
		for i, v := range b.w64 {
			s[i] = math.Float64bits(v) ^ snapMask
		}
	}
	return s
}

// WordDesc describes where slab word w lies relative to the slice.
func (b *Buf) WordDesc(w int) string {
	e := w/b.wpe - b.pre
	part := ""
	if b.wpe == 2 {
		part = [...]string{".re", ".im"}[w%2]
	}
	switch {
	case e < 0:
		return fmt.Sprintf("canary before slice start (element %d%s)", e, part)
	case e < b.n:
		return fmt.Sprintf("slice element %d%s", e, part)
	case e < b.capN:
		return fmt.Sprintf("capacity tail element %d%s (len %d)", e, part, b.n)
	}
	return fmt.Sprintf("canary after capacity (element %d%s, cap %d)", e, part, b.capN)
}

// region classes of a slab word, used in violation signatures.
func (b *Buf) wordRegion(w int) string {
	e := w/b.wpe - b.pre
	switch {
	case e < 0:
		return "before-slice"
	case e < b.n:
		if b.flag[w]&fRead != 0 {
			return "read-only-element"
		}
		return "unaddressed-in-slice"
	case e < b.capN:
		return "cap-tail"
	}
	return "after-cap"
}

func emptyOf(p Prec) reflect.Value {
	switch p {
	case S:
		return reflect.ValueOf([]float32{})
	case D:
		return reflect.ValueOf([]float64{})
	case C:
		return reflect.ValueOf([]complex64{})
	}
	return reflect.ValueOf([]complex128{})
}

// Slice returns the typed slice ([]float32, []float64, []complex64 or
// []complex128) with the current length and capacity, aliasing the slab.
func (b *Buf) Slice() reflect.Value {
	if b.capN == 0 {
		return emptyOf(b.Prec)
	}
	off := b.pre * b.wpe
	switch b.Prec {
	case S:
		return reflect.ValueOf(b.w32[off : off+b.n : off+b.capN])
	case D:
		return reflect.ValueOf(b.w64[off : off+b.n : off+b.capN])
	case C:
		s := unsafe.Slice((*complex64)(unsafe.Pointer(&b.w32[off])), b.capN)
		return reflect.ValueOf(s[:b.n:b.capN])
	}
	s := unsafe.Slice((*complex128)(unsafe.Pointer(&b.w64[off])), b.capN)
	return reflect.ValueOf(s[:b.n:b.capN])
}

// Values returns a copy of the slice contents as complex128 (for replay
// objects and samples).
func (b *Buf) Values() []complex128 {
	v := make([]complex128, b.n)
	for i := range v {
		v[i] = b.At(i)
	}
	return v
}
