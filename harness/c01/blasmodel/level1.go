package blasmodel

import (
	"fmt"
	"math"
	"reflect"

	"gonum.org/v1/gonum/blas"
)

func famL1(name string, names []string, r string, resX, resY bool) *Family {
	rs := roles(r)
	f := &Family{Name: name, Level: 1, Names: names, Roles: rs}
	if f.has(RN) {
		f.zeroSize = zeroN
		f.shape = func(c *Call) Shapes {
			var s Shapes
			s.vec(OpX, c.N, c.Inc[0])
			s.Result[OpX] = resX
			if f.has(RY) {
				s.vec(OpY, c.N, c.Inc[1])
				s.Result[OpY] = resY
			}
			return s
		}
	}
	return f
}

func level1Families() []*Family {
	return []*Family{
		famL1("dot", []string{"Sdot", "Ddot"}, "n x incx y incy", false, false),
		famL1("dotu", []string{"Cdotu", "Zdotu"}, "n x incx y incy", false, false),
		famL1("dotc", []string{"Cdotc", "Zdotc"}, "n x incx y incy", false, false),
		famL1("dsdot", []string{"Dsdot"}, "n x incx y incy", false, false),
		famL1("sdsdot", []string{"Sdsdot"}, "n alpha x incx y incy", false, false),
		famL1("nrm2", []string{"Snrm2", "Dnrm2", "Scnrm2", "Dznrm2"}, "n x incx", false, false),
		famL1("asum", []string{"Sasum", "Dasum", "Scasum", "Dzasum"}, "n x incx", false, false),
		famL1("iamax", []string{"Isamax", "Idamax", "Icamax", "Izamax"}, "n x incx", false, false),
		famL1("swap", []string{"Sswap", "Dswap", "Cswap", "Zswap"}, "n x incx y incy", true, true),
		famL1("copy", []string{"Scopy", "Dcopy", "Ccopy", "Zcopy"}, "n x incx y incy", false, true),
		famL1("axpy", []string{"Saxpy", "Daxpy", "Caxpy", "Zaxpy"}, "n alpha x incx y incy", false, true),
		famL1("scal", []string{"Sscal", "Dscal", "Cscal", "Zscal", "Csscal", "Zdscal"}, "n alpha x incx", true, false),
		famL1("rot", []string{"Srot", "Drot"}, "n x incx y incy rc rs", true, true),
		famL1("rotm", []string{"Srotm", "Drotm"}, "n x incx y incy p", true, true),
		famL1("rotg", []string{"Srotg", "Drotg"}, "g1 g2", false, false),
		famL1("rotmg", []string{"Srotmg", "Drotmg"}, "g1 g2 g3 g4", false, false),
	}
}

// RotmH returns the full 2×2 matrix (h11,h12,h21,h22) encoded by a rotm
// parameter block.
func RotmH(flag blas.Flag, h [4]float64) (h11, h12, h21, h22 float64, ok bool) {
	switch flag {
	case blas.Identity:
		return 1, 0, 0, 1, true
	case blas.Rescaling:
		return h[0], h[2], h[1], h[3], true
	case blas.OffDiagonal:
		return 1, h[2], h[1], 1, true
	case blas.Diagonal:
		return h[0], 1, -1, h[3], true
	}
	return 0, 0, 0, 0, false
}

func (c *Call) bandEps(K int, S, eps float64, cplx bool) float64 {
	if cplx {
		return float64(bandPerTermCplx*K+bandConstCplx)*eps*S + c.R.Prec.Tiny()
	}
	return float64(bandPerTermReal*K+bandConstReal)*eps*S + c.R.Prec.Tiny()
}

func (c *Call) cmpScalar(o *Outcome, got, ref, tol float64, what string) {
	c.cmp(o, "ret", nil, 0, got, ref, tol, what)
}

func (c *Call) checkLevel1(o *Outcome, in *Inputs, snap Snapshot, ret []reflect.Value) {
	f := c.R.Fam
	p := c.R.Prec
	n := c.N
	x, y := in.V[0], in.V[1]
	negSingle := c.R.SingleVector() && c.Inc[0] < 0
	o.Trivial = f.has(RN) && (n == 0 || negSingle)
	accurate := !p.IsSingle()
	xv, yv := c.gen.Vec[0], c.gen.Vec[1]
	bx, by := c.Buf[OpX], c.Buf[OpY]

	switch f.Name {
	case "dot", "dotu", "dotc", "dsdot", "sdsdot":
		P := rowOf(x)
		if f.Name == "dotc" {
			P = rowOf(x.conj())
		}
		l := linear{m: 1, n: 1, ts: []term{{1, P, rowOf(y)}}}
		if f.Name == "sdsdot" {
			l.beta, l.c0, l.hasC = 1, dense{1, 1, []complex128{c.Alpha}}, true
		}
		val, S, K := evalLinear(&l, true, !p.IsComplex())
		eps := p.Eps()
		if f.Name == "dsdot" {
			// float64 result of float32 data: double precision accumulation
			// is the point of the routine.
			eps = 1.0 / (1 << 53)
		}
		tol := c.bandEps(K, S[0], eps, p.IsComplex())
		if f.Name == "sdsdot" && n == 0 {
			// narrow class for the empty sum: the documented value is alpha
			if g := ret[0].Float(); g != real(c.Alpha) {
				o.add("empty-sum(ret)", "n = 0: returned %v, documented alpha + (empty sum) = %v", g, real(c.Alpha))
			}
			break
		}
		if p.IsComplex() {
			g := ret[0].Complex()
			c.cmpScalar(o, real(g), real(val[0]), tol, "returned dot product (real)")
			c.cmpScalar(o, imag(g), imag(val[0]), tol, "returned dot product (imag)")
		} else {
			c.cmpScalar(o, ret[0].Float(), real(val[0]), tol, "returned dot product")
		}
	case "nrm2", "asum":
		got := ret[0].Float()
		if negSingle {
			if got != 0 {
				o.add("value(ret)", "negative incX: documented result 0, got %v", got)
			}
			break
		}
		var a acc
		for _, v := range x.v {
			if f.Name == "nrm2" {
				a.addProd(real(v), real(v))
				a.addProd(imag(v), imag(v))
			} else {
				a.add(math.Abs(real(v)))
				a.add(math.Abs(imag(v)))
			}
		}
		ref := a.sum()
		if f.Name == "nrm2" {
			ref = math.Sqrt(ref)
		}
		c.cmpScalar(o, got, ref, c.bandEps(n, ref, p.Eps(), p.IsComplex()), "returned "+f.Name)
	case "iamax":
		got := int(ret[0].Int())
		want := -1
		if !negSingle && n > 0 {
			best := math.Inf(-1)
			for i, v := range x.v {
				var m float64
				if p.IsSingle() {
					m = float64(float32(math.Abs(real(v))) + float32(math.Abs(imag(v))))
				} else {
					m = math.Abs(real(v)) + math.Abs(imag(v))
				}
				if m > best {
					best, want = m, i
				}
			}
		}
		if got != want {
			o.add("value(ret)", "returned index %d, first maximum of |re|+|im| is at %d", got, want)
		}
	case "swap", "copy":
		// pure data movement: bit-exact
		for i := 0; i < n; i++ {
			ix, iy := xv.Index(i), yv.Index(i)
			for part := 0; part < bx.wpe; part++ {
				wx, wy := bx.word(ix, part), by.word(iy, part)
				if by.WordBits(wy) != snap.Bits(OpX, wx) {
					o.add("value(y)", "y[%d] (slice index %d) is %#x, want the bits of x[%d] = %#x", i, iy, by.WordBits(wy), i, snap.Bits(OpX, wx))
				}
				if f.Name == "swap" && bx.WordBits(wx) != snap.Bits(OpY, wy) {
					o.add("value(x)", "x[%d] (slice index %d) is %#x, want the bits of y[%d] = %#x", i, ix, bx.WordBits(wx), i, snap.Bits(OpY, wy))
				}
				o.Exact = append(o.Exact, by.WordBits(wy), bx.WordBits(wx))
			}
		}
	case "axpy":
		if c.Alpha == 0 {
			o.Trivial = true
		}
		for i := 0; i < n; i++ {
			xi, yi := x.v[i], y.v[i]
			l := linear{m: 1, n: 1, ts: []term{{c.Alpha, dense{1, 1, []complex128{xi}}, dense{1, 1, []complex128{1}}}},
				beta: 1, c0: dense{1, 1, []complex128{yi}}, hasC: true}
			val, S, K := evalLinear(&l, accurate, !p.IsComplex())
			c.cmpElem(o, OpY, yv.Index(i), val[0], c.band(K, S[0]), fmt.Sprintf("y[%d]", i))
		}
	case "scal":
		for i := 0; i < n; i++ {
			idx := xv.Index(i)
			xi := x.v[i]
			got := bx.At(idx)
			where := fmt.Sprintf("x[%d] (slice index %d)", i, idx)
			switch {
			case negSingle:
				// documented: no effect
				for part := 0; part < bx.wpe; part++ {
					w := bx.word(idx, part)
					if bx.WordBits(w) != snap.Bits(OpX, w) {
						o.add("value(x)", "%s changed although incX < 0 (documented: no effect)", where)
					}
				}
			case !p.IsComplex() || c.R.AlphaReal:
				// one rounding per component: IEEE-754 leaves one answer
				var wr, wi float64
				a := real(c.Alpha)
				if p.IsSingle() {
					wr = float64(float32(a) * float32(real(xi)))
					wi = float64(float32(a) * float32(imag(xi)))
				} else {
					wr, wi = a*real(xi), a*imag(xi)
				}
				c.cmp(o, "x", bx, bx.word(idx, 0), real(got), wr, 0, where)
				if p.IsComplex() {
					c.cmp(o, "x", bx, bx.word(idx, 1), imag(got), wi, 0, where+" (imag)")
				}
				o.Exact = append(o.Exact, math.Float64bits(real(got)+0), math.Float64bits(imag(got)+0))
			default:
				l := linear{m: 1, n: 1, ts: []term{{c.Alpha, dense{1, 1, []complex128{xi}}, dense{1, 1, []complex128{1}}}}}
				val, S, K := evalLinear(&l, accurate, false)
				c.cmpElem(o, OpX, idx, val[0], c.band(K, S[0]), where)
			}
		}
	case "rot", "rotm":
		h11, h12, h21, h22 := c.RotC, c.RotS, -c.RotS, c.RotC
		if f.Name == "rotm" {
			var ok bool
			h11, h12, h21, h22, ok = RotmH(c.RotmFlag, c.RotmH)
			if !ok {
				panic("blasmodel: rotm call generated with illegal flag")
			}
			if c.RotmFlag == blas.Identity {
				o.Trivial = true
			}
		}
		for i := 0; i < n; i++ {
			xi, yi := real(x.v[i]), real(y.v[i])
			var ax, ay acc
			ax.addProd(h11, xi)
			ax.addProd(h12, yi)
			ay.addProd(h21, xi)
			ay.addProd(h22, yi)
			sx := math.Abs(h11*xi) + math.Abs(h12*yi)
			sy := math.Abs(h21*xi) + math.Abs(h22*yi)
			c.cmpElem(o, OpX, xv.Index(i), complex(ax.sum(), 0), c.band(2, sx), fmt.Sprintf("x[%d]", i))
			c.cmpElem(o, OpY, yv.Index(i), complex(ay.sum(), 0), c.band(2, sy), fmt.Sprintf("y[%d]", i))
		}
	case "rotg":
		c.checkRotg(o, ret)
	case "rotmg":
		c.checkRotmg(o, ret)
	}
}

// rotgTol bounds the identities of rotg in units of u. First-order analysis of
// r = sigma*scl*sqrt((a/scl)²+(b/scl)²), c = a/r, s = b/r gives relative errors
// of at most ~4u in r and ~5u in c and s, hence |c²+s²-1| <= ~10u and
// |sqrt(1-s²)-c| <= ~12u; the largest value observed on the pinned tree over
// 150 000 inputs per precision is 6u. 64u leaves a factor >= 5 over the
// analytical bound and 10 over the observation.
const rotgTol = 64

// checkRotg verifies the documented definition of the Givens rotation:
// r = sigma*sqrt(a²+b²) with sigma the sign of the larger-magnitude input,
// c = a/r, s = b/r (c=1, s=0 if r=0), c²+s²=1, and z such that the documented
// reconstruction rule returns (c, s).
func (c *Call) checkRotg(o *Outcome, ret []reflect.Value) {
	a, b := c.G[0], c.G[1]
	u := c.R.Prec.Eps()
	cs, sn, r, z := ret[0].Float(), ret[1].Float(), ret[2].Float(), ret[3].Float()
	var rc2, rs2 float64
	for i, v := range []float64{cs, sn, r, z} {
		if math.IsNaN(v) || math.IsInf(v, 0) {
			o.add("value(ret)", "rotg(%v,%v) returned non-finite value #%d: c=%v s=%v r=%v z=%v", a, b, i, cs, sn, r, z)
			return
		}
	}
	bad := func(format string, args ...any) {
		o.add("value(ret)", "rotg(%v,%v) = (c=%v s=%v r=%v z=%v): %s", a, b, cs, sn, r, z, fmt.Sprintf(format, args...))
	}
	hyp := math.Hypot(a, b)
	track := func(d, tol float64) {
		if tol > 0 && d <= tol && d/tol > o.Ratio {
			o.Ratio = d / tol
		}
	}
	track(math.Abs(cs*cs+sn*sn-1), rotgTol*u)
	track(math.Abs(math.Abs(r)-hyp), rotgTol*u*hyp)
	track(math.Abs(cs*r-a), rotgTol*u*hyp)
	track(math.Abs(sn*r-b), rotgTol*u*hyp)
	defer func(c2, s2 *float64) { track(math.Abs(*c2-cs), rotgTol*u); track(math.Abs(*s2-sn), rotgTol*u) }(&rc2, &rs2)
	if math.Abs(cs*cs+sn*sn-1) > rotgTol*u {
		bad("c²+s² = %v", cs*cs+sn*sn)
	}
	if math.Abs(math.Abs(r)-hyp) > rotgTol*u*hyp {
		bad("|r| differs from sqrt(a²+b²) = %v", hyp)
	}
	if hyp == 0 {
		if cs != 1 || sn != 0 {
			bad("a=b=0 requires c=1, s=0")
		}
	} else {
		sig := b
		if math.Abs(a) > math.Abs(b) {
			sig = a
		}
		if (sig > 0) != (r > 0) {
			bad("sign of r must be that of the larger-magnitude input")
		}
		if math.Abs(cs*r-a) > rotgTol*u*hyp || math.Abs(sn*r-b) > rotgTol*u*hyp {
			bad("c*r, s*r = %v, %v do not reproduce a, b", cs*r, sn*r)
		}
		if math.Abs(-sn*a+cs*b) > rotgTol*u*(math.Abs(sn*a)+math.Abs(cs*b)) {
			bad("-s*a+c*b = %v is not annihilated", -sn*a+cs*b)
		}
	}
	// reconstruction of (c,s) from z
	var c2, s2 float64
	defer func() { rc2, rs2 = c2, s2 }()
	switch {
	case z == 1:
		c2, s2 = 0, 1
	case math.Abs(z) < 1:
		c2, s2 = math.Sqrt(1-z*z), z
	default:
		c2 = 1 / z
		s2 = math.Sqrt(1 - c2*c2)
	}
	if math.Abs(c2-cs) > rotgTol*u || math.Abs(s2-sn) > rotgTol*u {
		bad("documented reconstruction from z gives c=%v s=%v", c2, s2)
	}
}

// checkRotmg verifies the defining identities of the modified Givens
// transformation: with H decoded from the flag, H·(x1,y1)ᵀ = (rx1, w)ᵀ where
// the second component is annihilated in the scaled sense (rd2 = 0 or w = 0),
// and Hᵀ·diag(rd1,rd2)·H = diag(d1,d2).
func (c *Call) checkRotmg(o *Outcome, ret []reflect.Value) {
	d1, d2, x1, y1 := c.G[0], c.G[1], c.G[2], c.G[3]
	u := c.R.Prec.Eps()
	pv := ret[0]
	flag := blas.Flag(pv.Field(0).Int())
	var h [4]float64
	for i := range h {
		h[i] = pv.Field(1).Index(i).Float()
	}
	rd1, rd2, rx1 := ret[1].Float(), ret[2].Float(), ret[3].Float()
	bad := func(cl, format string, args ...any) {
		o.add(cl, "rotmg(d1=%v d2=%v x1=%v y1=%v) = (flag=%d H=%v rd1=%v rd2=%v rx1=%v): %s",
			d1, d2, x1, y1, flag, h, rd1, rd2, rx1, fmt.Sprintf(format, args...))
	}
	for _, v := range []float64{h[0], h[1], h[2], h[3], rd1, rd2, rx1} {
		if math.IsNaN(v) || math.IsInf(v, 0) {
			bad("value(ret)", "non-finite output")
			return
		}
	}
	errState := flag == blas.Rescaling && h == [4]float64{} && rd1 == 0 && rd2 == 0 && rx1 == 0
	if errState {
		// The error state is admissible only outside the domain d1 >= 0,
		// d2 >= 0 (for d2 < 0 the transformation may not exist).
		if d1 >= 0 && d2 >= 0 {
			if d2 == 0 || y1 == 0 {
				bad("value(ret)", "error state although no rotation is needed")
			} else {
				bad("value(ret)", "error state for non-negative weights")
			}
		}
		return
	}
	h11, h12, h21, h22, ok := RotmH(flag, h)
	if !ok {
		bad("value(ret)", "illegal flag")
		return
	}
	const k = 32
	// (1) first component
	track := func(d, tol float64) {
		if tol > 0 && d <= tol && d/tol > o.Ratio {
			o.Ratio = d / tol
		}
	}
	g := h11*x1 + h12*y1
	track(math.Abs(g-rx1), k*u*(math.Abs(h11*x1)+math.Abs(h12*y1))+c.R.Prec.Tiny())
	if math.Abs(g-rx1) > k*u*(math.Abs(h11*x1)+math.Abs(h12*y1))+c.R.Prec.Tiny() {
		bad("value(ret)", "h11*x1+h12*y1 = %v differs from rx1", g)
	}
	// (2) annihilation
	w := h21*x1 + h22*y1
	if rd2 != 0 {
		track(math.Abs(w), k*u*(math.Abs(h21*x1)+math.Abs(h22*y1))+c.R.Prec.Tiny())
	}
	if rd2 != 0 && math.Abs(w) > k*u*(math.Abs(h21*x1)+math.Abs(h22*y1))+c.R.Prec.Tiny() {
		bad("value(ret)", "second component h21*x1+h22*y1 = %v not annihilated (rd2 != 0)", w)
	}
	// (3) Hᵀ diag(rd) H = diag(d)
	chk := func(name string, t1, t2, want float64) {
		track(math.Abs(t1+t2-want), k*u*(math.Abs(t1)+math.Abs(t2))+c.R.Prec.Tiny())
		if math.Abs(t1+t2-want) > k*u*(math.Abs(t1)+math.Abs(t2))+c.R.Prec.Tiny() {
			bad("value(ret)", "(Hᵀ·diag(rd1,rd2)·H)%s = %v, want %v", name, t1+t2, want)
		}
	}
	chk("11", h11*h11*rd1, h21*h21*rd2, d1)
	chk("22", h12*h12*rd1, h22*h22*rd2, d2)
	chk("12", h11*h12*rd1, h21*h22*rd2, 0)
}
