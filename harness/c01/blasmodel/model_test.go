package blasmodel

import (
	"testing"

	"gonum.org/v1/gonum/blas"
	"gonum.org/v1/gonum/verifx/vrt"
)

// TestContractAgainstImplementation cross-checks Invalid() with the real
// prologues: a generated tuple is valid and does not panic; after one field
// is damaged the implementation panics with one of the reported clauses.
// (It is a self-test of the model for its second client, the C07 monitor.)
func TestContractAgainstImplementation(t *testing.T) {
	rnd := vrt.NewRand(1)
	for _, r := range Routines() {
		if r.Fam.Name == "rotg" || r.Fam.Name == "rotmg" {
			continue
		}
		base := Params{M: 3, N: 4, K: 2, KL: 1, KU: 1, Alpha: 0.5, Beta: 0.25, IncX: 2, IncY: -1,
			LdExtra: [3]int{1, 0, 2}, RotC: 0.6, RotS: 0.8, RotmFlag: blas.Rescaling, RotmH: [4]float64{1, 2, 3, 4}}
		if r.SingleVector() {
			base.IncX = 2
		}
		c := r.NewCall(base, rnd)
		if bad := c.Invalid(); len(bad) != 0 {
			t.Errorf("%s: generated tuple reported invalid: %v", c.Describe(), bad)
			continue
		}
		if _, p := c.Invoke(Gonum); p != nil {
			t.Errorf("%s: panic on valid tuple: %s", c.Describe(), p.Msg)
		}
		damage := map[string]func(c *Call){
			"n=-1": func(c *Call) { c.N = -1 },
		}
		f := r.Fam
		if f.Has(RM) {
			damage["m=-1"] = func(c *Call) { c.M = -1 }
		}
		if f.Has(RK) {
			damage["k=-1"] = func(c *Call) { c.K = -1 }
		}
		if f.Has(RIncX) {
			damage["incx=0"] = func(c *Call) { c.Inc[0] = 0 }
		}
		if f.Has(RIncY) {
			damage["incy=0"] = func(c *Call) { c.Inc[1] = 0 }
		}
		if f.Has(RUplo) {
			damage["uplo"] = func(c *Call) { c.Uplo = blas.All }
		}
		if f.Has(RTransA) {
			damage["trans"] = func(c *Call) { c.TransA = 'X' }
		}
		if f.Has(RDiag) {
			damage["diag"] = func(c *Call) { c.Diag = 'X' }
		}
		if f.Has(RSide) {
			damage["side"] = func(c *Call) { c.Side = 'X' }
		}
		if f.Has(RLdA) {
			damage["lda"] = func(c *Call) { c.Ld[OpA] = c.Shapes().Mat[OpA].MinLd() - 1 }
		}
		if f.Has(RLdC) {
			damage["ldc"] = func(c *Call) { c.Ld[OpC] = c.Shapes().Mat[OpC].MinLd() - 1 }
		}
		for op := 0; op < NumOps; op++ {
			op := op
			if c.Buf[op] != nil && c.Buf[op].Len() > 0 {
				damage["short-"+opName[op]] = func(c *Call) {
					sh := c.Shapes()
					var req int
					if op >= OpX {
						req = sh.Vec[op-OpX].ReqLen()
					} else {
						req = sh.Mat[op].ReqLen(c.Ld[op])
					}
					c.Buf[op].SetLen(req - 1)
				}
			}
		}
		for name, d := range damage {
			if !f.Has(RN) && name == "n=-1" {
				continue
			}
			cc := r.NewCall(base, rnd)
			d(cc)
			bad := cc.Invalid()
			_, p := cc.Invoke(Gonum)
			switch {
			case len(bad) == 0 && p != nil:
				t.Errorf("%s [%s]: model says valid, implementation panics %q", cc.Describe(), name, p.Msg)
			case len(bad) != 0 && p == nil:
				t.Errorf("%s [%s]: model says %v, implementation does not panic", cc.Describe(), name, bad)
			case len(bad) != 0:
				found := false
				for _, b := range bad {
					if b == p.Msg {
						found = true
					}
				}
				if !found {
					t.Errorf("%s [%s]: model says %v, implementation panics %q", cc.Describe(), name, bad, p.Msg)
				}
			}
		}
	}
}
