// Command vctl is the orchestrator of the runtime-monitoring checks.
//
//	vctl run Cnn [--tier quick|thorough]   build the monitors of one property from
//	                                       /repo's current tree, run them as child
//	                                       processes, write evidence/Cnn.json
//	vctl replay <replays/Cnn-xxxx.json>    re-run the variant that produced a witness
//	                                       and report whether it is observed again
//	vctl list                              list properties that have a monitor
//
// Exit codes: 0 held / inconclusive, 1 violation (with VIOLATION lines),
// 2 the harness could not run (BUILD-FAILED etc.).
//
// vctl deliberately does not import gonum, so it builds even when /repo
// does not.
package main

import (
	"bufio"
	"bytes"
	"crypto/sha256"
	"encoding/json"
	"errors"
	"fmt"
	"os"
	"os/exec"
	"os/signal"
	"path/filepath"
	"regexp"
	"sort"
	"strconv"
	"strings"
	"sync"
	"syscall"
	"time"
)

// ---- configuration -------------------------------------------------------

type variant struct {
	Name    string            `json:"name"`
	Kind    string            `json:"kind"` // "" / "main": go build ./cNN ; "fuzz": go test -fuzz
	Pkg     string            `json:"pkg"`  // package dir relative to harness (default ./cNN)
	Tags    string            `json:"tags"`
	Race    bool              `json:"race"`
	Asan    bool              `json:"asan"`
	Gcflags string            `json:"gcflags"`
	Cover   string            `json:"coverpkg"` // comma separated packages for -cover builds
	Env     map[string]string `json:"env"`
	Args    []string          `json:"args"`
	Tiers   []string          `json:"tiers"`
	// TimeoutS is the wall-clock watchdog per tier (firing => inconclusive).
	TimeoutS map[string]int `json:"timeout_s"`
	// Join names a group of variants whose "exact" digests must agree.
	Join string `json:"join"`
	// CaseCPUBudgetS: CPU seconds the child may burn without starting a new
	// case (last-case file unchanged) before it is declared hung. 0 = off.
	CaseCPUBudgetS int `json:"case_cpu_budget_s"`
	// StallS: seconds of wall clock during which the child consumed no CPU
	// at all before it is declared blocked. 0 = off.
	StallS int `json:"stall_s"`
	// Fuzz targets (kind "fuzz"): name -> executions per tier.
	Targets  []string       `json:"targets"`
	FuzzTime map[string]int `json:"fuzz_execs"`
}

type propConfig struct {
	Variants    []variant `json:"variants"`
	Rule        string    `json:"rule"`
	Assumptions []string  `json:"assumptions"`
	Level       string    `json:"level"`
}

type knownEntry struct {
	Status      string `json:"status"` // open | fixed
	Property    string `json:"property"`
	Signature   string `json:"signature"`
	Description string `json:"description"`
	Commit      string `json:"commit,omitempty"`
}

type knownFile struct {
	Entries []knownEntry `json:"entries"`
}

// ---- child result (mirror of vrt.Result) ---------------------------------

type violation struct {
	Sig     string `json:"sig"`
	Detail  string `json:"detail"`
	Count   int    `json:"count"`
	Replay  any    `json:"replay,omitempty"`
	Variant string `json:"variant,omitempty"`
}

type inconclusive struct {
	Sub    string `json:"sub"`
	Reason string `json:"reason"`
}

type result struct {
	Prop         string           `json:"prop"`
	Variant      string           `json:"variant"`
	Tier         string           `json:"tier"`
	Seed         uint64           `json:"seed"`
	Evaluations  int64            `json:"evaluations"`
	Distinct     int              `json:"distinct_nontrivial"`
	Samples      []any            `json:"samples"`
	Violations   []*violation     `json:"violations"`
	Inconclusive []inconclusive   `json:"inconclusive"`
	Counters     map[string]int64 `json:"counters"`
	Notes        map[string]any   `json:"notes"`
	Completed    bool             `json:"completed"`
	WallS        float64          `json:"wall_s"`
}

// ---- globals ---------------------------------------------------------------

var (
	root    string // /verif
	harness string // /verif/harness
	repo    = "/repo"
	scratch string
)

func goEnv() []string {
	env := os.Environ()
	out := env[:0:0]
	for _, e := range env {
		i := strings.IndexByte(e, '=')
		if i < 0 {
			continue
		}
		k := e[:i]
		switch k {
		case "GOFLAGS", "GOPROXY", "GOSUMDB", "GOTOOLCHAIN", "GORACE", "ASAN_OPTIONS":
			continue
		}
		out = append(out, e)
	}
	return append(out, "GOFLAGS=-mod=mod", "GOPROXY=off", "GOSUMDB=off", "GOTOOLCHAIN=local")
}

func fatal(code int, format string, args ...any) {
	fmt.Printf(format+"\n", args...)
	cleanup()
	os.Exit(code)
}

func cleanup() {
	if scratch != "" {
		os.RemoveAll(scratch)
	}
}

func findRoot() {
	if r := os.Getenv("VERIF_ROOT"); r != "" {
		root = r
	} else if exe, err := os.Executable(); err == nil {
		if d := filepath.Dir(filepath.Dir(exe)); fileExists(filepath.Join(d, "harness", "go.mod")) {
			root = d
		}
	}
	if root == "" {
		wd, _ := os.Getwd()
		for d := wd; d != "/"; d = filepath.Dir(d) {
			if fileExists(filepath.Join(d, "harness", "go.mod")) {
				root = d
				break
			}
		}
	}
	if root == "" {
		root = "/verif"
	}
	harness = filepath.Join(root, "harness")
	if r := os.Getenv("VERIF_REPO"); r != "" {
		repo = r
	}
}

func fileExists(p string) bool { _, err := os.Stat(p); return err == nil }

func main() {
	findRoot()
	if len(os.Args) < 2 {
		fmt.Println("usage: vctl run Cnn [--tier quick|thorough] | replay <file> | list")
		os.Exit(2)
	}
	sig := make(chan os.Signal, 1)
	signal.Notify(sig, syscall.SIGINT, syscall.SIGTERM)
	go func() { <-sig; killChildren(); cleanup(); os.Exit(2) }()
	switch os.Args[1] {
	case "run":
		os.Exit(cmdRun(os.Args[2:]))
	case "replay":
		os.Exit(cmdReplay(os.Args[2:]))
	case "list":
		ents, _ := os.ReadDir(harness)
		for _, e := range ents {
			if e.IsDir() && fileExists(filepath.Join(harness, e.Name(), "variants.json")) {
				fmt.Println(strings.ToUpper(e.Name()))
			}
		}
	default:
		fmt.Println("unknown command", os.Args[1])
		os.Exit(2)
	}
}

// ---- run ---------------------------------------------------------------------

func parseRunArgs(args []string) (prop, tier, only, onlyVariant string) {
	tier = os.Getenv("VERIF_TIER")
	if tier == "" {
		tier = "quick"
	}
	for i := 0; i < len(args); i++ {
		switch a := args[i]; {
		case a == "--tier" && i+1 < len(args):
			tier = args[i+1]
			i++
		case strings.HasPrefix(a, "--tier="):
			tier = strings.TrimPrefix(a, "--tier=")
		case a == "--only" && i+1 < len(args):
			only = args[i+1]
			i++
		case a == "--variant" && i+1 < len(args):
			onlyVariant = args[i+1]
			i++
		default:
			prop = strings.ToUpper(a)
		}
	}
	return
}

func seed() uint64 {
	s := os.Getenv("VERIF_SEED")
	if s == "" {
		return 1
	}
	v, err := strconv.ParseInt(s, 10, 64)
	if err != nil {
		u, err2 := strconv.ParseUint(s, 10, 64)
		if err2 != nil {
			return 1
		}
		return u
	}
	return uint64(v)
}

func loadConfig(prop string) (*propConfig, error) {
	p := filepath.Join(harness, strings.ToLower(prop), "variants.json")
	b, err := os.ReadFile(p)
	if err != nil {
		return nil, err
	}
	var c propConfig
	if err := json.Unmarshal(b, &c); err != nil {
		return nil, fmt.Errorf("%s: %w", p, err)
	}
	return &c, nil
}

func loadKnown() []knownEntry {
	b, err := os.ReadFile(filepath.Join(root, "known_findings.json"))
	if err != nil {
		return nil
	}
	var k knownFile
	if json.Unmarshal(b, &k) != nil {
		return nil
	}
	return k.Entries
}

func inTier(v variant, tier string) bool {
	if len(v.Tiers) == 0 {
		return true
	}
	for _, t := range v.Tiers {
		if t == tier {
			return true
		}
	}
	return false
}

type variantRun struct {
	v         variant
	bin       string
	buildErr  string
	res       *result
	crash     string // non-empty: child died; normalised message
	crashLog  string
	timedOut  bool
	hung      string // non-empty: hang verdict
	raceSigs  map[string]string
	digest    string
	wall      float64
	fuzzExecs int64
	fuzzFails []fuzzFail
}

type fuzzFail struct {
	Target string
	Input  string
	Msg    string
}

func cmdRun(args []string) int {
	prop, tier, only, onlyVariant := parseRunArgs(args)
	if prop == "" || (tier != "quick" && tier != "thorough") {
		fmt.Println("usage: vctl run Cnn [--tier quick|thorough]")
		return 2
	}
	start := time.Now()
	cfg, err := loadConfig(prop)
	if err != nil {
		fmt.Printf("HARNESS-ERROR: no monitor configuration for %s: %v\n", prop, err)
		return 2
	}
	scratch, err = os.MkdirTemp("", "vctl-"+prop+"-")
	if err != nil {
		fmt.Println("HARNESS-ERROR:", err)
		return 2
	}
	defer cleanup()
	if err := prepareModule(); err != nil {
		fmt.Println("HARNESS-ERROR:", err)
		return 2
	}

	var runs []*variantRun
	for _, v := range cfg.Variants {
		if !inTier(v, tier) || (onlyVariant != "" && v.Name != onlyVariant) {
			continue
		}
		runs = append(runs, &variantRun{v: v})
	}
	if len(runs) == 0 {
		fmt.Printf("HARNESS-ERROR: %s has no variant for tier %s\n", prop, tier)
		return 2
	}

	// Build all variants (in parallel; the go tool serialises on its cache).
	var wg sync.WaitGroup
	sem := make(chan struct{}, 4)
	for _, r := range runs {
		wg.Add(1)
		go func(r *variantRun) {
			defer wg.Done()
			sem <- struct{}{}
			defer func() { <-sem }()
			build(prop, r)
		}(r)
	}
	wg.Wait()
	for _, r := range runs {
		if r.buildErr != "" {
			fmt.Printf("BUILD-FAILED property=%s variant=%s\n%s\n", prop, r.v.Name, r.buildErr)
			return 2
		}
	}

	// Run sequentially: each child uses all cores itself.
	for _, r := range runs {
		t0 := time.Now()
		if r.v.Kind == "fuzz" {
			runFuzz(prop, tier, r)
		} else {
			runChild(prop, tier, only, r)
		}
		r.wall = time.Since(t0).Seconds()
		fmt.Printf("[%s %s/%s] %.1fs evals=%d distinct=%d\n", prop, tier, r.v.Name, r.wall, evalsOf(r), distinctOf(r))
	}

	return conclude(prop, tier, cfg, runs, time.Since(start).Seconds(), only)
}

func evalsOf(r *variantRun) int64 {
	if r.res != nil {
		return r.res.Evaluations
	}
	return r.fuzzExecs
}
func distinctOf(r *variantRun) int {
	if r.res != nil {
		return r.res.Distinct
	}
	return 0
}

// prepareModule makes sure go.sum exists and, when VERIF_REPO points
// elsewhere, writes an alternative modfile into scratch.
var modfileArg string

func prepareModule() error {
	sum := filepath.Join(harness, "go.sum")
	if !fileExists(sum) {
		b, err := os.ReadFile(filepath.Join(repo, "go.sum"))
		if err != nil {
			return err
		}
		if err := os.WriteFile(sum, b, 0o644); err != nil {
			return err
		}
	}
	if repo != "/repo" {
		b, err := os.ReadFile(filepath.Join(harness, "go.mod"))
		if err != nil {
			return err
		}
		nb := bytes.ReplaceAll(b, []byte("=> /repo"), []byte("=> "+repo))
		mf := filepath.Join(scratch, "go.mod")
		if err := os.WriteFile(mf, nb, 0o644); err != nil {
			return err
		}
		sb, _ := os.ReadFile(sum)
		os.WriteFile(filepath.Join(scratch, "go.sum"), sb, 0o644)
		modfileArg = "-modfile=" + mf
	}
	return nil
}

func pkgOf(prop string, v variant) string {
	if v.Pkg != "" {
		return v.Pkg
	}
	return "./" + strings.ToLower(prop)
}

func build(prop string, r *variantRun) {
	v := r.v
	if v.Kind == "fuzz" {
		// go test -c per target is done at run time (go test -fuzz needs the
		// package dir); here only vet that it compiles.
		args := []string{"test", "-c", "-o", filepath.Join(scratch, v.Name+".test")}
		if modfileArg != "" {
			args = append(args, modfileArg)
		}
		if v.Tags != "" {
			args = append(args, "-tags", v.Tags)
		}
		args = append(args, pkgOf(prop, v))
		cmd := exec.Command("go", args...)
		cmd.Dir = harness
		cmd.Env = goEnv()
		if out, err := cmd.CombinedOutput(); err != nil {
			r.buildErr = string(out) + err.Error()
		}
		return
	}
	r.bin = filepath.Join(scratch, v.Name+".bin")
	args := []string{"build", "-o", r.bin}
	if modfileArg != "" {
		args = append(args, modfileArg)
	}
	if v.Tags != "" {
		args = append(args, "-tags", v.Tags)
	}
	if v.Race {
		args = append(args, "-race")
	}
	if v.Asan {
		args = append(args, "-asan")
	}
	if v.Gcflags != "" {
		args = append(args, "-gcflags="+v.Gcflags)
	}
	if v.Cover != "" {
		args = append(args, "-cover", "-coverpkg="+v.Cover)
	}
	args = append(args, pkgOf(prop, v))
	cmd := exec.Command("go", args...)
	cmd.Dir = harness
	cmd.Env = goEnv()
	if v.Asan {
		cmd.Env = append(cmd.Env, "CGO_ENABLED=1")
	}
	out, err := cmd.CombinedOutput()
	if err != nil {
		r.buildErr = string(out) + err.Error()
	}
}

// ---- child supervision ---------------------------------------------------------

var (
	childMu  sync.Mutex
	children = map[int]*os.Process{}
)

func killChildren() {
	childMu.Lock()
	defer childMu.Unlock()
	for _, p := range children {
		p.Kill()
	}
}

func timeoutFor(v variant, tier string) time.Duration {
	if s, ok := v.TimeoutS[tier]; ok && s > 0 {
		return time.Duration(s) * time.Second
	}
	if tier == "quick" {
		return 20 * time.Minute
	}
	return 3 * time.Hour
}

// cpuSeconds returns utime+stime of pid from /proc (including threads).
func cpuSeconds(pid int) (float64, bool) {
	b, err := os.ReadFile(fmt.Sprintf("/proc/%d/stat", pid))
	if err != nil {
		return 0, false
	}
	s := string(b)
	i := strings.LastIndexByte(s, ')')
	if i < 0 {
		return 0, false
	}
	f := strings.Fields(s[i+1:])
	if len(f) < 14 {
		return 0, false
	}
	ut, _ := strconv.ParseFloat(f[11], 64)
	st, _ := strconv.ParseFloat(f[12], 64)
	return (ut + st) / 100, true
}

func runChild(prop, tier, only string, r *variantRun) {
	v := r.v
	base := filepath.Join(scratch, v.Name)
	outF, lastF, digF, logF := base+".result.json", base+".last", base+".digest", base+".log"
	args := []string{"-tier", tier, "-seed", strconv.FormatUint(seed(), 10), "-variant", v.Name, "-out", outF, "-last", lastF}
	if v.Join != "" {
		args = append(args, "-digest", digF)
		r.digest = digF
	}
	if only != "" {
		args = append(args, "-only", only)
	}
	args = append(args, v.Args...)
	cmd := exec.Command(r.bin, args...)
	cmd.Dir = scratch
	env := os.Environ()
	env = append(env, "VERIF_SCRATCH="+scratch, "VERIF_ROOT="+root, "VERIF_REPO="+repo)
	if v.Race {
		env = append(env, "GORACE=halt_on_error=0 log_path="+base+".race")
	}
	if v.Cover != "" {
		os.MkdirAll(base+".cov", 0o755)
		env = append(env, "GOCOVERDIR="+base+".cov")
	}
	for k, val := range v.Env {
		env = append(env, k+"="+val)
	}
	cmd.Env = env
	lf, err := os.Create(logF)
	if err != nil {
		r.crash = "harness: cannot create log"
		return
	}
	defer lf.Close()
	cmd.Stdout, cmd.Stderr = lf, lf
	if err := cmd.Start(); err != nil {
		r.crash = "harness: cannot start child: " + err.Error()
		return
	}
	childMu.Lock()
	children[cmd.Process.Pid] = cmd.Process
	childMu.Unlock()
	done := make(chan error, 1)
	go func() { done <- cmd.Wait() }()

	deadline := time.After(timeoutFor(v, tier))
	tick := time.NewTicker(2 * time.Second)
	defer tick.Stop()
	var waitErr error
	lastCase, lastCaseCPU := "", 0.0
	lastCPU, lastCPUAt := 0.0, time.Now()
loop:
	for {
		select {
		case waitErr = <-done:
			break loop
		case <-deadline:
			r.timedOut = true
			quitChild(cmd, done)
			break loop
		case <-tick.C:
			cpu, ok := cpuSeconds(cmd.Process.Pid)
			if !ok {
				continue
			}
			if v.StallS > 0 {
				if cpu-lastCPU > 0.05 {
					lastCPU, lastCPUAt = cpu, time.Now()
				} else if time.Since(lastCPUAt) > time.Duration(v.StallS)*time.Second {
					r.hung = fmt.Sprintf("blocked: child consumed no CPU for %ds", v.StallS)
					quitChild(cmd, done)
					break loop
				}
			}
			if v.CaseCPUBudgetS > 0 {
				b, _ := os.ReadFile(lastF)
				lc := strings.TrimSpace(string(b))
				if lc != lastCase {
					lastCase, lastCaseCPU = lc, cpu
				} else if lc != "" && cpu-lastCaseCPU > float64(v.CaseCPUBudgetS) {
					r.hung = fmt.Sprintf("cpu-budget: %ds of CPU burnt inside one case", v.CaseCPUBudgetS)
					quitChild(cmd, done)
					break loop
				}
			}
		}
	}
	childMu.Lock()
	delete(children, cmd.Process.Pid)
	childMu.Unlock()
	lf.Sync()

	if b, err := os.ReadFile(outF); err == nil {
		var res result
		if json.Unmarshal(b, &res) == nil {
			r.res = &res
		}
	}
	logB, _ := os.ReadFile(logF)
	r.crashLog = tail(string(logB), 12000)
	if lc, err := os.ReadFile(lastF); err == nil {
		if s := strings.TrimSpace(string(lc)); s != "" {
			r.crashLog += "\n--- last case ---\n" + s
		}
	}
	if r.timedOut || r.hung != "" {
		return
	}
	if waitErr != nil || r.res == nil || !r.res.Completed {
		// The race detector makes an otherwise successful child exit with
		// status 66 when it printed reports (halt_on_error=0); the reports
		// themselves are parsed below, so that is not a crash.
		raceExit := false
		if ee, ok := waitErr.(*exec.ExitError); ok && v.Race && ee.ExitCode() == 66 && r.res != nil && r.res.Completed {
			raceExit = true
		}
		if !raceExit {
			r.crash = crashSignature(string(logB), waitErr)
		}
	}
	if v.Race {
		r.raceSigs = parseRaceLogs(base + ".race")
	}
}

func quitChild(cmd *exec.Cmd, done chan error) {
	cmd.Process.Signal(syscall.SIGQUIT)
	select {
	case <-done:
	case <-time.After(10 * time.Second):
		cmd.Process.Kill()
		<-done
	}
}

func tail(s string, n int) string {
	if len(s) <= n {
		return s
	}
	return "...\n" + s[len(s)-n:]
}

var (
	reHex = regexp.MustCompile(`0x[0-9a-fA-F]+`)
	reNum = regexp.MustCompile(`\b\d+\b`)
)

// crashSignature extracts a run-independent description of why the child
// died from its log.
func crashSignature(log string, waitErr error) string {
	sc := bufio.NewScanner(strings.NewReader(log))
	sc.Buffer(make([]byte, 1<<20), 1<<24)
	for sc.Scan() {
		l := sc.Text()
		if strings.HasPrefix(l, "panic: ") || strings.HasPrefix(l, "fatal error: ") ||
			strings.Contains(l, "ERROR: AddressSanitizer") || strings.HasPrefix(l, "unexpected fault address") ||
			strings.HasPrefix(l, "runtime: ") || strings.HasPrefix(l, "SIGSEGV") {
			l = reHex.ReplaceAllString(l, "0x?")
			l = reNum.ReplaceAllString(l, "N")
			if len(l) > 160 {
				l = l[:160]
			}
			return l
		}
	}
	if waitErr != nil {
		return "child exited: " + waitErr.Error()
	}
	return "child wrote no complete result"
}

// parseRaceLogs reads race detector logs (log_path prefix) and returns a
// map from deduplication signature to the first full report.
func parseRaceLogs(prefix string) map[string]string {
	out := map[string]string{}
	files, _ := filepath.Glob(prefix + ".*")
	for _, f := range files {
		b, err := os.ReadFile(f)
		if err != nil {
			continue
		}
		for _, blk := range strings.Split(string(b), "==================") {
			if !strings.Contains(blk, "WARNING: DATA RACE") {
				continue
			}
			sig := raceSig(blk)
			if _, ok := out[sig]; !ok {
				out[sig] = blk
			}
		}
	}
	return out
}

var reFrame = regexp.MustCompile(`^\s+((?:[\w./\-]+)\.(?:\(\*?\w+\)\.)?[\w.\-]+(?:\[\.\.\.\])?(?:\.func\d+(?:\.\d+)*)?)\(`)

// raceSig: the first gonum (non-harness) frame of each of the two access
// stacks, sorted; "harness" when a stack has no gonum frame.
func raceSig(blk string) string {
	var stacks [][]string
	var cur []string
	inStack := false
	for _, l := range strings.Split(blk, "\n") {
		t := strings.TrimSpace(l)
		switch {
		case strings.HasPrefix(t, "Write at") || strings.HasPrefix(t, "Read at") ||
			strings.HasPrefix(t, "Previous write at") || strings.HasPrefix(t, "Previous read at") ||
			strings.HasPrefix(t, "Atomic") || strings.HasPrefix(t, "Previous atomic"):
			if inStack {
				stacks = append(stacks, cur)
			}
			cur, inStack = nil, true
		case strings.HasPrefix(t, "Goroutine ") && strings.Contains(t, "created at"):
			if inStack {
				stacks = append(stacks, cur)
			}
			cur, inStack = nil, false
		default:
			if inStack {
				if m := reFrame.FindStringSubmatch(l); m != nil {
					cur = append(cur, m[1])
				}
			}
		}
	}
	if inStack {
		stacks = append(stacks, cur)
	}
	var tops []string
	for i, st := range stacks {
		if i >= 2 {
			break
		}
		top := "harness"
		for _, f := range st {
			if strings.HasPrefix(f, "gonum.org/v1/gonum/") && !strings.HasPrefix(f, "gonum.org/v1/gonum/verifx/") {
				top = strings.TrimPrefix(f, "gonum.org/v1/gonum/")
				break
			}
		}
		tops = append(tops, top)
	}
	sort.Strings(tops)
	return "race|" + strings.Join(tops, "|")
}

// ---- fuzz variants ----------------------------------------------------------------

var (
	reExecs   = regexp.MustCompile(`execs: (\d+)`)
	reFailing = regexp.MustCompile(`Failing input written to (\S+)`)
)

func runFuzz(prop, tier string, r *variantRun) {
	v := r.v
	n := v.FuzzTime[tier]
	if n <= 0 {
		n = 20000
	}
	pkgDir := filepath.Join(harness, strings.TrimPrefix(pkgOf(prop, v), "./"))
	cache := filepath.Join(scratch, v.Name+".fuzzcache")
	for _, tgt := range v.Targets {
		args := []string{"test", "-run=^$", "-fuzz=^" + tgt + "$", fmt.Sprintf("-fuzztime=%dx", n), "-test.fuzzcachedir=" + cache}
		if modfileArg != "" {
			args = append(args, modfileArg)
		}
		if v.Tags != "" {
			args = append(args, "-tags", v.Tags)
		}
		args = append(args, ".")
		cmd := exec.Command("go", args...)
		cmd.Dir = pkgDir
		cmd.Env = append(goEnv(), "VERIF_SEED="+strconv.FormatUint(seed(), 10))
		out, err := cmd.CombinedOutput()
		var last int64
		for _, m := range reExecs.FindAllStringSubmatch(string(out), -1) {
			x, _ := strconv.ParseInt(m[1], 10, 64)
			if x > last {
				last = x
			}
		}
		r.fuzzExecs += last
		if err != nil {
			ff := fuzzFail{Target: tgt, Msg: tail(string(out), 6000)}
			if m := reFailing.FindStringSubmatch(string(out)); m != nil {
				p := m[1]
				if !filepath.IsAbs(p) {
					p = filepath.Join(pkgDir, p)
				}
				if b, e := os.ReadFile(p); e == nil {
					ff.Input = string(b)
				}
				os.Remove(p) // keep the harness tree clean; the input is in the replay file
			} else if !strings.Contains(string(out), "FAIL") {
				ff.Msg = "go test -fuzz failed to run: " + ff.Msg
			}
			r.fuzzFails = append(r.fuzzFails, ff)
		}
	}
	// remove empty testdata dirs the fuzzer may have created
	os.Remove(filepath.Join(pkgDir, "testdata", "fuzz"))
}

// ---- verdict --------------------------------------------------------------------------

type evidence struct {
	PropertyID  string         `json:"property_id"`
	Tier        string         `json:"tier"`
	Seed        int64          `json:"seed"`
	Level       string         `json:"level"`
	Coverage    map[string]any `json:"coverage"`
	Assumptions []string       `json:"assumptions"`
	WallS       float64        `json:"wall_s"`
	Violations  int            `json:"violations"`
}

func conclude(prop, tier string, cfg *propConfig, runs []*variantRun, wall float64, only string) int {
	known := loadKnown()
	var viols []*violation
	var inconc []string
	var evals int64
	distinct := 0
	var samples []any
	perVariant := map[string]any{}
	counters := map[string]int64{}
	notes := map[string]any{}
	harnessFail := false

	for _, r := range runs {
		name := r.v.Name
		pv := map[string]any{"wall_s": round1(r.wall), "tags": r.v.Tags}
		if r.v.Race {
			pv["race_detector"] = true
			pv["race_reports_distinct"] = len(r.raceSigs)
		}
		if r.v.Asan {
			pv["asan"] = true
		}
		if r.res != nil {
			evals += r.res.Evaluations
			distinct += r.res.Distinct
			pv["evaluations"] = r.res.Evaluations
			pv["distinct_nontrivial"] = r.res.Distinct
			for _, s := range r.res.Samples {
				if len(samples) < 10 {
					samples = append(samples, s)
				}
			}
			for _, v := range r.res.Violations {
				v.Variant = name
				viols = append(viols, v)
			}
			for _, ic := range r.res.Inconclusive {
				inconc = append(inconc, fmt.Sprintf("%s[%s]: %s", ic.Sub, name, ic.Reason))
			}
			for k, c := range r.res.Counters {
				counters[k] += c
			}
			for k, n := range r.res.Notes {
				notes[name+"."+k] = n
			}
		}
		if r.v.Kind == "fuzz" {
			evals += r.fuzzExecs
			pv["fuzz_execs"] = r.fuzzExecs
			pv["fuzz_targets"] = r.v.Targets
			distinct += len(r.v.Targets)
			for _, ff := range r.fuzzFails {
				viols = append(viols, &violation{
					Sig: "fuzz|" + ff.Target + "|" + inputDigest(ff.Input), Detail: "go test -fuzz target failed: " + firstLines(ff.Msg, 30),
					Count: 1, Replay: map[string]any{"target": ff.Target, "input": ff.Input, "output": ff.Msg}, Variant: name,
				})
			}
		}
		switch {
		case r.hung != "":
			viols = append(viols, &violation{Sig: "hang|" + name + "|" + strings.SplitN(r.hung, ":", 2)[0], Detail: r.hung, Count: 1,
				Replay: map[string]any{"log": r.crashLog}, Variant: name})
		case r.timedOut:
			inconc = append(inconc, fmt.Sprintf("watchdog[%s]: wall-clock watchdog fired after %s; run incomplete", name, timeoutFor(r.v, tier)))
		case r.crash != "":
			if strings.HasPrefix(r.crash, "harness:") {
				harnessFail = true
				fmt.Printf("HARNESS-ERROR: %s variant=%s: %s\n", prop, name, r.crash)
			} else {
				viols = append(viols, &violation{Sig: "crash|" + name + "|" + r.crash, Detail: "monitor child process died: " + r.crash,
					Count: 1, Replay: map[string]any{"log": r.crashLog}, Variant: name})
			}
		}
		for sig, blk := range r.raceSigs {
			viols = append(viols, &violation{Sig: sig, Detail: "race detector report", Count: 1, Replay: map[string]any{"report": blk}, Variant: name})
		}
		perVariant[name] = pv
	}

	// cross-build join
	joinChecked, joinViols := joinDigests(runs)
	viols = append(viols, joinViols...)
	if joinChecked > 0 {
		notes["cross_build_join_cases"] = joinChecked
	}

	// known findings
	openKnown := map[string]knownEntry{}
	for _, k := range known {
		if k.Property == prop && k.Status == "open" {
			openKnown[k.Signature] = k
		}
	}
	os.MkdirAll(filepath.Join(root, "replays"), 0o755)
	nviol := 0
	var knownHit []string
	var lines []string
	seen := map[string]bool{}
	for _, v := range viols {
		if only != "" && v.Sig != only {
			continue
		}
		if k, ok := openKnown[v.Sig]; ok {
			if !seen[v.Sig] {
				seen[v.Sig] = true
				fmt.Printf("KNOWN-FINDING: property=%s %s -- %s\n", prop, v.Sig, k.Description)
				knownHit = append(knownHit, v.Sig)
			}
			continue
		}
		key := v.Sig
		if seen[key] {
			continue
		}
		seen[key] = true
		nviol++
		path := writeReplay(prop, tier, v)
		lines = append(lines, fmt.Sprintf("VIOLATION property=%s replay=%s", prop, path))
		fmt.Printf("  witness [%s] %s: %s\n", v.Variant, v.Sig, firstLines(v.Detail, 12))
	}
	for _, ic := range inconc {
		fmt.Printf("INCONCLUSIVE: property=%s %s\n", prop, ic)
	}

	if samples == nil {
		samples = []any{}
	}
	cov := map[string]any{
		"evaluations":         evals,
		"distinct_nontrivial": distinct,
		"rule":                cfg.Rule + " Counts are summed over build variants (a case under another build configuration is a distinct configuration).",
		"samples":             samples,
		"variants":            perVariant,
		"counters":            counters,
		"notes":               notes,
		"inconclusive":        inconc,
		"known_findings_hit":  knownHit,
	}
	level := cfg.Level
	if level == "" {
		level = "exploration"
	}
	ev := evidence{PropertyID: prop, Tier: tier, Seed: int64(seed()), Level: level, Coverage: cov,
		Assumptions: cfg.Assumptions, WallS: round1(wall), Violations: nviol}
	if ev.Assumptions == nil {
		ev.Assumptions = []string{}
	}
	if only == "" {
		// Evidence describes /repo itself; a run against a scratch copy
		// (VERIF_REPO) must not overwrite it.
		evDir := filepath.Join(root, "evidence")
		if repo != "/repo" {
			evDir = filepath.Join(os.TempDir(), "vctl-scratch-evidence")
		}
		os.MkdirAll(evDir, 0o755)
		b, _ := json.MarshalIndent(ev, "", " ")
		if err := os.WriteFile(filepath.Join(evDir, prop+".json"), append(b, '\n'), 0o644); err != nil {
			fmt.Println("HARNESS-ERROR: cannot write evidence:", err)
			harnessFail = true
		}
	}
	for _, l := range lines {
		fmt.Println(l)
	}
	fmt.Printf("SUMMARY property=%s tier=%s seed=%d evaluations=%d distinct_nontrivial=%d violations=%d known=%d inconclusive=%d wall=%.1fs\n",
		prop, tier, seed(), evals, distinct, nviol, len(knownHit), len(inconc), wall)
	if nviol > 0 {
		return 1
	}
	if harnessFail {
		return 2
	}
	if evals == 0 {
		fmt.Printf("HARNESS-ERROR: %s observed nothing\n", prop)
		return 2
	}
	if len(samples) == 0 && only == "" {
		fmt.Printf("HARNESS-ERROR: %s offered no literal sample of the cases it ran (evidence would be invalid)\n", prop)
		return 2
	}
	if distinct < 2 && only == "" {
		fmt.Printf("HARNESS-ERROR: %s counted fewer than 2 distinct non-trivial cases\n", prop)
		return 2
	}
	return 0
}

func round1(x float64) float64 { return float64(int64(x*10+0.5)) / 10 }

func firstLines(s string, n int) string {
	l := strings.Split(s, "\n")
	if len(l) > n {
		l = append(l[:n], "...")
	}
	return strings.Join(l, "\n    ")
}

func inputDigest(s string) string {
	h := sha256.Sum256([]byte(s))
	return fmt.Sprintf("%x", h[:6])
}

func writeReplay(prop, tier string, v *violation) string {
	h := sha256.Sum256([]byte(v.Sig + "|" + v.Variant))
	path := filepath.Join(root, "replays", fmt.Sprintf("%s-%x.json", prop, h[:6]))
	doc := map[string]any{
		"property": prop, "tier": tier, "seed": seed(), "variant": v.Variant, "signature": v.Sig,
		"detail": v.Detail, "count": v.Count, "witness": v.Replay, "repo": repo,
	}
	b, _ := json.MarshalIndent(doc, "", " ")
	os.WriteFile(path, append(b, '\n'), 0o644)
	return path
}

// joinDigests compares the "exact" digest lines of variants in the same
// join group.
func joinDigests(runs []*variantRun) (int, []*violation) {
	groups := map[string][]*variantRun{}
	for _, r := range runs {
		if r.v.Join != "" && r.digest != "" && r.res != nil && r.res.Completed {
			groups[r.v.Join] = append(groups[r.v.Join], r)
		}
	}
	checked := 0
	var viols []*violation
	for _, g := range groups {
		if len(g) < 2 {
			continue
		}
		base := loadDigest(g[0].digest)
		for _, o := range g[1:] {
			other := loadDigest(o.digest)
			for id, e := range base {
				if e.class != "exact" {
					continue
				}
				oe, ok := other[id]
				if !ok {
					continue
				}
				checked++
				if oe.hash != e.hash {
					routine := id
					if i := strings.IndexByte(id, '|'); i >= 0 {
						routine = id[:i]
					}
					viols = append(viols, &violation{
						Sig:    "build-disagree|" + routine + "|" + g[0].v.Name + "-vs-" + o.v.Name,
						Detail: fmt.Sprintf("case %s: output bits differ between builds %s (%s) and %s (%s)", id, g[0].v.Name, e.hash, o.v.Name, oe.hash),
						Count:  1, Replay: map[string]any{"case": id}, Variant: o.v.Name,
					})
				}
			}
		}
	}
	return checked, viols
}

type digEntry struct{ class, hash string }

func loadDigest(path string) map[string]digEntry {
	m := map[string]digEntry{}
	f, err := os.Open(path)
	if err != nil {
		return m
	}
	defer f.Close()
	sc := bufio.NewScanner(f)
	sc.Buffer(make([]byte, 1<<20), 1<<24)
	for sc.Scan() {
		p := strings.Split(sc.Text(), "\t")
		if len(p) == 3 {
			m[p[0]] = digEntry{p[1], p[2]}
		}
	}
	return m
}

// ---- replay ------------------------------------------------------------------------------

func cmdReplay(args []string) int {
	if len(args) < 1 {
		fmt.Println("usage: vctl replay <replay.json>")
		return 2
	}
	b, err := os.ReadFile(args[0])
	if err != nil {
		fmt.Println("HARNESS-ERROR:", err)
		return 2
	}
	var doc struct {
		Property  string `json:"property"`
		Tier      string `json:"tier"`
		Seed      uint64 `json:"seed"`
		Variant   string `json:"variant"`
		Signature string `json:"signature"`
	}
	if err := json.Unmarshal(b, &doc); err != nil || doc.Property == "" {
		fmt.Println("HARNESS-ERROR: not a replay file:", err)
		return 2
	}
	os.Setenv("VERIF_SEED", strconv.FormatUint(doc.Seed, 10))
	fmt.Printf("replaying %s %s variant=%s seed=%d tier=%s\n", doc.Property, doc.Signature, doc.Variant, doc.Seed, doc.Tier)
	rc := cmdRun([]string{doc.Property, "--tier", doc.Tier, "--only", doc.Signature, "--variant", doc.Variant})
	switch rc {
	case 1:
		fmt.Println("REPLAY: violation observed again")
	case 0:
		fmt.Println("REPLAY: violation not observed on this tree")
	}
	return rc
}

var _ = errors.New
