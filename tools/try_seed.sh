#!/bin/bash
# try_seed.sh <seed-dir> [confirm|check|all] [tier]
#
# <seed-dir> holds patch.diff, meta.json and the demonstration file(s) of one seeded change.
#   confirm: in a scratch worktree of /repo, check that the demo passes WITHOUT the patch, fails WITH it,
#            and that the gonum tests named in meta.json still pass with it.
#   check:   run the property's vctl check (quick, then thorough if quick is silent unless tier given)
#            against the patched scratch worktree via VERIF_REPO.
# The scratch worktree lives under /tmp and is removed at the end.
set -u
export GOFLAGS=-mod=mod GOPROXY=off GOSUMDB=off GOTOOLCHAIN=local
D=$(cd "$1" && pwd); MODE=${2:-all}; TIER=${3:-auto}
ID=$(basename "$D")
PROP=$(python3 -c "import json,sys;print(json.load(open('$D/meta.json'))['property'])")
WT=/tmp/try-$ID-$$
git -C /repo worktree add -q --detach "$WT" HEAD || exit 2
trap 'git -C /repo worktree remove --force "$WT" >/dev/null 2>&1; rm -rf "$WT"' EXIT

demo_place=$(python3 -c "import json;print(json.load(open('$D/meta.json'))['demo'].get('place_in',''))")
demo_file=$(python3 -c "import json;print(json.load(open('$D/meta.json'))['demo'].get('file',''))")
demo_cmd=$(python3 -c "import json;print(json.load(open('$D/meta.json'))['demo'].get('cmd',''))")

run_demo() {
  if [ -n "$demo_place" ] && [ -n "$demo_file" ] && [ -f "$D/$demo_file" ]; then
    mkdir -p "$WT/$demo_place"; cp "$D/$demo_file" "$WT/$demo_place/"
  fi
  (cd "$WT" && timeout 1200 bash -c "$demo_cmd") > "$WT/.demo.log" 2>&1
  rc=$?
  [ -n "$demo_place" ] && [ -n "$demo_file" ] && rm -f "$WT/$demo_place/$(basename $demo_file)"
  return $rc
}

if [ "$MODE" = confirm ] || [ "$MODE" = all ]; then
  if run_demo; then echo "CONFIRM $ID demo-without-patch: pass (good)"; else echo "CONFIRM $ID demo-without-patch: FAIL (bad demo)"; tail -5 "$WT/.demo.log"; fi
fi
git -C "$WT" apply "$D/patch.diff" 2>/dev/null || git -C "$WT" apply --3way "$D/patch.diff" >/dev/null 2>&1 || { echo "CONFIRM $ID patch does not apply"; exit 2; }
git -C "$WT" reset -q 2>/dev/null
if [ "$MODE" = confirm ] || [ "$MODE" = all ]; then
  if run_demo; then echo "CONFIRM $ID demo-with-patch: PASS (bad: change not demonstrated)"; else echo "CONFIRM $ID demo-with-patch: fail (good)"; fi
  python3 -c "
import json
for t in json.load(open('$D/meta.json')).get('tests_run',[]):
    print(t['cmd'])" | while read -r cmd; do
    case "$cmd" in
      go\ test*|*"go test"*) (cd "$WT" && timeout 3000 bash -c "$cmd") > "$WT/.t.log" 2>&1 && echo "CONFIRM $ID tests ok: $cmd" || { echo "CONFIRM $ID tests FAIL: $cmd"; grep -E "^(---|FAIL|ok)" "$WT/.t.log" | head -8; } ;;
    esac
  done
fi
if [ "$MODE" = check ] || [ "$MODE" = all ]; then
  git -C "$WT" checkout -q -- go.sum 2>/dev/null
  tiers="quick thorough"; [ "$TIER" != auto ] && tiers="$TIER"
  for t in $tiers; do
    s=$(date +%s)
    VERIF_REPO="$WT" /verif/bin/vctl run "$PROP" --tier $t > "$WT/.check.log" 2>&1; rc=$?
    e=$(( $(date +%s) - s ))
    nv=$(grep -c '^VIOLATION' "$WT/.check.log")
    echo "CHECK $ID prop=$PROP tier=$t rc=$rc violations=$nv wall=${e}s"
    grep -E "^  witness|^BUILD-FAILED|^HARNESS-ERROR|^INCONCLUSIVE" "$WT/.check.log" | cut -c1-300 | head -6
    [ $rc -eq 1 ] && break
  done
fi
