#!/usr/bin/env python3
"""merge_findings.py <property> <proposed.json>  — add proposed open entries to known_findings.json (no duplicates)."""
import json, sys
prop, path = sys.argv[1], sys.argv[2]
kf = json.load(open('/verif/known_findings.json'))
have = {(e['property'], e['signature']) for e in kf['entries']}
d = json.load(open(path))
ents = d['entries'] if isinstance(d, dict) else d
rcs = d.get('root_causes') if isinstance(d, dict) else None
rcmap = {}
if isinstance(rcs, list):
    for k, v in rcs: rcmap[k] = v
elif isinstance(rcs, dict):
    rcmap = rcs
n = 0
for e in ents:
    if (prop, e['signature']) in have: continue
    ne = {"status": "open", "property": prop, "signature": e['signature'], "description": e['description']}
    if 'root_cause' in e:
        ne['root_cause'] = e['root_cause']
    kf['entries'].append(ne); n += 1
if rcmap:
    kf.setdefault('root_causes', {}).setdefault(prop, {}).update(rcmap)
json.dump(kf, open('/verif/known_findings.json', 'w'), indent=1)
print("added", n, "entries; total", len(kf['entries']))
