#!/bin/bash
# sweep.sh <tier> <seeds> <props...> : run checks from the current directory's copy of /verif (works inside a vp run snapshot)
export GOFLAGS=-mod=mod GOPROXY=off GOSUMDB=off GOTOOLCHAIN=local
tier=$1; seeds=$2; shift 2
(cd harness && cp /repo/go.sum go.sum && go build -o ../bin/vctl ./cmd/vctl) || exit 2
for s in $seeds; do for p in "$@"; do
  VERIF_SEED=$s nice -n 5 ./bin/vctl run $p --tier $tier > sweep-$p-$tier-$s.log 2>&1; rc=$?
  echo "SWEEP $p tier=$tier seed=$s rc=$rc $(grep SUMMARY sweep-$p-$tier-$s.log | cut -d' ' -f5-)"
  grep -E "^  witness|^INCONCLUSIVE|^HARNESS|^BUILD" sweep-$p-$tier-$s.log | cut -c1-240 | head -5
done; done
