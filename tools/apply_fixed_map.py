#!/usr/bin/env python3
"""apply_fixed_map.py Cnn : mark the signatures of harness/cnn/fixed_map.json as fixed (commit looked up on /repo main by
subject) in known_findings.json, and reconcile the property's open entries with harness/cnn/proposed_known_findings.json."""
import json, subprocess, sys, os
prop = sys.argv[1]
d = '/verif/harness/%s/' % prop.lower()
kf = json.load(open('/verif/known_findings.json'))
ents = kf['entries']
log = subprocess.check_output(['git', '-C', '/repo', 'log', '--format=%h\t%s', 'main']).decode().splitlines()
bysubj = {}
for l in log:
    h, s = l.split('\t', 1)
    bysubj.setdefault(s, h)
idx = {(e['property'], e['signature']): e for e in ents}
fm = json.load(open(d + 'fixed_map.json'))
if isinstance(fm, dict): fm = fm.get('commits') or fm.get('entries') or fm.get('fixed') or list(fm.values())[0]
nfixed = 0
for f in fm:
    subj = f['subject']
    h = bysubj.get(subj)
    if not h:
        # tolerate truncated subjects
        c = [v for k, v in bysubj.items() if k.startswith(subj[:60])]
        h = c[0] if c else None
    if not h:
        print('NO COMMIT for', subj); continue
    for s in f['signatures']:
        e = idx.get((prop, s))
        if e is None:
            e = {"status": "fixed", "property": prop, "signature": s, "description": subj}
            ents.append(e); idx[(prop, s)] = e
        e['status'] = 'fixed'; e['commit'] = h
        if f.get('root_cause'): e['root_cause'] = f['root_cause']
        nfixed += 1
prop_open = set()
pk = d + 'proposed_known_findings.json'
if os.path.exists(pk):
    p = json.load(open(pk))
    for e in p.get('entries', []):
        prop_open.add(e['signature'])
        if (prop, e['signature']) not in idx:
            ne = {"status": "open", "property": prop, "signature": e['signature'], "description": e.get('description', '')}
            if e.get('root_cause'): ne['root_cause'] = e['root_cause']
            if e.get('why_open'): ne['why_open'] = e['why_open']
            ents.append(ne); idx[(prop, e['signature'])] = ne
        else:
            x = idx[(prop, e['signature'])]
            if x['status'] == 'open' and e.get('why_open'): x['why_open'] = e['why_open']
stale = [e['signature'] for e in ents if e['property'] == prop and e['status'] == 'open' and e['signature'] not in prop_open]
json.dump(kf, open('/verif/known_findings.json', 'w'), indent=1)
print(prop, 'fixed', nfixed, 'open now', sum(1 for e in ents if e['property'] == prop and e['status'] == 'open'), 'open-but-not-in-proposed', len(stale))
for s in stale[:10]: print('   stale-open:', s)
