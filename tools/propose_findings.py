#!/usr/bin/env python3
"""propose_findings.py Cnn [--out file] : collect /verif/replays/Cnn-*.json (written by the last vctl runs) into a
proposed known-findings file {entries:[{signature, description}]} for REVIEW by a human; never merges by itself."""
import json, glob, sys
prop = sys.argv[1]
out = sys.argv[sys.argv.index('--out')+1] if '--out' in sys.argv else '/tmp/proposed_%s.json' % prop
ents = {}
for f in sorted(glob.glob('/verif/replays/%s-*.json' % prop)):
    d = json.load(open(f))
    sig = d['signature']
    det = (d.get('detail') or '').split('\n')[0][:300]
    ents[sig] = {"signature": sig, "description": det}
json.dump({"property": prop, "entries": list(ents.values())}, open(out, 'w'), indent=1)
for e in ents.values():
    print(e['signature'], '--', e['description'][:160])
print(len(ents), 'entries ->', out)
