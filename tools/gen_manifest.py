#!/usr/bin/env python3
"""Regenerate /verif/MANIFEST.json from tools/checks_meta.json.

A property is claimed when it has an entry in checks_meta.json with "enabled": true and
/verif/harness/cNN/variants.json exists; every other property of properties.jsonl is listed
under not_applicable with the reason recorded in checks_meta.json (or a default).
"""
import json, os, sys

ROOT = os.path.dirname(os.path.dirname(os.path.abspath(__file__)))
props = [json.loads(l) for l in open(os.path.join(ROOT, "properties.jsonl"))]
meta = json.load(open(os.path.join(ROOT, "tools", "checks_meta.json")))

ENV = "export GOFLAGS=-mod=mod GOPROXY=off GOSUMDB=off GOTOOLCHAIN=local && "
manifest = {
    "version": 1,
    "setup_cmd": ENV + "cd /verif/harness && cp /repo/go.sum go.sum && go build -o ../bin/vctl ./cmd/vctl",
    "hooks": {
        "guard": "verif",
        "enable": "go build -tags verif from the harness module /verif/harness (module gonum.org/v1/gonum/verifx, replace gonum.org/v1/gonum => /repo); vctl passes the tag for every monitor build",
        "baseline_off_cmd": "cd /repo && go test -mod=mod -json -vet=off -count=1 -timeout 25m ./...",
        "source_commits": meta["hook_commits"],
        "add_only": True,
    },
    "engines": [{
        "name": "vctl",
        "path": "bin/vctl",
        "serves_properties": [],
        "kind_free_text": "orchestrator: builds the per-property monitor programs (harness/cNN) from /repo's current tree in the listed build variants (default/noasm/safe/bounds/-race/-asan), runs each as a child process, joins cross-build digests, parses race-detector logs, classifies child deaths and hangs, matches known_findings.json, writes evidence/Cnn.json",
    }],
    "checks": [],
    "notes": meta.get("notes", ""),
    "not_applicable": [],
}

for p in props:
    pid = p["id"]
    m = meta["checks"].get(pid, {})
    have = os.path.exists(os.path.join(ROOT, "harness", pid.lower(), "variants.json"))
    if m.get("enabled") and have:
        manifest["checks"].append({
            "property_id": pid,
            "quick_cmd": "./bin/vctl run %s --tier quick" % pid,
            "thorough_cmd": "./bin/vctl run %s --tier thorough" % pid,
            "evidence_file": "/verif/evidence/%s.json" % pid,
            "replay_cmd_template": "./bin/vctl replay {path}",
            "engine": "vctl",
            "level_claimed": {
                "category": m.get("category", "exploration"),
                "text": m["level_text"],
                "design_ref": "DESIGN.md section 3, %s" % pid,
            },
            "level_note": m["level_note"],
            "technique": m["technique"],
        })
        manifest["engines"][0]["serves_properties"].append(pid)
    else:
        manifest["not_applicable"].append({
            "property_id": pid,
            "reason": m.get("na_reason", "monitor not yet built in this session; not claimed"),
        })

json.dump(manifest, open(os.path.join(ROOT, "MANIFEST.json"), "w"), indent=1)
print("checks:", [c["property_id"] for c in manifest["checks"]])
print("not_applicable:", [c["property_id"] for c in manifest["not_applicable"]])
